(* Extraction of the executable model for the correspondence check.
   ExtrOcamlBasic only (bool, option, unit, list, prod, sumbool, ... as OCaml's own);
   N, Z, positive, nat and byte stay Coq datatypes.  No Extract Constant. *)
From Coq Require Import extraction.Extraction extraction.ExtrOcamlBasic.
From IKE Require Import Lib.Base Prim.Hmac Spec.PrfPlus Impl.EapAkaPrf Impl.Msg Impl.Eap Impl.Payloads Impl.Message Prim.Cbc Impl.Security Impl.Ike.
Extraction Language OCaml.
Extraction "model.ml"
  b2n n2b be_val nat_of N.of_nat
  hmac stream prf_plus slice hlen
  eap_aka_prime_prf
  aka_set_attr aka_get aka_sort aka_marshal aka_unmarshal expanded_unmarshal simple_unmarshal
  eapdata_marshal eap_marshal eap_unmarshal
  payload_marshal payload_unmarshal sa_unmarshal ts_unmarshal
  container_encode decode_payloads header_marshal parse_header encode decode ptype
  draw prf_plus_obj pkcs7_padding aes_encrypt aes_decrypt new_crypto cbc_enc cbc_dec
  generate_key_for_ikesa sa_of_keys generate_key_for_childsa prf_once ho_new ho_sum ho_write ho_reset
  calculate_integrity encrypt_msg encode_encrypt decrypt_msg decode_decrypt.
