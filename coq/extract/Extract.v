(* Extraction of the executable model for the correspondence check.
   ExtrOcamlBasic only (bool, option, unit, list, prod, sumbool, ... as OCaml's own);
   N, Z, positive, nat and byte stay Coq datatypes.  No Extract Constant. *)
From Coq Require Import extraction.Extraction extraction.ExtrOcamlBasic.
From IKE Require Import Lib.Base Prim.Hmac Spec.PrfPlus Impl.EapAkaPrf Impl.Msg Impl.Eap Impl.Payloads Impl.Message Prim.Cbc Impl.Security Impl.Ike Spec.Modp Impl.Dh Impl.Registry Impl.Build Spec.Wire Spec.WireParse Spec.AkaMac Thm.DomainB.
Extraction Language OCaml.
Extraction "model.ml"
  b2n n2b be_val N.of_nat
  hmac stream prf_plus slice hlen
  eap_aka_prime_prf
  aka_set_attr aka_get aka_sort aka_marshal aka_unmarshal expanded_unmarshal simple_unmarshal
  eapdata_marshal eap_marshal eap_unmarshal
  payload_marshal payload_unmarshal sa_unmarshal ts_unmarshal
  container_encode decode_payloads header_marshal parse_header encode decode ptype
  draw prf_plus_obj pkcs7_padding aes_encrypt aes_decrypt new_crypto cbc_enc cbc_dec
  generate_key_for_ikesa sa_of_keys generate_key_for_childsa prf_once ho_new ho_sum ho_write ho_reset
  calculate_integrity encrypt_msg encode_encrypt decrypt_msg decode_decrypt
  calc_at_mac zero_mac at_mac_spec
  be_min dh_public dh_shared generate_random_number dh_materials dh_prime dh_len
  encr_to_transform encr_decode integ_to_transform integ_decode prf_to_transform prf_decode
  dh_to_transform dh_decode esn_to_transform esn_decode ike_to_proposal ike_of_proposal
  child_to_proposal child_of_proposal encr_keylen integ_keylen integ_outlen prf_keylen
  new_header new_message is_response is_initiator
  build_notification build_certificate build_encrypted build_key_exchange build_idi build_idr build_auth
  build_configuration build_cp_attr build_nonce build_tsi build_tsr build_selector build_sa build_proposal
  build_delete build_transform build_eap build_eap_success build_eap_failure build_eap5g_start build_eap5g_nas
  build_notify_5g_qos_info build_notify_nas_ip4 build_notify_up_ip4 build_notify_nas_tcp_port
  wenc wparse erase_chain canon_payload canonical_payload wtype wenc_chain dom_msgb.
