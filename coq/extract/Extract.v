(* Extraction of the executable model for the correspondence check.
   ExtrOcamlBasic only (bool, option, unit, list, prod, sumbool, ... as OCaml's own);
   N, Z, positive, nat and byte stay Coq datatypes.  No Extract Constant. *)
From Coq Require Import extraction.Extraction extraction.ExtrOcamlBasic.
From IKE Require Import Lib.Base Prim.Hmac Spec.PrfPlus Impl.EapAkaPrf Impl.Msg Impl.Eap Impl.Payloads Impl.Message.
Extraction Language OCaml.
Extraction "model.ml"
  b2n n2b be_val nat_of N.of_nat
  hmac stream prf_plus slice
  eap_aka_prime_prf
  aka_set_attr aka_get aka_sort aka_marshal aka_unmarshal expanded_unmarshal simple_unmarshal
  eapdata_marshal eap_marshal eap_unmarshal
  payload_marshal payload_unmarshal sa_unmarshal ts_unmarshal
  container_encode decode_payloads header_marshal parse_header encode decode ptype.
