(* helpers for the agreement files *)
From Coq Require Import List String ZArith NArith Bool Ascii.
Import ListNotations.
Local Open Scope string_scope.

Fixpoint lookup {A} (k : string) (l : list (string * A)) : option A :=
  match l with [] => None | (k', v) :: r => if String.eqb k k' then Some v else lookup k r end.

Fixpoint contains (s sub : string) : bool :=
  prefix sub s || match s with EmptyString => false | String _ r => contains r sub end.
Definition ends_with (s suf : string) : bool :=
  let n := String.length s in let k := String.length suf in
  Nat.leb k n && String.eqb (substring (n - k) k s) suf.

Definition rec4_eqb (a b : string * string * string * string) : bool :=
  let '(a1, a2, a3, a4) := a in let '(b1, b2, b3, b4) := b in
  String.eqb a1 b1 && String.eqb a2 b2 && String.eqb a3 b3 && String.eqb a4 b4.
Fixpoint list_eqb {A} (e : A -> A -> bool) (l l' : list A) : bool :=
  match l, l' with [], [] => true | x :: r, y :: r' => e x y && list_eqb e r r' | _, _ => false end.
