(* The checked tie between the facts regenerated from /repo's source on every run (gen/SrcFacts.v, written by
   tools/srcfacts) and the model.  This file is fixed; it is recompiled against the regenerated SrcFacts.v by every
   check.  A change of a constant, a prime, a registry entry, a new write to a package-level variable outside init,
   a decoder that keeps a view of its input, or an encoder that assigns message fields breaks one of these theorems
   (a harmless rewrite can break one too: the check then searches for a failing input and, finding none, reports
   the broken obligation as "no-failing-input-found"). *)
From Coq Require Import List String ZArith NArith Bool Ascii.
Import ListNotations.
From IKEGen Require Import SrcFacts AgreeBase.
From IKE Require Import Lib.Base Impl.Msg Impl.Security Spec.Modp Impl.Dh Impl.Registry.
Local Open Scope string_scope.

(* ------------------------------------------------------------------ constants the model uses as literals *)
Definition zc (n : string) : option N := option_map Z.to_N (lookup n src_consts).

Theorem src_payload_types_are_the_models :
  zc "message.TypeSA" = Some (ptype (PSA [])) /\ zc "message.TypeKE" = Some (ptype (PKE 0 [])) /\
  zc "message.TypeIDi" = Some (ptype (PIDi 0 [])) /\ zc "message.TypeIDr" = Some (ptype (PIDr 0 [])) /\
  zc "message.TypeCERT" = Some (ptype (PCERT 0 [])) /\ zc "message.TypeCERTreq" = Some (ptype (PCERTREQ 0 [])) /\
  zc "message.TypeAUTH" = Some (ptype (PAUTH 0 [])) /\ zc "message.TypeNiNr" = Some (ptype (PNonce [])) /\
  zc "message.TypeN" = Some (ptype (PNotify 0 0 [] [])) /\ zc "message.TypeD" = Some (ptype (PDelete 0 0 0 [])) /\
  zc "message.TypeV" = Some (ptype (PVendor [])) /\ zc "message.TypeTSi" = Some (ptype (PTSi [])) /\
  zc "message.TypeTSr" = Some (ptype (PTSr [])) /\ zc "message.TypeSK" = Some (ptype (PSK 0 [])) /\
  zc "message.TypeCP" = Some (ptype (PCP 0 [])) /\ zc "message.TypeEAP" = Some (ptype (PEAP (mkEap 0 0 EDNone))) /\
  zc "message.NoNext" = Some 0%N /\ zc "message.IKE_HEADER_LEN" = Some 28%N.
Proof. repeat split; vm_compute; reflexivity. Qed.

Definition model_consts : list (string * Z) := [
  (* transform types and ids used by Impl/Registry.v *)
  ("message.TypeEncryptionAlgorithm", 1); ("message.TypePseudorandomFunction", 2); ("message.TypeIntegrityAlgorithm", 3);
  ("message.TypeDiffieHellmanGroup", 4); ("message.TypeExtendedSequenceNumbers", 5);
  ("message.ENCR_AES_CBC", 12); ("message.AttributeTypeKeyLength", 14);
  ("message.AttributeFormatUseTLV", 0); ("message.AttributeFormatUseTV", 1);
  ("message.TypeIKE", 1); ("message.TypeAH", 2); ("message.TypeESP", 3);
  (* header flags, traffic selector types (Impl/Build.v, Impl/Payloads.v) *)
  ("message.ResponseBitCheck", 32); ("message.InitiatorBitCheck", 8);
  ("message.TS_IPV4_ADDR_RANGE", 7); ("message.TS_IPV6_ADDR_RANGE", 8);
  (* EAP (Impl/Eap.v) *)
  ("eap.EapCodeRequest", 1); ("eap.EapCodeResponse", 2); ("eap.EapCodeSuccess", 3); ("eap.EapCodeFailure", 4);
  ("eap.EapTypeIdentity", 1); ("eap.EapTypeNotification", 2); ("eap.EapTypeNak", 3); ("eap.EapTypeAkaPrime", 50);
  ("eap.EapTypeExpanded", 254);
  ("eap.AT_RAND", 1); ("eap.AT_AUTN", 2); ("eap.AT_RES", 3); ("eap.AT_MAC", 11); ("eap.AT_KDF_INPUT", 23);
  ("eap.AT_KDF", 24); ("eap.AT_CHECKCODE", 134);
  (* 3GPP helpers (Impl/Build.v) *)
  ("eap.VendorId3GPP", 10415); ("eap.VendorTypeEAP5G", 3);
  ("message.EAP5GType5GStart", 1); ("message.EAP5GType5GNAS", 2); ("message.EAP5GSpareValue", 0);
  ("message.Vendor3GPPNotifyType5G_QOS_INFO", 55501); ("message.Vendor3GPPNotifyTypeNAS_IP4_ADDRESS", 55502);
  ("message.Vendor3GPPNotifyTypeUP_IP4_ADDRESS", 55504); ("message.Vendor3GPPNotifyTypeNAS_TCP_PORT", 55506)
]%Z.

Theorem src_consts_agree :
  forallb (fun nv => match lookup (fst nv) src_consts with Some v => Z.eqb v (snd nv) | None => false end) model_consts = true.
Proof. vm_compute. reflexivity. Qed.

Theorem src_transform_ids_are_the_models :
  zc "message.AUTH_HMAC_MD5_96" = Some (integ_id AUTH_HMAC_MD5_96) /\
  zc "message.AUTH_HMAC_SHA1_96" = Some (integ_id AUTH_HMAC_SHA1_96) /\
  zc "message.AUTH_HMAC_SHA2_256_128" = Some (integ_id AUTH_HMAC_SHA2_256_128) /\
  zc "message.PRF_HMAC_MD5" = Some (prf_id PRF_HMAC_MD5) /\ zc "message.PRF_HMAC_SHA1" = Some (prf_id PRF_HMAC_SHA1) /\
  zc "message.PRF_HMAC_SHA2_256" = Some (prf_id PRF_HMAC_SHA2_256) /\
  zc "message.DH_1024_BIT_MODP" = Some (dh_id DH_1024_BIT_MODP) /\ zc "message.DH_2048_BIT_MODP" = Some (dh_id DH_2048_BIT_MODP) /\
  zc "message.ESN_ENABLE" = Some (t_id (esn_to_transform true)) /\ zc "message.ESN_DISABLE" = Some (t_id (esn_to_transform false)) /\
  zc "message.ENCR_AES_CBC" = Some (t_id (encr_to_transform AES_CBC_128)).
Proof. repeat split; vm_compute; reflexivity. Qed.

