(* The checked tie between the dispatch tables of the CURRENT source (tools/srcfacts: the type switch of the payload
   chain walker and of EAP.Unmarshal, and every Type() method) and the model: the chain walker hands type code c to the
   decoder of the Go type whose Type() is c, and that pairing is the one Impl.Payloads.payload_unmarshal /
   Impl.Msg.ptype use (shown here by the model's own round trip  ptype (decoded value) = c  on a witness per type). *)
From Coq Require Import List String ZArith NArith Bool Ascii.
Import ListNotations.
From IKEGen Require Import SrcFacts AgreeBase.
From IKE Require Import Lib.Base Impl.Msg Impl.Eap Impl.Payloads.
Local Open Scope string_scope.

Definition rec3_eqb (a b : string * string * string) : bool :=
  let '(a1, a2, a3) := a in let '(b1, b2, b3) := b in String.eqb a1 b1 && String.eqb a2 b2 && String.eqb a3 b3.

(* (type code, Go type the walker instantiates, the same type's Type() value) *)
Definition expected_dispatch : list (string * string * string) := [
  ("eap.EAP.Unmarshal", "1", "EapIdentity"); ("eap.EAP.Unmarshal", "2", "EapNotification"); ("eap.EAP.Unmarshal", "254", "EapExpanded");
  ("eap.EAP.Unmarshal", "3", "EapNak"); ("eap.EAP.Unmarshal", "50", "EapAkaPrime");
  ("eap.EapAkaPrime", "type-code", "50"); ("eap.EapExpanded", "type-code", "254"); ("eap.EapIdentity", "type-code", "1");
  ("eap.EapNak", "type-code", "3"); ("eap.EapNotification", "type-code", "2");
  ("message.Authentication", "type-code", "39"); ("message.Certificate", "type-code", "37"); ("message.CertificateRequest", "type-code", "38");
  ("message.Configuration", "type-code", "47"); ("message.Delete", "type-code", "42"); ("message.Encrypted", "type-code", "46");
  ("message.IKEPayloadContainer.Decode", "33", "SecurityAssociation"); ("message.IKEPayloadContainer.Decode", "34", "KeyExchange");
  ("message.IKEPayloadContainer.Decode", "35", "IdentificationInitiator"); ("message.IKEPayloadContainer.Decode", "36", "IdentificationResponder");
  ("message.IKEPayloadContainer.Decode", "37", "Certificate"); ("message.IKEPayloadContainer.Decode", "38", "CertificateRequest");
  ("message.IKEPayloadContainer.Decode", "39", "Authentication"); ("message.IKEPayloadContainer.Decode", "40", "Nonce");
  ("message.IKEPayloadContainer.Decode", "41", "Notification"); ("message.IKEPayloadContainer.Decode", "42", "Delete");
  ("message.IKEPayloadContainer.Decode", "43", "VendorID"); ("message.IKEPayloadContainer.Decode", "44", "TrafficSelectorInitiator");
  ("message.IKEPayloadContainer.Decode", "45", "TrafficSelectorResponder"); ("message.IKEPayloadContainer.Decode", "46", "Encrypted");
  ("message.IKEPayloadContainer.Decode", "47", "Configuration"); ("message.IKEPayloadContainer.Decode", "48", "NewPayloadEap()");
  ("message.IdentificationInitiator", "type-code", "35"); ("message.IdentificationResponder", "type-code", "36");
  ("message.KeyExchange", "type-code", "34"); ("message.Nonce", "type-code", "40"); ("message.Notification", "type-code", "41");
  ("message.PayloadEap", "type-code", "48"); ("message.SecurityAssociation", "type-code", "33");
  ("message.TrafficSelectorInitiator", "type-code", "44"); ("message.TrafficSelectorResponder", "type-code", "45");
  ("message.VendorID", "type-code", "43")
].

Theorem src_dispatch_is_the_expected_one : list_eqb rec3_eqb src_dispatch expected_dispatch = true.
Proof. vm_compute. reflexivity. Qed.

(* the model dispatches the same codes to the same payload kinds: decoding a minimal body under code c gives a payload
   whose ptype is c again *)
Theorem model_dispatch_round_trips :
  forallb (fun cb => match payload_unmarshal (fst cb) 0 (snd cb) with Ok p => N.eqb (ptype p) (fst cb) | _ => false end)
    [(33, []); (34, [x00; x0e; x00; x00; x01]); (35, [x01; x00; x00; x00; x01]); (36, [x01; x00; x00; x00; x01]);
     (37, [x04; x01]); (38, [x04; x01]); (39, [x02; x00; x00; x00; x01]); (40, [x01]); (41, []); (42, []); (43, [x01]);
     (44, [x00; x00; x00; x00]); (45, [x00; x00; x00; x00]); (46, [x01]); (47, [x01; x00; x00; x00; x00; x01; x00; x00]);
     (48, [x03; x01; x00; x04])]%N = true.
Proof. vm_compute. reflexivity. Qed.
