(* The checked tie between the facts regenerated from /repo's source on every run (gen/SrcFacts.v, written by
   tools/srcfacts) and the model.  This file is fixed; it is recompiled against the regenerated SrcFacts.v by every
   check.  A change of a constant, a prime, a registry entry, a new write to a package-level variable outside init,
   a decoder that keeps a view of its input, or an encoder that assigns message fields breaks one of these theorems
   (a harmless rewrite can break one too: the check then searches for a failing input and, finding none, reports
   the broken obligation as "no-failing-input-found"). *)
From Coq Require Import List String ZArith NArith Bool Ascii.
Import ListNotations.
From IKEGen Require Import SrcFacts AgreeBase.
From IKE Require Import Lib.Base Impl.Msg Impl.Security Spec.Modp Impl.Dh Impl.Registry.
Local Open Scope string_scope.

(* ------------------------------------------------------------------ C18: no mutable state outside the objects passed in *)
(* every use of a package-level variable that is not a plain read happens in an init function, except that the two
   random-number bounds are handed (by address) to rand.Int and big.Int.Cmp, which only read them *)
Definition global_use_ok (u : string * string * string * string) : bool :=
  let '(v, f, kind, detail) := u in
  ends_with f ".init"
  || (String.eqb v "security.randomNumberMaximum" && String.eqb f "security.GenerateRandomNumber" && String.eqb kind "addr" && String.eqb detail "rand.Int")
  || (String.eqb v "security.randomNumberMinimum" && String.eqb f "security.GenerateRandomNumber" && String.eqb kind "addr" && String.eqb detail ".Cmp").

Theorem src_globals_are_frozen_after_init : forallb global_use_ok src_global_uses = true.
Proof. vm_compute. reflexivity. Qed.

(* the algorithm descriptors stored in the registries are shared by all goroutines: none of their methods assigns a
   receiver field (so they carry no per-call state) *)
Definition registry_types : list string :=
  ["Dh1024BitModp"; "DH2048BitModp"; "EncrAesCbc"; "ESN"; "AuthHmacMd5_95"; "AuthHmacSha1_96"; "AuthHmacSha2_256_128";
   "PrfHmacMd5"; "PrfHmacSha1"; "PrfHmacSha2_256"].
Theorem src_registry_types_are_those :
  forallb (fun r => let '(m, _, t, flds) := r in String.eqb flds "" || existsb (String.eqb t) registry_types) src_registry = true.
Proof. vm_compute. reflexivity. Qed.
Theorem src_descriptors_are_stateless :
  forallb (fun w => let '(f, _, _) := w in negb (existsb (fun t => contains f ("." ++ t ++ ".")) registry_types)) src_field_writes = true.
Proof. vm_compute. reflexivity. Qed.

