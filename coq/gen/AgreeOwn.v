(* The checked tie between the facts regenerated from /repo's source on every run (gen/SrcFacts.v, written by
   tools/srcfacts) and the model.  This file is fixed; it is recompiled against the regenerated SrcFacts.v by every
   check.  A change of a constant, a prime, a registry entry, a new write to a package-level variable outside init,
   a decoder that keeps a view of its input, or an encoder that assigns message fields breaks one of these theorems
   (a harmless rewrite can break one too: the check then searches for a failing input and, finding none, reports
   the broken obligation as "no-failing-input-found"). *)
From Coq Require Import List String ZArith NArith Bool Ascii.
Import ListNotations.
From IKEGen Require Import SrcFacts AgreeBase.
From IKE Require Import Lib.Base Impl.Msg Impl.Security Spec.Modp Impl.Dh Impl.Registry.
Local Open Scope string_scope.

(* ------------------------------------------------------------------ C20: ownership and purity *)
(* every place where octets of a []byte parameter can end up: fields receive copies; the only views are the documented
   IKEHeader.PayloadBytes (ParseHeader, NewHeader) and PKCS7Padding's result, which is the plaintext buffer it was
   given and is consumed inside Encrypt *)
Definition flow_ok (x : string * string * string) : bool :=
  let '(f, target, kind) := x in
  if String.eqb kind "copy" then true
  else if String.eqb kind "view" then
    (String.eqb f "message.ParseHeader" && String.eqb target "PayloadBytes")
    || (String.eqb f "message.NewHeader" && String.eqb target "PayloadBytes")
    || (String.eqb f "security/lib.PKCS7Padding" && String.eqb target "return")
  else if String.eqb kind "param-write" then
    (* the encryption path pads the plaintext it is given; that buffer is the fresh output of Payloads.Encode *)
    (String.eqb f "security/lib.PKCS7Padding" && String.eqb target "plainText")
    || (String.eqb f "security/encr.EncrAesCbcCrypto.Encrypt" && String.eqb target "plainText")
  else false.
Theorem src_decoded_fields_are_copies : forallb flow_ok src_slice_flows = true.
Proof. vm_compute. reflexivity. Qed.

(* encoding assigns no field of any payload: the only Marshal / Encode method that writes through its receiver is
   IKEMessage.Encode, and it writes header bookkeeping only (NextPayload, PayloadBytes) *)
Definition encoder_write_ok (w : string * string * string) : bool :=
  let '(f, path, how) := w in
  if ends_with f ".Marshal" || ends_with f ".Encode" || ends_with f ".marshal" || ends_with f ".Len" || ends_with f ".Type" then
    (String.eqb f "message.IKEMessage.Encode" &&
       (String.eqb path "recv.IKEHeader.NextPayload" || String.eqb path "recv.IKEHeader.PayloadBytes"
        || (String.eqb path "recv.IKEHeader" && String.eqb how "call:Marshal")
        || (String.eqb path "recv.Payloads" && String.eqb how "call:Encode")))
    || (String.eqb f "message.PayloadEap.Marshal" && String.eqb path "recv.EAP" && String.eqb how "call:Marshal")
  else true.
Theorem src_encoding_alters_only_header_bookkeeping : forallb encoder_write_ok src_field_writes = true.
Proof. vm_compute. reflexivity. Qed.

(* protecting / unprotecting a message touches nothing of the message but its payload list *)
Theorem src_protection_alters_only_the_payload_list :
  forallb (fun w => let '(f, path, _) := w in
             negb (String.eqb f "ike.encryptMsg" || String.eqb f "ike.decryptMsg" || String.eqb f "ike.EncodeEncrypt" || String.eqb f "ike.DecodeDecrypt")
             || String.eqb path "param.Payloads") src_field_writes = true.
Proof. vm_compute. reflexivity. Qed.
