(* The checked tie between the facts regenerated from /repo's source on every run (gen/SrcFacts.v, written by
   tools/srcfacts) and the model.  This file is fixed; it is recompiled against the regenerated SrcFacts.v by every
   check.  A change of a constant, a prime, a registry entry, a new write to a package-level variable outside init,
   a decoder that keeps a view of its input, or an encoder that assigns message fields breaks one of these theorems
   (a harmless rewrite can break one too: the check then searches for a failing input and, finding none, reports
   the broken obligation as "no-failing-input-found"). *)
From Coq Require Import List String ZArith NArith Bool Ascii.
Import ListNotations.
From IKEGen Require Import SrcFacts AgreeBase.
From IKE Require Import Lib.Base Impl.Msg Impl.Security Spec.Modp Impl.Dh Impl.Registry.
Local Open Scope string_scope.

(* ------------------------------------------------------------------ C09: the MODP groups *)
Theorem src_primes_are_the_rfc_primes :
  lookup "security/dh.Group2PrimeString" src_hexconsts = Some rfc2409_group2_p /\
  lookup "security/dh.Group14PrimeString" src_hexconsts = Some rfc3526_group14_p /\
  lookup "security/dh.Group2Generator" src_consts = Some modp_generator /\
  lookup "security/dh.Group14Generator" src_consts = Some modp_generator.
Proof. repeat split; vm_compute; reflexivity. Qed.

