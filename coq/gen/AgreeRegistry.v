(* The checked tie between the facts regenerated from /repo's source on every run (gen/SrcFacts.v, written by
   tools/srcfacts) and the model.  This file is fixed; it is recompiled against the regenerated SrcFacts.v by every
   check.  A change of a constant, a prime, a registry entry, a new write to a package-level variable outside init,
   a decoder that keeps a view of its input, or an encoder that assigns message fields breaks one of these theorems
   (a harmless rewrite can break one too: the check then searches for a failing input and, finding none, reports
   the broken obligation as "no-failing-input-found"). *)
From Coq Require Import List String ZArith NArith Bool Ascii.
Import ListNotations.
From IKEGen Require Import SrcFacts AgreeBase.
From IKE Require Import Lib.Base Impl.Msg Impl.Security Spec.Modp Impl.Dh Impl.Registry.
Local Open Scope string_scope.

(* ------------------------------------------------------------------ C07 C08 C11: the registries written by init() *)
Definition expected_registry : list (string * string * string * string) := [
  ("security/dh.dhString", "14", "toString_DH_2048_BIT_MODP", "");
  ("security/dh.dhString", "2", "toString_DH_1024_BIT_MODP", "");
  ("security/dh.dhTypes", "DH_1024_BIT_MODP", "Dh1024BitModp", "factor=factor;generator=generator;factorBytesLength=len(factor.Bytes())");
  ("security/dh.dhTypes", "DH_2048_BIT_MODP", "DH2048BitModp", "factor=factor;generator=generator;factorBytesLength=len(factor.Bytes())");
  ("security/encr.encrKTypes", "ENCR_AES_CBC_128", "EncrAesCbc", "keyLength=16");
  ("security/encr.encrKTypes", "ENCR_AES_CBC_192", "EncrAesCbc", "keyLength=24");
  ("security/encr.encrKTypes", "ENCR_AES_CBC_256", "EncrAesCbc", "keyLength=32");
  ("security/encr.encrString", "12", "toString_ENCR_AES_CBC", "");
  ("security/encr.encrTypes", "ENCR_AES_CBC_128", "EncrAesCbc", "keyLength=16");
  ("security/encr.encrTypes", "ENCR_AES_CBC_192", "EncrAesCbc", "keyLength=24");
  ("security/encr.encrTypes", "ENCR_AES_CBC_256", "EncrAesCbc", "keyLength=32");
  ("security/esn.esnString", "0", "toString_ESN_DISABLE", "");
  ("security/esn.esnString", "1", "toString_ESN_ENABLE", "");
  ("security/esn.esnTypes", "ESN_DISABLE", "ESN", "needESN=false");
  ("security/esn.esnTypes", "ESN_ENABLE", "ESN", "needESN=true");
  ("security/integ.integKTypes", "AUTH_HMAC_MD5_96", "AuthHmacMd5_95", "keyLength=16;outputLength=12");
  ("security/integ.integKTypes", "AUTH_HMAC_SHA1_96", "AuthHmacSha1_96", "keyLength=20;outputLength=12");
  ("security/integ.integKTypes", "AUTH_HMAC_SHA2_256_128", "AuthHmacSha2_256_128", "keyLength=32;outputLength=16");
  ("security/integ.integString", "1", "toString_AUTH_HMAC_MD5_96", "");
  ("security/integ.integString", "12", "toString_AUTH_HMAC_SHA2_256_128", "");
  ("security/integ.integString", "2", "toString_AUTH_HMAC_SHA1_96", "");
  ("security/integ.integTypes", "AUTH_HMAC_MD5_96", "AuthHmacMd5_95", "keyLength=16;outputLength=12");
  ("security/integ.integTypes", "AUTH_HMAC_SHA1_96", "AuthHmacSha1_96", "keyLength=20;outputLength=12");
  ("security/integ.integTypes", "AUTH_HMAC_SHA2_256_128", "AuthHmacSha2_256_128", "keyLength=32;outputLength=16");
  ("security/prf.prfString", "1", "toString_PRF_HMAC_MD5", "");
  ("security/prf.prfString", "2", "toString_PRF_HMAC_SHA1", "");
  ("security/prf.prfString", "5", "toString_PRF_HMAC_SHA2_256", "");
  ("security/prf.prfTypes", "PRF_HMAC_MD5", "PrfHmacMd5", "keyLength=16;outputLength=16");
  ("security/prf.prfTypes", "PRF_HMAC_SHA1", "PrfHmacSha1", "keyLength=20;outputLength=20");
  ("security/prf.prfTypes", "PRF_HMAC_SHA2_256", "PrfHmacSha2_256", "keyLength=32;outputLength=32")
].

Theorem src_registry_is_the_expected_one : list_eqb rec4_eqb src_registry expected_registry = true.
Proof. vm_compute. reflexivity. Qed.

(* ... and the numbers in that table are the model's *)
Theorem expected_registry_numbers_are_the_models :
  (encr_keylen AES_CBC_128, encr_keylen AES_CBC_192, encr_keylen AES_CBC_256) = (16, 24, 32)%nat /\
  (integ_keylen AUTH_HMAC_MD5_96, integ_outlen AUTH_HMAC_MD5_96) = (16, 12)%nat /\
  (integ_keylen AUTH_HMAC_SHA1_96, integ_outlen AUTH_HMAC_SHA1_96) = (20, 12)%nat /\
  (integ_keylen AUTH_HMAC_SHA2_256_128, integ_outlen AUTH_HMAC_SHA2_256_128) = (32, 16)%nat /\
  (prf_keylen PRF_HMAC_MD5, hlen (prf_hash PRF_HMAC_MD5)) = (16, 16)%nat /\
  (prf_keylen PRF_HMAC_SHA1, hlen (prf_hash PRF_HMAC_SHA1)) = (20, 20)%nat /\
  (prf_keylen PRF_HMAC_SHA2_256, hlen (prf_hash PRF_HMAC_SHA2_256)) = (32, 32)%nat /\
  (dh_id DH_1024_BIT_MODP, dh_id DH_2048_BIT_MODP) = (2, 14)%N /\
  (dh_len DH_1024_BIT_MODP, dh_len DH_2048_BIT_MODP) = (128, 256)%nat.
Proof. repeat split. Qed.

