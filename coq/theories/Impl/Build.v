(* Model of message/build.go (the Build* helpers incl. the 3GPP ones), NewHeader / NewMessage and the
   flag accessors of message/header.go.  A container is the list of its payloads; every builder
   appends. *)
From IKE Require Import Lib.Base Impl.Msg.
Local Open Scope N_scope.

Definition new_header (ispi rspi exch : N) (response initiator : bool) (mid next : N) : header :=
  mkHeader ispi rspi 2 0 exch ((if response then 32 else 0) + (if initiator then 8 else 0)) mid next.
Definition new_message (ispi rspi exch : N) (response initiator : bool) (mid : N) (ps : list payload) : msg :=
  mkMsg (new_header ispi rspi exch response initiator mid 0) ps.
Definition is_response (h : header) : bool := negb (N.land (h_flags h) 32 =? 0).
Definition is_initiator (h : header) : bool := negb (N.land (h_flags h) 8 =? 0).

Definition app1 {A} (l : list A) (x : A) : list A := l ++ [x].

Definition build_notification (c : list payload) (proto ntype : N) (spi d : bytes) := app1 c (PNotify proto ntype spi d).
Definition build_certificate (c : list payload) (enc : N) (d : bytes) := app1 c (PCERT enc d).
Definition build_encrypted (c : list payload) (nxt : N) (d : bytes) := app1 c (PSK nxt d).
Definition build_key_exchange (c : list payload) (g : N) (d : bytes) := app1 c (PKE g d).
Definition build_idi (c : list payload) (t : N) (d : bytes) := app1 c (PIDi t d).
Definition build_idr (c : list payload) (t : N) (d : bytes) := app1 c (PIDr t d).
Definition build_auth (c : list payload) (t : N) (d : bytes) := app1 c (PAUTH t d).
Definition build_configuration (c : list payload) (t : N) := app1 c (PCP t []).
Definition build_cp_attr (c : list cpattr) (t : N) (v : bytes) := app1 c (mkCpAttr t v).
Definition build_nonce (c : list payload) (d : bytes) := app1 c (PNonce d).
Definition build_tsi (c : list payload) := app1 c (PTSi []).
Definition build_tsr (c : list payload) := app1 c (PTSr []).
Definition build_selector (c : list selector) (ty proto sp ep : N) (sa ea : bytes) := app1 c (mkSelector ty proto sp ep sa ea).
Definition build_sa (c : list payload) := app1 c (PSA []).
Definition build_proposal (c : list proposal) (num proto : N) (spi : bytes) := app1 c (mkProposal num proto spi [] [] [] [] []).
Definition build_delete (c : list payload) (proto sz num : N) (spis : list N) := app1 c (PDelete proto sz num spis).

(* BuildTransform: attribute type given; value given -> TV; else non-empty variable value -> TLV; else nothing appended *)
Definition build_transform (c : list transform) (ty id : N) (atype aval : option N) (var : bytes) : list transform :=
  match atype with
  | Some at' =>
    match aval with
    | Some av => app1 c (mkTransform ty id true 1 at' av [])
    | None => if (length var =? 0)%nat then c else app1 c (mkTransform ty id true 0 at' 0 var)
    end
  | None => app1 c (mkTransform ty id false 0 0 0 [])
  end.

Definition build_eap (c : list payload) (code id : N) := app1 c (PEAP (mkEap code id EDNone)).
Definition build_eap_success (c : list payload) (id : N) := app1 c (PEAP (mkEap 3 id EDNone)).
Definition build_eap_failure (c : list payload) (id : N) := app1 c (PEAP (mkEap 4 id EDNone)).

(* 3GPP TS 24.502 helpers *)
Definition build_eap5g_start (c : list payload) (id : N) :=
  app1 c (PEAP (mkEap 1 id (EDExpanded 10415 3 [x01; x00]))).
Definition build_eap5g_nas (c : list payload) (id : N) (nas : bytes) : res (list payload) :=
  if (length nas =? 0)%nat then Err else
  if 65535 <? len nas then Err else
  Ok (app1 c (PEAP (mkEap 1 id (EDExpanded 10415 3 ([x02; x00] ++ be16 (len nas) ++ nas))))).
Definition build_notify_5g_qos_info (c : list payload) (pdu : N) (qfis : bytes) (isdefault isdscp : bool) (dscp : N)
  : res (list payload) :=
  if 255 <? len qfis then Err else
  let flags := (if isdefault then 2 else 0) + (if isdscp then 1 else 0) in
  let body := [n2b pdu; n2b (len qfis)] ++ qfis ++ [n2b flags] ++ (if isdscp then [n2b dscp] else []) in
  let n := 1 + len body in
  if 255 <? n then Err else
  Ok (build_notification c 0 55501 [] (n2b n :: body)).
(* net.ParseIP(s).To4() on a dotted quad = its four octets *)
Definition build_notify_nas_ip4 (c : list payload) (addr : option bytes) :=
  match addr with None => c | Some a => build_notification c 0 55502 [] a end.
Definition build_notify_up_ip4 (c : list payload) (addr : option bytes) :=
  match addr with None => c | Some a => build_notification c 0 55504 [] a end.
Definition build_notify_nas_tcp_port (c : list payload) (port : N) :=
  if port =? 0 then c else build_notification c 0 55506 [] (be16 port).
