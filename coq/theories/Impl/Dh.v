(* Model of security/dh (groups 2 and 14), security.GenerateRandomNumber and
   CalculateDiffieHellmanMaterials. *)
From Coq Require Import Zpow_facts.
From IKE Require Import Lib.Base Spec.Modp Impl.Security.

Inductive dh_alg := DH_1024_BIT_MODP | DH_2048_BIT_MODP.
Definition dh_prime (g : dh_alg) : Z := match g with DH_1024_BIT_MODP => rfc2409_group2_p | DH_2048_BIT_MODP => rfc3526_group14_p end.
Definition dh_len (g : dh_alg) : nat := match g with DH_1024_BIT_MODP => 128 | DH_2048_BIT_MODP => 256 end%nat.

(* big.Int.Bytes(): minimal big-endian octets, empty for 0 *)
Fixpoint be_min_f (fuel : nat) (n : N) (acc : bytes) : bytes :=
  match fuel with
  | O => acc
  | S f => if (n =? 0)%N then acc else be_min_f f (n / 256)%N (n2b n :: acc)
  end.
Definition be_min (n : N) : bytes := be_min_f (N.to_nat (N.size n)) n [].

(* append(make([]byte, L - len(v)), v...) : a negative size panics *)
Definition pad_left (L : nat) (v : bytes) : res bytes :=
  if (L <? length v)%nat then Fault else Ok (zeros (L - length v) ++ v).

(* new(big.Int).Exp(base, x, p).Bytes(), left-padded to the modulus length; exponent x >= 0 *)
Definition dh_exp (g : dh_alg) (base x : Z) : res bytes :=
  pad_left (dh_len g) (be_min (Z.to_N (Zpow_mod base x (dh_prime g)))).

Definition dh_public (g : dh_alg) (x : Z) : res bytes := dh_exp g modp_generator x.
Definition dh_shared (g : dh_alg) (x : Z) (peer : bytes) : res bytes := dh_exp g (Z.of_N (be_val peer)) x.

(* GenerateRandomNumber: rand.Int(rand.Reader, 2^2048 - 1) draws 256 octets until the value is < 2^2048 - 1;
   the library repeats until the value exceeds 2^128 - 1 *)
Definition rnd_max : N := (2 ^ 2048 - 1)%N.
Definition rnd_min : N := (2 ^ 128 - 1)%N.
Fixpoint generate_random_number (fuel : nat) (s : rnd) : res N * rnd :=
  match fuel with
  | O => (OutOfFuel, s)
  | S f =>
    match draw 256 s with
    | (Ok b, s') =>
      let n := be_val b in
      if (n <? rnd_max)%N && (rnd_min <? n)%N then (Ok n, s') else generate_random_number f s'
    | (_, s') => (Err, s')
    end
  end.

(* CalculateDiffieHellmanMaterials: local public value and shared secret *)
Definition dh_materials (g : dh_alg) (peer : bytes) (s : rnd) : res (bytes * bytes) * rnd :=
  match generate_random_number (S (length s / 256)) s with
  | (Ok x, s') =>
    (let* pub := dh_public g (Z.of_N x) in
     let* sh := dh_shared g (Z.of_N x) peer in
     Ok (pub, sh), s')
  | (Err, s') => (Err, s') | (Fault, s') => (Fault, s') | (OutOfFuel, s') => (OutOfFuel, s')
  end.
