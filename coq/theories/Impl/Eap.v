(* Model of eap/eap.go, eap_identity.go, eap_nak.go, eap_notification.go, eap_expanded.go and the
   codec half of eap_aka_prime.go (SetAttr / GetAttr / Marshal / Unmarshal). *)
From IKE Require Import Lib.Base Prim.Hmac Impl.Msg.
Local Open Scope N_scope.

(* ---------- EAP-AKA' attribute map ---------- *)
(* the Go map is an association list with unique keys; set = replace-or-append *)
Fixpoint aka_set (l : list akattr) (a : akattr) : list akattr :=
  match l with
  | [] => [a]
  | x :: r => if at_type x =? at_type a then a :: r else x :: aka_set r a
  end.

Fixpoint aka_get (l : list akattr) (t : N) : res akattr :=
  match l with
  | [] => Err
  | x :: r => if at_type x =? t then Ok x else aka_get r t
  end.

(* insertion sort by attribute type: getAttrsKeys() + sort.Slice *)
Fixpoint aka_insert (a : akattr) (l : list akattr) : list akattr :=
  match l with
  | [] => [a]
  | x :: r => if at_type a <=? at_type x then a :: x :: r else x :: aka_insert a r
  end.
Fixpoint aka_sort (l : list akattr) : list akattr :=
  match l with [] => [] | a :: r => aka_insert a (aka_sort r) end.

(* attr.setAttr *)
Definition aka_mk_attr (t : N) (v : bytes) : res akattr :=
  if (t =? 11) || (t =? 1) || (t =? 2) then
    if negb (length v =? 16)%nat then Err else Ok (mkAkAttr t 5 0 v)
  else if (t =? 23) || (t =? 3) then
    let vb := len v in
    let bits := vb * 8 in
    if (t =? 3) && ((128 <? bits) || (bits <? 32)) then Err else
    let total := 4 + vb in
    let pad := (4 - total mod 4) mod 4 in
    Ok (mkAkAttr t (((total + pad) / 4) mod 256) (bits mod 65536) v)
  else if t =? 24 then
    if negb (length v =? 2)%nat then Err else Ok (mkAkAttr t 1 0 v)
  else if t =? 134 then
    Ok (mkAkAttr t (((4 + len v) / 4) mod 256) 0 v)
  else Err.

Definition aka_set_attr (l : list akattr) (t : N) (v : bytes) : res (list akattr) :=
  let* a := aka_mk_attr t v in Ok (aka_set l a).

Definition aka_attr_bytes (a : akattr) : bytes :=
  [n2b (at_type a); n2b (at_len a)]
  ++ (if at_type a =? 24 then [] else be16 (at_res a))
  ++ at_val a
  ++ (if (at_type a =? 3) || (at_type a =? 23)
      then zeros (nat_of (at_len a * 4) - 4 - length (at_val a)) else []).

Definition aka_marshal (subtype reserved : N) (attrs : list akattr) : bytes :=
  [x32; n2b subtype] ++ be16 reserved ++ concat (map aka_attr_bytes (aka_sort attrs)).

(* io.ReadFull of n octets from the rest of the buffer: a short read is an error *)
Definition take (n : nat) (b : bytes) : res (bytes * bytes) :=
  if (length b <? n)%nat then Err else Ok (firstn n b, skipn n b).

Definition aka_dec_attr (t l : N) (b : bytes) : res (akattr * bytes) :=
  if (t =? 11) || (t =? 1) || (t =? 2) then
    if negb (l =? 5) then Err else
    let* '(_, b1) := take 2 b in
    let vl := (4 * l + 256 - 4) mod 256 in
    if negb (vl =? 16) then Err else
    let* '(v, b2) := take (nat_of vl) b1 in
    Ok (mkAkAttr t l 0 v, b2)
  else if (t =? 23) || (t =? 3) then
    let* '(r, b1) := take 2 b in
    let bits := be_val r in
    let vb := bits / 8 in
    let total := l * 4 in
    if total <? vb + 4 then Err else
    let* '(v, b2) := take (nat_of vb) b1 in
    let pad := total - vb - 4 in
    let* '(_, b3) := take (nat_of pad) b2 in
    Ok (mkAkAttr t l bits v, b3)
  else if t =? 24 then
    let vl := (4 * l + 256 - 2) mod 256 in
    let* '(v, b1) := take (nat_of vl) b in
    Ok (mkAkAttr t l 0 v, b1)
  else
    if l =? 0 then Err else
    let* '(r, b1) := take 2 b in
    let* '(v, b2) := take (nat_of (4 * l - 4)) b1 in
    Ok (mkAkAttr t l (be_val r) v, b2).

Fixpoint aka_dec_attrs (fuel : nat) (b : bytes) (acc : list akattr) : res (list akattr) :=
  match fuel with
  | O => OutOfFuel
  | S f =>
    match b with
    | [] => Ok acc                       (* EOF on the type octet *)
    | [_] => Ok acc                      (* EOF on the length octet: the lone octet is dropped *)
    | t :: l :: rest =>
      let* '(a, rest') := aka_dec_attr (b2n t) (b2n l) rest in
      aka_dec_attrs f rest' (aka_set acc a)
    end
  end.

(* EapAkaPrime.Unmarshal on a fresh object *)
Definition aka_unmarshal (b : bytes) : res eapdata :=
  if (length b <? 4)%nat then Err else
  let* ty := idx b 0 in
  if negb (ty =? 50) then Err else
  let* st := idx b 1 in
  let* rs := u16at b 2 in
  let* rest := from b 4 in
  let* attrs := aka_dec_attrs (S (length rest)) rest [] in
  Ok (EDAka st rs attrs).

(* ---------- the other EAP methods ---------- *)
Definition simple_marshal (ty : byte) (d : bytes) : res bytes :=
  if (length d =? 0)%nat then Err else Ok (ty :: d).

(* EapIdentity / EapNotification / EapNak .Unmarshal: only inspects the type when len > 1 *)
Definition simple_unmarshal (ty : N) (b : bytes) : res bytes :=
  if (1 <? length b)%nat then
    let* t := idx b 0 in
    if negb (t =? ty) then Err else from b 1
  else Ok [].

Definition expanded_marshal (vid vtype : N) (d : bytes) : bytes :=
  be32 (254 * 16777216 + vid mod 16777216) ++ be32 vtype ++ d.

Definition expanded_unmarshal (b : bytes) : res eapdata :=
  if (length b =? 0)%nat then Ok (EDExpanded 0 0 []) else
  if (length b <? 8)%nat then Err else
  let* tv := u32at b 0 in
  let* vt := u32at b 4 in
  let* d := from b 8 in
  Ok (EDExpanded (tv mod 16777216) vt d).

Definition eapdata_marshal (d : eapdata) : res bytes :=
  match d with
  | EDNone => Ok []
  | EDIdentity x => simple_marshal x01 x
  | EDNotification x => simple_marshal x02 x
  | EDNak x => simple_marshal x03 x
  | EDExpanded vid vt x => Ok (expanded_marshal vid vt x)
  | EDAka st rs attrs => Ok (aka_marshal st rs attrs)
  end.

(* EAP.Marshal *)
Definition eap_marshal (e : eap) : res bytes :=
  let* td := eapdata_marshal (e_data e) in
  let n := 4 + len td in
  Ok ([n2b (e_code e); n2b (e_id e)] ++ be16 n ++ td).

Definition eap_zero : eap := mkEap 0 0 EDNone.

(* EAP.Unmarshal on a fresh object *)
Definition eap_unmarshal (b : bytes) : res eap :=
  if (length b =? 0)%nat then Ok eap_zero else
  if (length b <? 4)%nat then Err else
  let* l := u16at b 2 in
  if l <? 4 then Err else
  if negb (len b =? l) then Err else
  let* code := idx b 0 in
  let* id := idx b 1 in
  if l =? 4 then Ok (mkEap code id EDNone) else
  let* ty := idx b 4 in
  let* body := from b 4 in
  let* td :=
    (if ty =? 1 then res_map EDIdentity (simple_unmarshal 1 body)
     else if ty =? 2 then res_map EDNotification (simple_unmarshal 2 body)
     else if ty =? 3 then res_map EDNak (simple_unmarshal 3 body)
     else if ty =? 50 then aka_unmarshal body
     else if ty =? 254 then expanded_unmarshal body
     else Err) in
  Ok (mkEap code id td).

(* ---------- (EAP).CalcEapAkaPrimeAtMAC ---------- *)
Section AtMac.
  Variable sha256 : bytes -> bytes.
  (* returns the code and the packet as left behind (AT_MAC zeroed) *)
  Definition calc_at_mac (e : eap) (key : bytes) : res (bytes * eap) :=
    match e_data e with
    | EDNone => Fault                            (* nil EapTypeData: method call on a nil interface *)
    | EDAka st rs attrs =>
      let* attrs' := aka_set_attr attrs 11 (zeros 16) in
      let e' := mkEap (e_code e) (e_id e) (EDAka st rs attrs') in
      let* b := eap_marshal e' in
      let* mac := upto (IKE.Prim.Hmac.hmac sha256 64 key b) 16 in
      Ok (mac, e')
    | _ => Err
    end.
End AtMac.
