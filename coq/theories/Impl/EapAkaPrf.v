(* Model of eap.EapAkaPrimePRF (eap/eap_aka_prime.go). *)
From IKE Require Import Lib.Base Prim.Hmac.

Section Impl.
  Variable sha256 : bytes -> bytes.

  (* []byte("EAP-AKA'") *)
  Definition eap_aka_label : bytes := [x45; x41; x50; x2d; x41; x4b; x41; x27].

  (* one loop iteration: i counts from 0; state (MK, prev) *)
  Definition prf_round (key sbase : bytes) (st : bytes * bytes) (i : nat) : bytes * bytes :=
    let '(mk, prev) := st in
    let sBaseWithNum := sbase ++ [n2b (N.of_nat (i + 1))] in
    let s := prev ++ sBaseWithNum in
    let sha := hmac sha256 64 key s in
    (mk ++ sha, sha).

  Definition eap_aka_prime_prf (ik ck identity : bytes)
    : res (bytes * bytes * bytes * bytes * bytes) :=
    if (length ik =? 0)%nat || (length ck =? 0)%nat then Err else
    let key := ik ++ ck in
    let sbase := eap_aka_label ++ identity in
    let '(mk, _) := fold_left (prf_round key sbase) (seq 0 7) ([], []) in
    if (length mk <? 208)%nat then Err else
    let* k_encr := sub mk 0 16 in
    let* k_aut := sub mk 16 48 in
    let* k_re := sub mk 48 80 in
    let* msk := sub mk 80 144 in
    let* emsk := sub mk 144 208 in
    Ok (k_encr, k_aut, k_re, msk, emsk).
End Impl.
