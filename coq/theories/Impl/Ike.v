(* Model of ike.go: EncodeEncrypt / DecodeDecrypt, encryptMsg / decryptMsg, calculateIntegrity /
   verifyIntegrity.  Role: true = initiator, false = responder (message.Role). *)
From IKE Require Import Lib.Base Prim.Hmac Prim.Cbc Impl.Msg Impl.Eap Impl.Payloads Impl.Message Impl.Security.
Local Open Scope N_scope.

Section Ike.
  Variable digest : halg -> bytes -> bytes.
  Variable aes_enc aes_dec : bytes -> bytes -> bytes.
  Notation ikesa := (ikesa).

  (* calculateIntegrity: Reset, Write, Sum(nil)[:outputLen] on the role's object *)
  Definition calculate_integrity (sa : ikesa) (role : bool) (data : bytes) : res bytes * ikesa :=
    let o := if role then sa_integ_i sa else sa_integ_r sa in
    let o1 := ho_write (ho_reset o) data in
    let sum := ho_sum digest o1 [] in
    let sa' := if role then set_integ_i sa o1 else set_integ_r sa o1 in
    (upto sum (integ_outlen (sa_integ sa)), sa').

  (* one cipher call seen by a spy installed in Encr_i / Encr_r *)
  Inductive cipher_call := CEnc (initiator_key : bool) | CDec (initiator_key : bool).

  (* encryptMsg followed by ikeMsg.Encode: returns the octets and the message as left behind *)
  Definition encrypt_msg (sa : ikesa) (role : bool) (m : msg) (s : rnd) : res msg * ikesa * rnd :=
    let icv := integ_outlen (sa_integ sa) in
    match container_encode (m_payloads m) with
    | Ok plain =>
      let key := if role then sa_encr_i sa else sa_encr_r sa in
      match aes_encrypt aes_enc key plain s with
      | (Ok ct, s1) =>
        let nxt := first_type (m_payloads m) in
        let m1 := mkMsg (m_hdr m) [PSK nxt (ct ++ zeros icv)] in
        match encode m1 with
        | Ok data =>
          match upto data (length data - icv) with
          | Ok covered =>
            match calculate_integrity sa role covered with
            | (Ok cs, sa') => (Ok (mkMsg (set_next (m_hdr m) 46) [PSK nxt (ct ++ cs)]), sa', s1)
            | (Err, sa') => (Err, sa', s1) | (Fault, sa') => (Fault, sa', s1) | (OutOfFuel, sa') => (OutOfFuel, sa', s1)
            end
          | Err => (Err, sa, s1) | Fault => (Fault, sa, s1) | OutOfFuel => (OutOfFuel, sa, s1)
          end
        | Err => (Err, sa, s1) | Fault => (Fault, sa, s1) | OutOfFuel => (OutOfFuel, sa, s1)
        end
      | (_, s1) => (Err, sa, s1)
      end
    | Err => (Err, sa, s) | Fault => (Fault, sa, s) | OutOfFuel => (OutOfFuel, sa, s)
    end.

  (* EncodeEncrypt(ikeMsg, ikesaKey, role) *)
  Definition encode_encrypt (m : msg) (sa : option ikesa) (role : bool) (s : rnd)
    : res bytes * option ikesa * rnd :=
    match sa with
    | None => (encode m, None, s)
    | Some k =>
      match encrypt_msg k role m s with
      | (Ok m', k', s') => (encode m', Some k', s')
      | (Err, k', s') => (Err, Some k', s')
      | (Fault, k', s') => (Fault, Some k', s')
      | (OutOfFuel, k', s') => (OutOfFuel, Some k', s')
      end
    end.

  (* the last SK payload of the list; any other payload type is an error *)
  Fixpoint last_sk (l : list payload) (acc : option (N * bytes)) : res (option (N * bytes)) :=
    match l with
    | [] => Ok acc
    | PSK nxt d :: r => last_sk r (Some (nxt, d))
    | _ :: _ => Err
    end.

  (* decryptMsg: returns the outcome, the SA state and the cipher calls made *)
  Definition decrypt_msg (raw : bytes) (m : msg) (sa : ikesa) (role : bool)
    : res msg * ikesa * list cipher_call :=
    match last_sk (m_payloads m) None with
    | Ok (Some (nxt, ed)) =>
      let icv := integ_outlen (sa_integ sa) in
      if (length ed <? icv)%nat then (Err, sa, []) else
      match from ed (length ed - icv), (if (length raw <? icv)%nat then Fault else upto raw (length raw - icv)) with
      | Ok checksum, Ok covered =>
        match calculate_integrity sa (negb role) covered with
        | (Ok expect, sa') =>
          if negb (if list_eq_dec Byte.byte_eq_dec checksum expect then true else false) then (Err, sa', []) else
          match upto ed (length ed - icv) with
          | Ok body =>
            let key := if role then sa_encr_r sa else sa_encr_i sa in
            let call := [CDec (negb role)] in
            match aes_decrypt aes_dec key body with
            | Ok plain =>
              match decode_payloads nxt plain with
              | Ok ps => (Ok (mkMsg (m_hdr m) ps), sa', call)
              | Err => (Err, sa', call) | Fault => (Fault, sa', call) | OutOfFuel => (OutOfFuel, sa', call)
              end
            | Err => (Err, sa', call) | Fault => (Fault, sa', call) | OutOfFuel => (OutOfFuel, sa', call)
            end
          | Err => (Err, sa', []) | Fault => (Fault, sa', []) | OutOfFuel => (OutOfFuel, sa', [])
          end
        | (Err, sa') => (Err, sa', []) | (Fault, sa') => (Fault, sa', []) | (OutOfFuel, sa') => (OutOfFuel, sa', [])
        end
      | Fault, _ | _, Fault => (Fault, sa, [])
      | _, _ => (Err, sa, [])
      end
    | Ok None => (Fault, sa, [])        (* nil encryptedPayload dereference; unreachable from DecodeDecrypt *)
    | Err => (Err, sa, [])
    | Fault => (Fault, sa, []) | OutOfFuel => (OutOfFuel, sa, [])
    end.

  Definition first_is_sk (l : list payload) : bool :=
    match l with PSK _ _ :: _ => true | _ => false end.

  (* DecodeDecrypt(msg, ikeHeader, ikesaKey, role) *)
  Definition decode_decrypt (raw : bytes) (hdr : option header) (sa : option ikesa) (role : bool)
    : res msg * option ikesa * list cipher_call :=
    let parsed :=
      match hdr with
      | None => decode raw
      | Some h =>
        if (length raw <? 28)%nat then Err else
        let* pb := from raw 28 in
        let* ps := decode_payloads (h_next h) pb in
        Ok (mkMsg h ps)
      end in
    match parsed with
    | Ok m =>
      if (length (m_payloads m) =? 0)%nat then
        if h_next (m_hdr m) =? 46 then (Err, sa, []) else (Ok m, sa, [])
      else
      if first_is_sk (m_payloads m) then
        match sa with
        | None => (Err, None, [])
        | Some k => match decrypt_msg raw m k role with (r, k', calls) => (r, Some k', calls) end
        end
      else (Ok m, sa, [])
    | Err => (Err, sa, []) | Fault => (Fault, sa, []) | OutOfFuel => (OutOfFuel, sa, [])
    end.
End Ike.
