(* Model of message/header.go and message/message.go: IKEHeader.Marshal / ParseHeader,
   IKEPayloadContainer.Encode / Decode, IKEMessage.Encode / Decode / DecodePayload. *)
From IKE Require Import Lib.Base Impl.Msg Impl.Eap Impl.Payloads.
Local Open Scope N_scope.

(* ---------- payload chain ---------- *)
Definition next_of (p : payload) (rest : list payload) : N :=
  match rest with
  | q :: _ => ptype q
  | [] => match p with PSK nxt _ => nxt | _ => 0 end
  end.

Fixpoint container_encode (l : list payload) : res bytes :=
  match l with
  | [] => Ok []
  | p :: r =>
    let* d := payload_marshal p in
    let n := 4 + len d in
    if 65535 <? n then Err else
    let* rd := container_encode r in
    Ok ([n2b (next_of p r); x00] ++ be16 n ++ d ++ rd)
  end.

Fixpoint container_decode (fuel : nat) (nxt : N) (b : bytes) : res (list payload) :=
  match fuel with
  | O => OutOfFuel
  | S f =>
    if (length b =? 0)%nat then Ok [] else
    if (length b <? 4)%nat then Err else
    let* pl := u16at b 2 in
    if pl <? 4 then Err else
    if (length b <? nat_of pl)%nat then Err else
    let* b1 := idx b 1 in
    let critical := b1 / 128 in
    let* b0 := idx b 0 in
    if supported nxt then
      let* body := sub b 4 (nat_of pl) in
      let* p := payload_unmarshal nxt b0 body in
      (* RFC 7296 3.14: nothing may follow an Encrypted payload *)
      if (nxt =? 46) && (nat_of pl <? length b)%nat then Err else
      let* rest := from b (nat_of pl) in
      let* ps := container_decode f b0 rest in
      Ok (p :: ps)
    else if critical =? 0 then
      let* rest := from b (nat_of pl) in
      container_decode f b0 rest
    else Err
  end.

Definition decode_payloads (nxt : N) (b : bytes) : res (list payload) :=
  container_decode (S (length b)) nxt b.

(* ---------- header ---------- *)
Definition version_octet (major minor : N) : N := N.lor ((major * 16) mod 256) (minor mod 16).

Definition header_marshal (h : header) (payload_bytes : bytes) : res bytes :=
  let total := 28 + len payload_bytes in
  if 4294967295 <? total then Err else
  Ok (be64 (h_ispi h) ++ be64 (h_rspi h)
      ++ [n2b (h_next h); n2b (version_octet (h_major h) (h_minor h)); n2b (h_exch h); n2b (h_flags h)]
      ++ be32 (h_mid h) ++ be32 total ++ payload_bytes).

(* ParseHeader: the header fields and PayloadBytes = b[28:] *)
Definition parse_header (b : bytes) : res (header * bytes) :=
  if (length b <? 28)%nat then Err else
  let* total := u32at b 24 in
  if total <? 28 then Err else
  let* ispi := u64at b 0 in
  let* rspi := u64at b 8 in
  let* nxt := idx b 16 in
  let* ver := idx b 17 in
  let* exch := idx b 18 in
  let* flags := idx b 19 in
  let* mid := u32at b 20 in
  let* pb := from b 28 in
  Ok (mkHeader ispi rspi (ver / 16) (ver mod 16) exch flags mid nxt, pb).

(* ---------- message ---------- *)
Definition set_next (h : header) (n : N) : header :=
  mkHeader (h_ispi h) (h_rspi h) (h_major h) (h_minor h) (h_exch h) (h_flags h) (h_mid h) n.

Definition first_type (l : list payload) : N := match l with p :: _ => ptype p | [] => 0 end.

(* IKEMessage.Encode: returns the octets; the message's header bookkeeping (NextPayload,
   PayloadBytes) is updated, the payload list is not touched *)
Definition encode (m : msg) : res bytes :=
  let h := set_next (m_hdr m) (first_type (m_payloads m)) in
  let* pb := container_encode (m_payloads m) in
  header_marshal h pb.

Definition decode (b : bytes) : res msg :=
  let* '(h, pb) := parse_header b in
  let* ps := decode_payloads (h_next h) pb in
  Ok (mkMsg h ps).
