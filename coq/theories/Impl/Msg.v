(* Message values: the exported fields of the Go structs of message/ and eap/.
   Numeric fields are N; their Go widths are the `typed_*` predicates of Thm/Domain.v. *)
From IKE Require Import Lib.Base.

Record transform := mkTransform {
  t_type : N;          (* TransformType  uint8  *)
  t_id : N;            (* TransformID    uint16 *)
  t_present : bool;    (* AttributePresent *)
  t_format : N;        (* AttributeFormat uint8: 0 = TLV, otherwise TV *)
  t_atype : N;         (* AttributeType  uint16 *)
  t_aval : N;          (* AttributeValue uint16 *)
  t_var : bytes        (* VariableLengthAttributeValue *)
}.

Record proposal := mkProposal {
  p_num : N; p_proto : N; p_spi : bytes;
  p_encr : list transform; p_prf : list transform; p_integ : list transform;
  p_dh : list transform; p_esn : list transform
}.

Record selector := mkSelector {
  ts_type : N; ts_proto : N; ts_sport : N; ts_eport : N; ts_saddr : bytes; ts_eaddr : bytes
}.

Record cpattr := mkCpAttr { ca_type : N; ca_value : bytes }.

(* EapAkaPrimeAttr: attrType, length (in words), reserved, value *)
Record akattr := mkAkAttr { at_type : N; at_len : N; at_res : N; at_val : bytes }.

Inductive eapdata :=
| EDNone                                              (* EapTypeData == nil *)
| EDIdentity (d : bytes)
| EDNotification (d : bytes)
| EDNak (d : bytes)
| EDExpanded (vid vtype : N) (d : bytes)
| EDAka (subtype reserved : N) (attrs : list akattr). (* the attribute map, in any order, keys unique *)

Record eap := mkEap { e_code : N; e_id : N; e_data : eapdata }.

Inductive payload :=
| PSA (props : list proposal)
| PKE (group : N) (d : bytes)
| PIDi (idtype : N) (d : bytes)
| PIDr (idtype : N) (d : bytes)
| PCERT (enc : N) (d : bytes)
| PCERTREQ (enc : N) (d : bytes)
| PAUTH (meth : N) (d : bytes)
| PNonce (d : bytes)
| PNotify (proto : N) (ntype : N) (spi : bytes) (d : bytes)
| PDelete (proto spisize num : N) (spis : list N)
| PVendor (d : bytes)
| PTSi (sels : list selector)
| PTSr (sels : list selector)
| PSK (next : N) (d : bytes)
| PCP (cfgtype : N) (attrs : list cpattr)
| PEAP (e : eap).

Definition ptype (p : payload) : N :=
  match p with
  | PSA _ => 33 | PKE _ _ => 34 | PIDi _ _ => 35 | PIDr _ _ => 36 | PCERT _ _ => 37
  | PCERTREQ _ _ => 38 | PAUTH _ _ => 39 | PNonce _ => 40 | PNotify _ _ _ _ => 41
  | PDelete _ _ _ _ => 42 | PVendor _ => 43 | PTSi _ => 44 | PTSr _ => 45 | PSK _ _ => 46
  | PCP _ _ => 47 | PEAP _ => 48
  end%N.

(* IKEHeader without PayloadBytes *)
Record header := mkHeader {
  h_ispi : N; h_rspi : N; h_major : N; h_minor : N; h_exch : N; h_flags : N; h_mid : N; h_next : N
}.

Record msg := mkMsg { m_hdr : header; m_payloads : list payload }.
