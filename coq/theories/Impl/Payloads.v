(* Model of the payload bodies of message/payload_*.go: Marshal / Unmarshal pairs. *)
From IKE Require Import Lib.Base Impl.Msg Impl.Eap.
Local Open Scope N_scope.

(* ---------- Security Association ---------- *)
Definition fmt_type (t : transform) : N := N.lor ((t_format t mod 2) * 32768) (t_atype t).

Definition enc_attr (t : transform) : res bytes :=
  if negb (t_present t) then Ok [] else
  if t_format t =? 0 then
    if (length (t_var t) =? 0)%nat then Err else
    if 65535 <? len (t_var t) then Err else
    Ok (be16 (fmt_type t) ++ be16 (len (t_var t)) ++ t_var t)
  else Ok (be16 (fmt_type t) ++ be16 (t_aval t)).

Definition enc_transform (t : transform) (more : bool) : res bytes :=
  let* a := enc_attr t in
  let n := 8 + len a in
  if 65535 <? n then Err else
  Ok ([if more then x03 else x00; x00] ++ be16 n ++ [n2b (t_type t); x00] ++ be16 (t_id t) ++ a).

Fixpoint enc_transforms (l : list transform) : res bytes :=
  match l with
  | [] => Ok []
  | t :: r =>
    let* td := enc_transform t (match r with [] => false | _ => true end) in
    let* rd := enc_transforms r in
    Ok (td ++ rd)
  end.

Definition all_transforms (p : proposal) : list transform :=
  p_encr p ++ p_prf p ++ p_integ p ++ p_dh p ++ p_esn p.

Definition enc_proposal (p : proposal) (more : bool) : res bytes :=
  if 255 <? len (p_spi p) then Err else
  let tl := all_transforms p in
  if (length tl =? 0)%nat then Err else
  if 255 <? len tl then Err else
  let* td := enc_transforms tl in
  let n := 8 + len (p_spi p) + len td in
  if 65535 <? n then Err else
  Ok ([if more then x02 else x00; x00] ++ be16 n
      ++ [n2b (p_num p); n2b (p_proto p); n2b (len (p_spi p)); n2b (len tl)]
      ++ p_spi p ++ td).

Fixpoint enc_proposals (l : list proposal) : res bytes :=
  match l with
  | [] => Ok []
  | p :: r =>
    let* pd := enc_proposal p (match r with [] => false | _ => true end) in
    let* rd := enc_proposals r in
    Ok (pd ++ rd)
  end.

Definition dec_transform (td : bytes) (tl : N) : res transform :=
  let* ty := idx td 4 in
  let* id := u16at td 6 in
  if 8 <? tl then
    if tl <? 12 then Err else
    let* b8 := idx td 8 in
    let fmt := b8 / 128 in
    let* ft := u16at td 8 in
    let atype := ft mod 32768 in
    if fmt =? 0 then
      let* al := u16at td 10 in
      if negb ((12 + al) mod 65536 =? tl) then Err else
      let* v := sub td 12 (nat_of ((12 + al) mod 65536)) in
      Ok (mkTransform ty id true fmt atype 0 v)
    else
      let* av := u16at td 10 in
      Ok (mkTransform ty id true fmt atype av [])
  else Ok (mkTransform ty id false 0 0 0 []).

(* the transforms of one proposal, in wire order *)
Fixpoint dec_transforms (fuel : nat) (td : bytes) : res (list transform) :=
  match fuel with
  | O => OutOfFuel
  | S f =>
    if (length td =? 0)%nat then Ok [] else
    if (length td <? 8)%nat then Err else
    let* tl := u16at td 2 in
    if tl <? 8 then Err else
    if (length td <? nat_of tl)%nat then Err else
    let* t := dec_transform td tl in
    let* rest := from td (nat_of tl) in
    let* ts := dec_transforms f rest in
    Ok (t :: ts)
  end.

Definition of_type (ty : N) (l : list transform) : list transform :=
  filter (fun t => t_type t =? ty) l.

Fixpoint dec_proposals (fuel : nat) (b : bytes) : res (list proposal) :=
  match fuel with
  | O => OutOfFuel
  | S f =>
    if (length b =? 0)%nat then Ok [] else
    if (length b <? 8)%nat then Err else
    let* pl := u16at b 2 in
    if pl <? 8 then Err else
    if (length b <? nat_of pl)%nat then Err else
    let* num := idx b 4 in
    let* proto := idx b 5 in
    let* spisz := idx b 6 in
    let* spi :=
      (if 0 <? spisz then
         if (length b <? 8 + nat_of spisz)%nat then Err else sub b 8 (8 + nat_of spisz)
       else Ok []) in
    if pl <? 8 + spisz then Err else
    let* td := sub b (8 + nat_of spisz) (nat_of pl) in
    let* ts := dec_transforms (S (length td)) td in
    let p := mkProposal num proto spi (of_type 1 ts) (of_type 2 ts) (of_type 3 ts) (of_type 4 ts) (of_type 5 ts) in
    let* rest := from b (nat_of pl) in
    let* ps := dec_proposals f rest in
    Ok (p :: ps)
  end.

Definition sa_unmarshal (b : bytes) : res (list proposal) := dec_proposals (S (length b)) b.

(* ---------- fixed-header + data payloads ---------- *)
(* KE: group(2) reserved(2) data *)
Definition ke_marshal (g : N) (d : bytes) : bytes := be16 g ++ [x00; x00] ++ d.
Definition ke_unmarshal (b : bytes) : res payload :=
  if (length b =? 0)%nat then Err else
  if (length b <=? 4)%nat then Err else
  let* g := u16at b 0 in let* d := from b 4 in Ok (PKE g d).

(* IDi / IDr / AUTH: type(1) reserved(3) data *)
Definition t3_marshal (t : N) (d : bytes) : bytes := [n2b t; x00; x00; x00] ++ d.
Definition t3_unmarshal (b : bytes) : res (N * bytes) :=
  if (length b =? 0)%nat then Err else
  if (length b <=? 4)%nat then Err else
  let* t := idx b 0 in let* d := from b 4 in Ok (t, d).

(* CERT / CERTREQ: encoding(1) data *)
Definition t0_marshal (t : N) (d : bytes) : bytes := n2b t :: d.
Definition t0_unmarshal (b : bytes) : res (N * bytes) :=
  if (length b =? 0)%nat then Err else
  if (length b <=? 1)%nat then Err else
  let* t := idx b 0 in let* d := from b 1 in Ok (t, d).

(* ---------- Notify ---------- *)
Definition notify_marshal (proto ntype : N) (spi d : bytes) : res bytes :=
  if 255 <? len spi then Err else
  Ok ([n2b proto; n2b (len spi)] ++ be16 ntype ++ spi ++ d).

Definition notify_unmarshal (b : bytes) : res payload :=
  if (length b =? 0)%nat then Ok (PNotify 0 0 [] []) else
  if (length b <? 4)%nat then Err else
  let* spisz := idx b 1 in
  if (length b <? 4 + nat_of spisz)%nat then Err else
  let* proto := idx b 0 in
  let* nt := u16at b 2 in
  let* spi := sub b 4 (4 + nat_of spisz) in
  let* d := from b (4 + nat_of spisz) in
  Ok (PNotify proto nt spi d).

(* ---------- Delete ---------- *)
Definition delete_marshal (proto spisize num : N) (spis : list N) : res bytes :=
  if negb (len spis =? num) then Err else
  let hdr := [n2b proto; n2b spisize] ++ be16 num in
  if 0 <? num then
    if spisize <? 4 then Fault      (* PutUint32 into a slice shorter than 4: panic *)
    else Ok (hdr ++ concat (map (fun v => be32 v ++ zeros (nat_of spisize - 4)) spis))
  else Ok hdr.

Fixpoint words32 (fuel : nat) (b : bytes) : res (list N) :=
  match fuel with
  | O => OutOfFuel
  | S f =>
    if (length b =? 0)%nat then Ok [] else
    let* w := u32at b 0 in
    let* rest := from b 4 in
    let* ws := words32 f rest in
    Ok (w :: ws)
  end.

Definition delete_unmarshal (b : bytes) : res payload :=
  if (length b =? 0)%nat then Ok (PDelete 0 0 0 []) else
  if (length b <=? 3)%nat then Err else
  let* spisz := idx b 1 in
  let* num := u16at b 2 in
  if len b <? 4 + spisz * num then Err else
  let* proto := idx b 0 in
  let* body := from b 4 in
  if negb ((length body mod 4 =? 0)%nat) then Err else
  let* spis := words32 (S (length body)) body in
  Ok (PDelete proto spisz num spis).

(* ---------- Traffic selectors ---------- *)
Definition enc_selector (s : selector) : res bytes :=
  if ts_type s =? 7 then
    if negb (length (ts_saddr s) =? 4)%nat then Err else
    if negb (length (ts_eaddr s) =? 4)%nat then Err else
    Ok ([n2b (ts_type s); n2b (ts_proto s)] ++ be16 16 ++ be16 (ts_sport s) ++ be16 (ts_eport s)
        ++ ts_saddr s ++ ts_eaddr s)
  else if ts_type s =? 8 then
    if negb (length (ts_saddr s) =? 16)%nat then Err else
    if negb (length (ts_eaddr s) =? 16)%nat then Err else
    Ok ([n2b (ts_type s); n2b (ts_proto s)] ++ be16 40 ++ be16 (ts_sport s) ++ be16 (ts_eport s)
        ++ ts_saddr s ++ ts_eaddr s)
  else Err.

Fixpoint enc_selectors (l : list selector) : res bytes :=
  match l with
  | [] => Ok []
  | s :: r => let* sd := enc_selector s in let* rd := enc_selectors r in Ok (sd ++ rd)
  end.

Definition ts_marshal (sels : list selector) : res bytes :=
  if (length sels =? 0)%nat then Err else
  if 255 <? len sels then Err else
  let* sd := enc_selectors sels in
  Ok ([n2b (len sels); x00; x00; x00] ++ sd).

Fixpoint dec_selectors (n : nat) (b : bytes) : res (list selector) :=
  match n with
  | O => Ok []
  | S m =>
    if (length b <? 4)%nat then Err else
    let* ty := idx b 0 in
    let alen := if ty =? 7 then 4%nat else 16%nat in
    let slen := if ty =? 7 then 16%nat else 40%nat in
    if negb ((ty =? 7) || (ty =? 8)) then Err else
    let* sl := u16at b 2 in
    if negb (sl =? N.of_nat slen) then Err else
    if (length b <? slen)%nat then Err else
    let* proto := idx b 1 in
    let* sp := u16at b 4 in
    let* ep := u16at b 6 in
    let* sa := sub b 8 (8 + alen) in
    let* ea := sub b (8 + alen) (8 + alen + alen) in
    let* rest := from b slen in
    let* ss := dec_selectors m rest in
    Ok (mkSelector ty proto sp ep sa ea :: ss)
  end.

Definition ts_unmarshal (b : bytes) : res (list selector) :=
  if (length b =? 0)%nat then Ok [] else
  if (length b <? 4)%nat then Err else
  let* n := idx b 0 in
  let* rest := from b 4 in
  dec_selectors (nat_of n) rest.

(* ---------- Configuration ---------- *)
Fixpoint enc_cpattrs (l : list cpattr) : res bytes :=
  match l with
  | [] => Ok []
  | a :: r =>
    if 65535 <? len (ca_value a) then Err else
    let* rd := enc_cpattrs r in
    Ok (be16 (ca_type a mod 32768) ++ be16 (len (ca_value a)) ++ ca_value a ++ rd)
  end.

Definition cp_marshal (cfgtype : N) (attrs : list cpattr) : res bytes :=
  let* ad := enc_cpattrs attrs in Ok ([n2b cfgtype; x00; x00; x00] ++ ad).

Fixpoint dec_cpattrs (fuel : nat) (b : bytes) : res (list cpattr) :=
  match fuel with
  | O => OutOfFuel
  | S f =>
    if (length b =? 0)%nat then Ok [] else
    if (length b <? 4)%nat then Err else
    let* l := u16at b 2 in
    if (length b <? 4 + nat_of l)%nat then Err else
    let* ty := u16at b 0 in
    let* b4 := from b 4 in
    let* v := upto b4 (nat_of l) in
    let* rest := from b4 (nat_of l) in
    let* as' := dec_cpattrs f rest in
    Ok (mkCpAttr (ty mod 32768) v :: as')
  end.

Definition cp_unmarshal (b : bytes) : res payload :=
  if (length b =? 0)%nat then Err else
  if (length b <=? 4)%nat then Err else
  let* ct := idx b 0 in
  let* ad := from b 4 in
  let* attrs := dec_cpattrs (S (length ad)) ad in
  Ok (PCP ct attrs).

(* ---------- Marshal / Unmarshal dispatch ---------- *)
Definition payload_marshal (p : payload) : res bytes :=
  match p with
  | PSA props => enc_proposals props
  | PKE g d => Ok (ke_marshal g d)
  | PIDi t d | PIDr t d | PAUTH t d => Ok (t3_marshal t d)
  | PCERT t d | PCERTREQ t d => Ok (t0_marshal t d)
  | PNonce d => Ok d
  | PNotify proto nt spi d => notify_marshal proto nt spi d
  | PDelete proto sz num spis => delete_marshal proto sz num spis
  | PVendor d => Ok d
  | PTSi sels | PTSr sels => ts_marshal sels
  | PSK _ d => if (length d =? 0)%nat then Err else Ok d
  | PCP ct attrs => cp_marshal ct attrs
  | PEAP e => eap_marshal e
  end.

(* ty: the payload type that selected the decoder; nxt: octet 0 of the generic header (kept by SK) *)
Definition payload_unmarshal (ty nxt : N) (body : bytes) : res payload :=
  if ty =? 33 then res_map PSA (sa_unmarshal body)
  else if ty =? 34 then ke_unmarshal body
  else if ty =? 35 then let* '(t, d) := t3_unmarshal body in Ok (PIDi t d)
  else if ty =? 36 then let* '(t, d) := t3_unmarshal body in Ok (PIDr t d)
  else if ty =? 37 then let* '(t, d) := t0_unmarshal body in Ok (PCERT t d)
  else if ty =? 38 then let* '(t, d) := t0_unmarshal body in Ok (PCERTREQ t d)
  else if ty =? 39 then let* '(t, d) := t3_unmarshal body in Ok (PAUTH t d)
  else if ty =? 40 then Ok (PNonce body)
  else if ty =? 41 then notify_unmarshal body
  else if ty =? 42 then delete_unmarshal body
  else if ty =? 43 then Ok (PVendor body)
  else if ty =? 44 then res_map PTSi (ts_unmarshal body)
  else if ty =? 45 then res_map PTSr (ts_unmarshal body)
  else if ty =? 46 then Ok (PSK nxt body)
  else if ty =? 47 then cp_unmarshal body
  else if ty =? 48 then res_map PEAP (eap_unmarshal body)
  else Err.

Definition supported (ty : N) : bool := (33 <=? ty) && (ty <=? 48).
