(* Model of the algorithm registries and the algorithm <-> transform mapping:
   security/encr, integ, prf, dh, esn (DecodeTransform / ToTransform / StrToType) and
   IKESAKey.ToProposal, ChildSAKey.ToProposal, the proposal-reading part of NewIKESAKey and
   NewChildSAKeyByProposal (security/security.go). *)
From IKE Require Import Lib.Base Impl.Msg Impl.Security Impl.Dh.
Local Open Scope N_scope.

Definition no_attr_transform (ty id : N) : transform := mkTransform ty id false 0 0 0 [].

(* ---- encr ---- *)
Definition encr_to_transform (e : encr_alg) : transform :=
  mkTransform 1 12 true 1 14 (N.of_nat (encr_keylen e) * 8) [].
Definition encr_decode (t : transform) : option encr_alg :=
  if t_id t =? 12 then
    if t_atype t =? 14 then
      if t_aval t =? 128 then Some AES_CBC_128
      else if t_aval t =? 192 then Some AES_CBC_192
      else if t_aval t =? 256 then Some AES_CBC_256
      else None
    else None
  else None.

(* ---- integ ---- *)
Definition integ_id (i : integ_alg) : N :=
  match i with AUTH_HMAC_MD5_96 => 1 | AUTH_HMAC_SHA1_96 => 2 | AUTH_HMAC_SHA2_256_128 => 12 end.
Definition integ_to_transform (i : integ_alg) : transform := no_attr_transform 3 (integ_id i).
Definition integ_decode (t : transform) : option integ_alg :=
  if t_id t =? 1 then Some AUTH_HMAC_MD5_96
  else if t_id t =? 2 then Some AUTH_HMAC_SHA1_96
  else if t_id t =? 12 then Some AUTH_HMAC_SHA2_256_128
  else None.

(* ---- prf ---- *)
Definition prf_id (p : prf_alg) : N :=
  match p with PRF_HMAC_MD5 => 1 | PRF_HMAC_SHA1 => 2 | PRF_HMAC_SHA2_256 => 5 end.
Definition prf_to_transform (p : prf_alg) : transform := no_attr_transform 2 (prf_id p).
Definition prf_decode (t : transform) : option prf_alg :=
  if t_id t =? 1 then Some PRF_HMAC_MD5
  else if t_id t =? 2 then Some PRF_HMAC_SHA1
  else if t_id t =? 5 then Some PRF_HMAC_SHA2_256
  else None.

(* ---- dh ---- *)
Definition dh_id (g : dh_alg) : N := match g with DH_1024_BIT_MODP => 2 | DH_2048_BIT_MODP => 14 end.
Definition dh_to_transform (g : dh_alg) : transform := no_attr_transform 4 (dh_id g).
Definition dh_decode (t : transform) : option dh_alg :=
  if t_id t =? 2 then Some DH_1024_BIT_MODP
  else if t_id t =? 14 then Some DH_2048_BIT_MODP
  else None.

(* ---- esn ---- *)
Definition esn_to_transform (need : bool) : transform := no_attr_transform 5 (if need then 1 else 0).
Definition esn_decode (t : transform) : option bool :=
  if t_id t =? 0 then Some false else if t_id t =? 1 then Some true else None.

(* ---- proposals ---- *)
Record ike_algs := mkIkeAlgs { ia_dh : dh_alg; ia_encr : encr_alg; ia_integ : integ_alg; ia_prf : prf_alg }.

(* IKESAKey.ToProposal *)
Definition ike_to_proposal (a : ike_algs) : proposal :=
  mkProposal 0 1 [] [encr_to_transform (ia_encr a)] [prf_to_transform (ia_prf a)]
             [integ_to_transform (ia_integ a)] [dh_to_transform (ia_dh a)] [].

(* the algorithm selection of NewIKESAKey *)
Definition ike_of_proposal (p : proposal) : res ike_algs :=
  match p_dh p, p_encr p, p_integ p, p_prf p with
  | d :: _, e :: _, i :: _, f :: _ =>
    match dh_decode d with
    | None => Err
    | Some d' =>
      match encr_decode e with
      | None => Err
      | Some e' =>
        (* the integrity nil-check of NewIKESAKey tests EncrInfo again; GenerateKeyForIKESA refuses a nil IntegInfo *)
        match integ_decode i, prf_decode f with
        | Some i', Some f' => Ok (mkIkeAlgs d' e' i' f')
        | _, _ => Err
        end
      end
    end
  | _, _, _, _ => Err
  end.

Record child_algs := mkChildAlgs { ca_dh : option dh_alg; ca_encr : encr_alg; ca_integ : option integ_alg; ca_esn : bool }.

(* ChildSAKey.ToProposal *)
Definition child_to_proposal (a : child_algs) : proposal :=
  mkProposal 0 3 []
    [encr_to_transform (ca_encr a)] []
    (match ca_integ a with Some i => [integ_to_transform i] | None => [] end)
    (match ca_dh a with Some d => [dh_to_transform d] | None => [] end)
    [esn_to_transform (ca_esn a)].

(* NewChildSAKeyByProposal *)
Definition child_of_proposal (p : proposal) : res child_algs :=
  match p_encr p, p_integ p, p_esn p with
  | e :: _, i :: irest, s :: _ =>
    let* d := match p_dh p with
              | [d] => match dh_decode d with Some d' => Ok (Some d') | None => Err end
              | _ => Ok None
              end in
    match encr_decode e with
    | None => Err
    | Some e' =>
      let* i' := match irest with
                 | [] => match integ_decode i with Some x => Ok (Some x) | None => Err end
                 | _ => Ok None
                 end in
      match esn_decode s with
      | None => Err
      | Some s' => Ok (mkChildAlgs d e' i' s')
      end
    end
  | _, _, _ => Err
  end.
