(* Model of security/: algorithm descriptors (encr, integ, prf), lib.PKCS7Padding, lib.PrfPlus,
   EncrAesCbcCrypto.Encrypt / Decrypt, IKESAKey.GenerateKeyForIKESA, ChildSAKey.GenerateKeyForChildSA. *)
From IKE Require Import Lib.Base Prim.Hmac Prim.Cbc.
Local Open Scope N_scope.

Inductive halg := MD5 | SHA1 | SHA256.
Definition hlen (a : halg) : nat := match a with MD5 => 16 | SHA1 => 20 | SHA256 => 32 end%nat.

Inductive prf_alg := PRF_HMAC_MD5 | PRF_HMAC_SHA1 | PRF_HMAC_SHA2_256.
Inductive integ_alg := AUTH_HMAC_MD5_96 | AUTH_HMAC_SHA1_96 | AUTH_HMAC_SHA2_256_128.
Inductive encr_alg := AES_CBC_128 | AES_CBC_192 | AES_CBC_256.

Definition prf_hash (p : prf_alg) : halg :=
  match p with PRF_HMAC_MD5 => MD5 | PRF_HMAC_SHA1 => SHA1 | PRF_HMAC_SHA2_256 => SHA256 end.
Definition prf_keylen (p : prf_alg) : nat := hlen (prf_hash p).      (* keyLength = outputLength *)
Definition integ_hash (i : integ_alg) : halg :=
  match i with AUTH_HMAC_MD5_96 => MD5 | AUTH_HMAC_SHA1_96 => SHA1 | AUTH_HMAC_SHA2_256_128 => SHA256 end.
Definition integ_keylen (i : integ_alg) : nat := hlen (integ_hash i).
Definition integ_outlen (i : integ_alg) : nat :=
  match i with AUTH_HMAC_MD5_96 => 12 | AUTH_HMAC_SHA1_96 => 12 | AUTH_HMAC_SHA2_256_128 => 16 end%nat.
Definition encr_keylen (e : encr_alg) : nat :=
  match e with AES_CBC_128 => 16 | AES_CBC_192 => 24 | AES_CBC_256 => 32 end%nat.

(* the random source: crypto/rand.Reader as a script; None = the read covering this position fails *)
Definition rnd := list (option byte).

(* io.ReadFull(rand.Reader, n octets): all n present -> the octets; a failing position -> error,
   the script is consumed through the failure *)
Fixpoint draw (n : nat) (s : rnd) : res bytes * rnd :=
  match n with
  | O => (Ok [], s)
  | S m =>
    match s with
    | [] => (Err, [])
    | None :: r => (Err, r)
    | Some b :: r =>
      match draw m r with
      | (Ok l, r') => (Ok (b :: l), r')
      | (e, r') => (e, r')
      end
    end
  end.

Section Crypto.
  Variable digest : halg -> bytes -> bytes.
  Variable aes_enc aes_dec : bytes -> bytes -> bytes.     (* key -> block -> block *)

  (* ---------- stateful hash.Hash (crypto/hmac) ---------- *)
  Record hobj := mkHobj { h_alg : halg; h_key : bytes; h_buf : bytes }.
  Definition hm (a : halg) (k m : bytes) : bytes := hmac (digest a) 64 k m.
  Definition ho_new (a : halg) (k : bytes) : hobj := mkHobj a k [].
  Definition ho_reset (o : hobj) : hobj := mkHobj (h_alg o) (h_key o) [].
  Definition ho_write (o : hobj) (d : bytes) : hobj := mkHobj (h_alg o) (h_key o) (h_buf o ++ d).
  Definition ho_sum (o : hobj) (p : bytes) : bytes := p ++ hm (h_alg o) (h_key o) (h_buf o).
  Definition ho_size (o : hobj) : nat := hlen (h_alg o).

  (* ---------- lib.PrfPlus on a shared, stateful object ---------- *)
  Fixpoint prf_plus_loop (fuel : nat) (o : hobj) (s : bytes) (slen : nat) (i : nat) (stream block : bytes)
    : res bytes * hobj :=
    if (slen <=? length stream)%nat then (upto stream slen, o) else
    match fuel with
    | O => (OutOfFuel, o)
    | S f =>
      let o1 := ho_write (ho_reset o) (block ++ s ++ [n2b (N.of_nat i)]) in
      let stream' := ho_sum o1 stream in
      let block' := skipn (length stream' - ho_size o1) stream' in
      prf_plus_loop f o1 s slen (S i) stream' block'
    end.
  Definition prf_plus_obj (o : hobj) (s : bytes) (slen : nat) : res bytes * hobj :=
    prf_plus_loop slen o s slen 1 [] [].

  (* ---------- lib.PKCS7Padding + EncrAesCbcCrypto ---------- *)
  (* objects returned by NewCrypto: Iv and Padding are nil *)
  Definition pkcs7_padding (plain : bytes) (s : rnd) : res bytes * rnd :=
    let padding := (16 - length plain mod 16)%nat in
    match draw padding s with
    | (Ok p, s') => (Ok (plain ++ firstn (padding - 1) p ++ [n2b (N.of_nat (padding - 1))]), s')
    | (e, s') => (Err, s')
    end.

  Definition aes_encrypt (key plain : bytes) (s : rnd) : res bytes * rnd :=
    match pkcs7_padding plain s with
    | (Ok padded, s1) =>
      match draw 16 s1 with
      | (Ok iv, s2) => (Ok (iv ++ cbc_enc (aes_enc key) (length padded / 16) iv padded), s2)
      | (_, s2) => (Err, s2)
      end
    | (_, s1) => (Err, s1)
    end.

  Definition aes_decrypt (key ct : bytes) : res bytes :=
    if (length ct <? 16)%nat then Err else
    let* iv := upto ct 16 in
    let* em := from ct 16 in
    if (length em =? 0)%nat then Err else
    if negb (length em mod 16 =? 0)%nat then Err else
    let plain := cbc_dec (aes_dec key) (length em / 16) iv em in
    let* last := idx plain (length plain - 1) in
    let padding := (nat_of last + 1)%nat in
    if (length plain <? padding)%nat then Err else
    upto plain (length plain - padding).

  Definition new_crypto (e : encr_alg) (key : bytes) : res bytes :=
    if negb (length key =? encr_keylen e)%nat then Err else Ok key.

  (* ---------- IKE SA ---------- *)
  Record ikesa := mkIkesa {
    sa_encr : encr_alg; sa_integ : integ_alg; sa_prf : prf_alg;
    sa_prf_d : hobj; sa_integ_i : hobj; sa_integ_r : hobj; sa_prf_i : hobj; sa_prf_r : hobj;
    sa_encr_i : bytes; sa_encr_r : bytes;        (* cipher objects = their keys *)
    sk_d : bytes; sk_ai : bytes; sk_ar : bytes; sk_ei : bytes; sk_er : bytes; sk_pi : bytes; sk_pr : bytes
  }.

  Definition concat_nonce_spi (nonce : bytes) (spi_i spi_r : N) : bytes := nonce ++ be64 spi_i ++ be64 spi_r.

  (* prf.Init(key); Write(data); Sum(nil) *)
  Definition prf_once (p : prf_alg) (key data : bytes) : bytes :=
    ho_sum (ho_write (ho_new (prf_hash p) key) data) [].

  Definition generate_key_for_ikesa (e : encr_alg) (i : integ_alg) (p : prf_alg)
             (nonce secret : bytes) (spi_i spi_r : N) : res ikesa :=
    if (length nonce =? 0)%nat then Err else
    if (length secret =? 0)%nat then Err else
    let ld := prf_keylen p in let la := integ_keylen i in let le := encr_keylen e in
    let total := (ld + la + la + le + le + ld + ld)%nat in
    let skeyseed := prf_once p nonce secret in
    let seed := concat_nonce_spi nonce spi_i spi_r in
    match prf_plus_obj (ho_new (prf_hash p) skeyseed) seed total with
    | (Ok ks, _) =>
      let* d := upto ks ld in let* ks := from ks ld in
      let* ai := upto ks la in let* ks := from ks la in
      let* ar := upto ks la in let* ks := from ks la in
      let* ei := upto ks le in let* ks := from ks le in
      let* er := upto ks le in let* ks := from ks le in
      let* pi := upto ks ld in let* ks := from ks ld in
      let* pr := upto ks ld in
      let* ci := new_crypto e ei in
      let* cr := new_crypto e er in
      Ok (mkIkesa e i p
            (ho_new (prf_hash p) d) (ho_new (integ_hash i) ai) (ho_new (integ_hash i) ar)
            (ho_new (prf_hash p) pi) (ho_new (prf_hash p) pr) ci cr d ai ar ei er pi pr)
    | (Err, _) => Err | (Fault, _) => Fault | (OutOfFuel, _) => OutOfFuel
    end.

  (* an SA holding given keys (objects freshly keyed), as GenerateKeyForIKESA leaves it *)
  Definition sa_of_keys (e : encr_alg) (i : integ_alg) (p : prf_alg) (d ai ar ei er pi pr : bytes) : ikesa :=
    mkIkesa e i p (ho_new (prf_hash p) d) (ho_new (integ_hash i) ai) (ho_new (integ_hash i) ar)
            (ho_new (prf_hash p) pi) (ho_new (prf_hash p) pr) ei er d ai ar ei er pi pr.

  Definition set_prf_d (sa : ikesa) (o : hobj) : ikesa :=
    mkIkesa (sa_encr sa) (sa_integ sa) (sa_prf sa) o (sa_integ_i sa) (sa_integ_r sa) (sa_prf_i sa) (sa_prf_r sa)
            (sa_encr_i sa) (sa_encr_r sa) (sk_d sa) (sk_ai sa) (sk_ar sa) (sk_ei sa) (sk_er sa) (sk_pi sa) (sk_pr sa).
  Definition set_integ_i (sa : ikesa) (o : hobj) : ikesa :=
    mkIkesa (sa_encr sa) (sa_integ sa) (sa_prf sa) (sa_prf_d sa) o (sa_integ_r sa) (sa_prf_i sa) (sa_prf_r sa)
            (sa_encr_i sa) (sa_encr_r sa) (sk_d sa) (sk_ai sa) (sk_ar sa) (sk_ei sa) (sk_er sa) (sk_pi sa) (sk_pr sa).
  Definition set_integ_r (sa : ikesa) (o : hobj) : ikesa :=
    mkIkesa (sa_encr sa) (sa_integ sa) (sa_prf sa) (sa_prf_d sa) (sa_integ_i sa) o (sa_prf_i sa) (sa_prf_r sa)
            (sa_encr_i sa) (sa_encr_r sa) (sk_d sa) (sk_ai sa) (sk_ar sa) (sk_ei sa) (sk_er sa) (sk_pi sa) (sk_pr sa).

  (* ---------- Child SA ---------- *)
  (* the four keys GenerateKeyForChildSA appends (to empty fields of a new ChildSAKey):
     initiator-to-responder encryption, i-to-r integrity, r-to-i encryption, r-to-i integrity *)
  Definition generate_key_for_childsa (sa : ikesa) (e : encr_alg) (i : option integ_alg) (nonce : bytes)
    : res (bytes * bytes * bytes * bytes) * ikesa :=
    let le := encr_keylen e in
    let li := match i with Some a => integ_keylen a | None => O end in
    let total := ((le + li) * 2)%nat in
    match prf_plus_obj (sa_prf_d sa) nonce total with
    | (Ok ks, o) =>
      (let* ei := upto ks le in let* ks := from ks le in
       let* ai := upto ks li in let* ks := from ks li in
       let* er := upto ks le in let* ks := from ks le in
       let* ar := upto ks li in
       Ok (ei, ai, er, ar), set_prf_d sa o)
    | (Err, o) => (Err, set_prf_d sa o)
    | (Fault, o) => (Fault, set_prf_d sa o)
    | (OutOfFuel, o) => (OutOfFuel, set_prf_d sa o)
    end.
End Crypto.
