(* Base: octets, big-endian numbers, Go-slice accessors with explicit bounds,
   the outcome type.  Proof-free definitions first, lemmas after. *)
From Coq Require Export List NArith ZArith Lia Bool Arith PeanoNat.
From Coq Require Export ZifyN ZifyNat ZifyBool.
From Coq Require Export Init.Byte Strings.Byte.
Export ListNotations.
Ltac Zify.zify_post_hook ::= Z.div_mod_to_equations.

Notation bytes := (list byte) (only parsing).

(* Outcome of a modelled Go function.
   Err       : the function returned a non-nil error
   Fault     : a slice or index expression outside [0,len]: a run-time panic when the
               slice has exact capacity, an over-read of the neighbouring memory otherwise
   OutOfFuel : loop fuel exhausted (never a value; excluded by theorems) *)
Inductive res (A : Type) : Type :=
| Ok (a : A) | Err | Fault | OutOfFuel.
Arguments Ok {A} a.
Arguments Err {A}.
Arguments Fault {A}.
Arguments OutOfFuel {A}.

Definition bind {A B} (r : res A) (f : A -> res B) : res B :=
  match r with Ok a => f a | Err => Err | Fault => Fault | OutOfFuel => OutOfFuel end.
Notation "'let*' x ':=' e 'in' f" := (bind e (fun x => f))
  (at level 200, x name, e at level 100, f at level 200, right associativity).
Notation "'let*' ' p ':=' e 'in' f" := (bind e (fun x => match x with p => f end))
  (at level 200, p pattern, e at level 100, f at level 200, right associativity).
Definition guard (c : bool) : res unit := if c then Ok tt else Err.
Definition is_ok {A} (r : res A) : bool := match r with Ok _ => true | _ => false end.
Definition res_map {A B} (f : A -> B) (r : res A) : res B := let* a := r in Ok (f a).

(* ---- octets and numbers ---- *)
Definition b2n (b : byte) : N := Byte.to_N b.
Definition n2b (n : N) : byte :=
  match Byte.of_N (n mod 256) with Some b => b | None => x00 end.

Definition be_val (l : bytes) : N := fold_left (fun a b => a * 256 + b2n b)%N l 0%N.
Definition be16 (n : N) : bytes := [n2b (n / 256); n2b n].
Definition be32 (n : N) : bytes := [n2b (n / 16777216); n2b (n / 65536); n2b (n / 256); n2b n].
Definition be64 (n : N) : bytes := be32 (n / 4294967296) ++ be32 n.
Definition zeros (n : nat) : bytes := repeat x00 n.
Definition bxor (a b : byte) : byte := n2b (N.lxor (b2n a) (b2n b)).
Definition len {A} (b : list A) : N := N.of_nat (length b).

(* ---- Go slice / index expressions ---- *)
Definition sub (b : bytes) (i j : nat) : res bytes :=
  if (i <=? j) && (j <=? length b) then Ok (firstn (j - i) (skipn i b)) else Fault.
Definition from (b : bytes) (i : nat) : res bytes :=
  if i <=? length b then Ok (skipn i b) else Fault.
Definition upto (b : bytes) (j : nat) : res bytes :=
  if j <=? length b then Ok (firstn j b) else Fault.
Definition idx (b : bytes) (i : nat) : res N :=
  match nth_error b i with Some x => Ok (b2n x) | None => Fault end.
Definition u16at (b : bytes) (i : nat) : res N :=
  let* s := sub b i (i + 2) in Ok (be_val s).
Definition u32at (b : bytes) (i : nat) : res N :=
  let* s := sub b i (i + 4) in Ok (be_val s).
Definition u64at (b : bytes) (i : nat) : res N :=
  let* s := sub b i (i + 8) in Ok (be_val s).

Notation nat_of := N.to_nat (only parsing).

Global Arguments N.div : simpl never.
Global Arguments N.modulo : simpl never.
Global Arguments N.mul : simpl never.
Global Arguments N.add : simpl never.
Global Arguments N.sub : simpl never.
Global Arguments N.pow : simpl never.
Global Arguments N.lxor : simpl never.
Global Arguments firstn : simpl never.
Global Arguments skipn : simpl never.
Global Arguments Nat.div : simpl never.
Global Arguments Nat.modulo : simpl never.
Global Arguments Nat.leb : simpl never.
Global Arguments Nat.ltb : simpl never.
Global Arguments Nat.eqb : simpl never.
Global Arguments N.leb : simpl never.
Global Arguments N.ltb : simpl never.
Global Arguments N.eqb : simpl never.
Global Arguments N.to_nat : simpl never.
Global Arguments N.of_nat : simpl never.
