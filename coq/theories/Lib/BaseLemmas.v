From IKE Require Import Lib.Base.
Local Open Scope N_scope.

Lemma b2n_lt b : b2n b < 256.
Proof. unfold b2n. pose proof (Byte.to_N_bounded b). lia. Qed.

Lemma n2b_b2n b : n2b (b2n b) = b.
Proof.
  unfold n2b, b2n. rewrite N.mod_small by (pose proof (Byte.to_N_bounded b); lia).
  now rewrite Byte.of_to_N.
Qed.

Lemma b2n_n2b n : b2n (n2b n) = n mod 256.
Proof.
  unfold n2b, b2n. destruct (Byte.of_N (n mod 256)) eqn:E.
  - now apply Byte.to_of_N.
  - apply Byte.of_N_None_iff in E. pose proof (N.mod_lt n 256). lia.
Qed.

Lemma b2n_n2b_small n : n < 256 -> b2n (n2b n) = n.
Proof. intros. rewrite b2n_n2b. now apply N.mod_small. Qed.

Lemma b2n_inj a b : b2n a = b2n b -> a = b.
Proof. intros H. rewrite <- (n2b_b2n a), <- (n2b_b2n b). now rewrite H. Qed.

(* ---- big endian ---- *)
Lemma be_val_app a b : be_val (a ++ b) = be_val a * 256 ^ N.of_nat (length b) + be_val b.
Proof.
  unfold be_val. rewrite fold_left_app. generalize (fold_left (fun a0 b0 => a0 * 256 + b2n b0) a 0).
  induction b as [|x b IH]; intros n; cbn [fold_left length].
  - change (N.of_nat 0) with 0. rewrite N.pow_0_r. lia.
  - rewrite IH, (IH (0 * 256 + b2n x)). rewrite Nat2N.inj_succ, N.pow_succ_r'. lia.
Qed.

Lemma be_val_cons x l : be_val (x :: l) = b2n x * 256 ^ N.of_nat (length l) + be_val l.
Proof. change (x :: l) with ([x] ++ l). rewrite be_val_app. unfold be_val at 1. cbn [fold_left]. lia. Qed.

Lemma be_val_nil : be_val [] = 0.
Proof. reflexivity. Qed.

Lemma be_val_bound l : be_val l < 256 ^ N.of_nat (length l).
Proof.
  induction l as [|x l IH].
  - cbn. change (N.of_nat 0) with 0. rewrite N.pow_0_r. reflexivity.
  - rewrite be_val_cons. cbn [length]. rewrite Nat2N.inj_succ, N.pow_succ_r'.
    pose proof (b2n_lt x). nia.
Qed.

Lemma be_val_1 a : be_val [a] = b2n a.
Proof. unfold be_val. cbn. lia. Qed.
Lemma be_val_2 a b : be_val [a; b] = b2n a * 256 + b2n b.
Proof. unfold be_val. cbn. lia. Qed.
Lemma be_val_4 a b c d : be_val [a; b; c; d] = b2n a * 16777216 + b2n b * 65536 + b2n c * 256 + b2n d.
Proof. unfold be_val. cbn. lia. Qed.

Lemma be16_val n : n < 65536 -> be_val (be16 n) = n.
Proof.
  intros H. unfold be16. rewrite be_val_2, !b2n_n2b. 
  rewrite (N.mod_small (n / 256)) by (apply N.div_lt_upper_bound; lia).
  pose proof (N.div_mod n 256). lia.
Qed.

Lemma be16_val_mod n : be_val (be16 n) = n mod 65536.
Proof.
  unfold be16. rewrite be_val_2, !b2n_n2b. lia.
Qed.

Lemma be32_val n : n < 4294967296 -> be_val (be32 n) = n.
Proof.
  intros H. unfold be32. rewrite be_val_4, !b2n_n2b. lia.
Qed.

Lemma be32_val_mod n : be_val (be32 n) = n mod 4294967296.
Proof. unfold be32. rewrite be_val_4, !b2n_n2b. lia. Qed.

Lemma be16_length n : length (be16 n) = 2%nat. Proof. reflexivity. Qed.
Lemma be32_length n : length (be32 n) = 4%nat. Proof. reflexivity. Qed.
Lemma be64_length n : length (be64 n) = 8%nat. Proof. reflexivity. Qed.

Lemma be64_val n : n < 18446744073709551616 -> be_val (be64 n) = n.
Proof.
  intros H. unfold be64. rewrite be_val_app, be32_length.
  rewrite be32_val by (apply N.div_lt_upper_bound; lia).
  rewrite be32_val_mod. change (256 ^ N.of_nat 4) with 4294967296. lia.
Qed.

Lemma be16_of_val a b : be16 (be_val [a; b]) = [a; b].
Proof.
  unfold be16. rewrite be_val_2. pose proof (b2n_lt a). pose proof (b2n_lt b).
  f_equal; [|f_equal].
  - rewrite <- (n2b_b2n a) at 2. f_equal. lia.
  - rewrite <- (n2b_b2n b) at 2. unfold n2b. 
    replace ((b2n a * 256 + b2n b) mod 256) with (b2n b mod 256) by lia. reflexivity.
Qed.

(* ---- lists ---- *)
Lemma zeros_length n : length (zeros n) = n.
Proof. apply repeat_length. Qed.

Lemma skipn_app_len {A} (a b : list A) n : n = length a -> skipn n (a ++ b) = b.
Proof. intros ->. rewrite skipn_app, skipn_all, Nat.sub_diag. reflexivity. Qed.

Lemma firstn_app_len {A} (a b : list A) n : n = length a -> firstn n (a ++ b) = a.
Proof. intros ->. rewrite firstn_app, firstn_all, Nat.sub_diag. cbn. apply app_nil_r. Qed.

Lemma firstn_skipn_len {A} (l : list A) n : (n <= length l)%nat -> length (firstn n l) = n.
Proof. intros. rewrite firstn_length. lia. Qed.

(* ---- slices ---- *)
Lemma sub_ok b i j : (i <= j)%nat -> (j <= length b)%nat -> sub b i j = Ok (firstn (j - i) (skipn i b)).
Proof.
  intros. unfold sub. destruct (i <=? j)%nat eqn:E1; destruct (j <=? length b)%nat eqn:E2; try reflexivity; lia.
Qed.

Lemma sub_fault b i j : sub b i j = Fault -> (j < i \/ length b < j)%nat.
Proof.
  unfold sub. destruct (i <=? j)%nat eqn:E1; destruct (j <=? length b)%nat eqn:E2; cbn; try discriminate; lia.
Qed.

Lemma sub_cases b i j : sub b i j = Fault \/ exists s, sub b i j = Ok s /\ length s = (j - i)%nat /\ (i <= j <= length b)%nat.
Proof.
  unfold sub. destruct (i <=? j)%nat eqn:E1; destruct (j <=? length b)%nat eqn:E2; cbn; auto.
  right. eexists. split; [reflexivity|]. split; [|lia]. rewrite firstn_length, skipn_length. lia.
Qed.

Lemma sub_app3 a b c i j :
  i = length a -> j = (length a + length b)%nat -> sub (a ++ b ++ c) i j = Ok b.
Proof.
  intros -> ->. rewrite sub_ok; [| lia | rewrite !app_length; lia].
  rewrite skipn_app_len by reflexivity. f_equal. apply firstn_app_len. lia.
Qed.

Lemma sub_app2 a b i j :
  i = length a -> j = (length a + length b)%nat -> sub (a ++ b) i j = Ok b.
Proof. intros. rewrite <- (app_nil_r b) at 1. now apply sub_app3. Qed.

Lemma sub_prefix a b j : j = length a -> sub (a ++ b) 0 j = Ok a.
Proof. intros. change (a ++ b) with ([] ++ a ++ b). apply sub_app3; cbn; auto. Qed.

Lemma from_ok b i : (i <= length b)%nat -> from b i = Ok (skipn i b).
Proof. intros. unfold from. destruct (i <=? length b)%nat eqn:E; [reflexivity|lia]. Qed.

Lemma from_app a b i : i = length a -> from (a ++ b) i = Ok b.
Proof. intros ->. rewrite from_ok by (rewrite app_length; lia). f_equal. now apply skipn_app_len. Qed.

Lemma upto_ok b j : (j <= length b)%nat -> upto b j = Ok (firstn j b).
Proof. intros. unfold upto. destruct (j <=? length b)%nat eqn:E; [reflexivity|lia]. Qed.

Lemma upto_app a b j : j = length a -> upto (a ++ b) j = Ok a.
Proof. intros ->. rewrite upto_ok by (rewrite app_length; lia). f_equal. now apply firstn_app_len. Qed.

Lemma idx_ok b i : (i < length b)%nat -> exists x, idx b i = Ok x /\ x < 256.
Proof.
  intros H. unfold idx. destruct (nth_error b i) eqn:E.
  - eexists; split; [reflexivity|apply b2n_lt].
  - apply nth_error_None in E. lia.
Qed.

Lemma idx_fault b i : idx b i = Fault -> (length b <= i)%nat.
Proof. unfold idx. destruct (nth_error b i) eqn:E; [discriminate|]. intros _. now apply nth_error_None. Qed.

Lemma idx_app_r a b i : (length a <= i)%nat -> idx (a ++ b) i = idx b (i - length a).
Proof. intros. unfold idx. now rewrite nth_error_app2. Qed.

Lemma u16at_ok b i : (i + 2 <= length b)%nat -> exists x, u16at b i = Ok x /\ x < 65536.
Proof.
  intros H. unfold u16at. rewrite sub_ok by lia. cbn [bind].
  eexists; split; [reflexivity|].
  pose proof (be_val_bound (firstn (i + 2 - i) (skipn i b))) as B.
  rewrite firstn_length, skipn_length in B.
  replace (Nat.min (i + 2 - i) (length b - i)) with 2%nat in B by lia. exact B.
Qed.

Lemma u16at_fault b i : u16at b i = Fault -> (length b < i + 2)%nat.
Proof.
  unfold u16at. destruct (sub b i (i + 2)) eqn:E; cbn; try discriminate.
  intros _. apply sub_fault in E. lia.
Qed.

Lemma u32at_ok b i : (i + 4 <= length b)%nat -> exists x, u32at b i = Ok x /\ x < 4294967296.
Proof.
  intros H. unfold u32at. rewrite sub_ok by lia. cbn [bind].
  eexists; split; [reflexivity|].
  pose proof (be_val_bound (firstn (i + 4 - i) (skipn i b))) as B.
  rewrite firstn_length, skipn_length in B.
  replace (Nat.min (i + 4 - i) (length b - i)) with 4%nat in B by lia. exact B.
Qed.

Lemma u64at_ok b i : (i + 8 <= length b)%nat -> exists x, u64at b i = Ok x /\ x < 18446744073709551616.
Proof.
  intros H. unfold u64at. rewrite sub_ok by lia. cbn [bind].
  eexists; split; [reflexivity|].
  pose proof (be_val_bound (firstn (i + 8 - i) (skipn i b))) as B.
  rewrite firstn_length, skipn_length in B.
  replace (Nat.min (i + 8 - i) (length b - i)) with 8%nat in B by lia. exact B.
Qed.
