(* Textbook CBC over an abstract 16-octet block function (crypto/cipher's NewCBCEncrypter /
   NewCBCDecrypter over crypto/aes).  The block function is a parameter. *)
From IKE Require Import Lib.Base.

Definition xor_bytes (a b : bytes) : bytes := map (fun p => bxor (fst p) (snd p)) (combine a b).

Section Cbc.
  Variable E D : bytes -> bytes.     (* block encryption / decryption under a fixed key *)

  (* n blocks of 16 octets; data beyond 16n octets is ignored (callers pass exact multiples) *)
  Fixpoint cbc_enc (n : nat) (prev data : bytes) : bytes :=
    match n with
    | O => []
    | S m => let c := E (xor_bytes (firstn 16 data) prev) in c ++ cbc_enc m c (skipn 16 data)
    end.

  Fixpoint cbc_dec (n : nat) (prev data : bytes) : bytes :=
    match n with
    | O => []
    | S m => let c := firstn 16 data in xor_bytes (D c) prev ++ cbc_dec m c (skipn 16 data)
    end.
End Cbc.
