(* HMAC (RFC 2104) over an abstract digest; the stateful hash.Hash object of Go's
   crypto/hmac as a record.  The digest is a Section variable: it is a call into Go's
   standard library, not code of this repository. *)
From IKE Require Import Lib.Base.

Section Hmac.
  Variable H : bytes -> bytes.     (* raw digest: md5 / sha1 / sha256 *)
  Variable B : nat.                (* its block size in octets (64 for all three) *)

  Definition hmac_key (k : bytes) : bytes :=
    let k' := if (B <? length k)%nat then H k else k in
    k' ++ zeros (B - length k').

  Definition hmac (k m : bytes) : bytes :=
    H (map (bxor x5c) (hmac_key k) ++ H (map (bxor x36) (hmac_key k) ++ m)).

  (* hash.Hash returned by hmac.New(h, key) *)
  Record hobj := { hkey : bytes; hbuf : bytes }.
  Definition h_new (k : bytes) : hobj := {| hkey := k; hbuf := [] |}.
  Definition h_reset (o : hobj) : hobj := {| hkey := hkey o; hbuf := [] |}.
  Definition h_write (o : hobj) (d : bytes) : hobj := {| hkey := hkey o; hbuf := hbuf o ++ d |}.
  Definition h_sum (o : hobj) (p : bytes) : bytes := p ++ hmac (hkey o) (hbuf o).
End Hmac.
