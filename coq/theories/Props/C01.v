(* C01  Protected message round trip between opposite roles of one IKE SA.
   The primitives are parameters: digest (MD5 / SHA-1 / SHA-256 as one function of the algorithm, assumed only to have
   the right output length) and the AES block operations (block_hyps: 16-octet outputs, decrypt inverts encrypt on
   16-octet blocks); they are Go's standard library, and the check queries the real ones.  sa_wf says the two
   integrity objects of the SA use the hash of the negotiated integrity transform (true of every SA built by
   generate_key_for_ikesa / sa_of_keys); sa_eqk is "holds the same keys" (all fields but the hash objects' buffers).
   The theorem covers all suites, both roles, all keys, every outcome of the random source (s), and the empty
   payload list (dom_msg and sk_consistent hold of it).  norm_payload: nil and empty octet strings are equal and
   the EAP-AKA' attribute map comes back in sorted order; the header returns with NextPayload = 46 (bookkeeping). *)
From IKE Require Import Lib.Base Prim.Hmac Prim.Cbc Impl.Msg Impl.Eap Impl.Payloads Impl.Message Impl.Security Impl.Ike
     Spec.Wire Thm.EapRT Thm.RoundTrip Thm.EncodeSpec Thm.DomainB Thm.CbcThm Thm.NoFaultSK Thm.SKThm.
Local Open Scope N_scope.

Theorem C01_protect_then_unprotect_in_the_opposite_role :
  forall (digest : halg -> bytes -> bytes) (aes_enc aes_dec : bytes -> bytes -> bytes),
  (forall a x, length (digest a x) = hlen a) -> block_hyps aes_enc aes_dec ->
  forall sa sa2 role m s b sa' s',
    sa_wf sa -> sa_wf sa2 -> sa_eqk sa sa2 -> dom_msg m -> sk_consistent (m_payloads m) ->
    encode_encrypt digest aes_enc m (Some sa) role s = (Ok b, sa', s') ->
    let expect := mkMsg (set_next (m_hdr m) 46) (map norm_payload (m_payloads m)) in
    (* whether or not the receiver pre-parsed the header *)
    forall hdr, (hdr = None \/ exists pb, parse_header b = Ok (set_next (m_hdr m) 46, pb) /\ hdr = Some (set_next (m_hdr m) 46)) ->
    exists k2',
      decode_decrypt digest aes_dec b hdr (Some sa2) (negb role) = (Ok expect, Some k2', [CDec role]) /\ sa_eqk sa2 k2'.
Proof. exact protect_unprotect. Qed.
Print Assumptions C01_protect_then_unprotect_in_the_opposite_role.

(* the premise "protection succeeded" is met on the whole domain: whenever the random source delivers the pad and
   IV octets and the protected form fits the 16-bit payload length, EncodeEncrypt returns a datagram *)
Theorem C01_protection_succeeds_on_the_domain :
  forall (digest : halg -> bytes -> bytes) (aes_enc aes_dec : bytes -> bytes -> bytes),
  (forall a x, length (digest a x) = hlen a) -> block_hyps aes_enc aes_dec ->
  forall sa role m padr iv s2,
    sa_wf sa -> dom_msg m ->
    let plain := wenc_chain (sk_last (m_payloads m)) (map (canon_payload eap_bytes) (m_payloads m)) in
    length padr = pad_of plain -> length iv = 16%nat ->
    4 + (N.of_nat (16 + length plain + pad_of plain) + N.of_nat (integ_outlen (sa_integ sa))) < 65536 ->
    exists b sa',
      encode_encrypt digest aes_enc m (Some sa) role (map (@Some byte) padr ++ map (@Some byte) iv ++ s2) = (Ok b, sa', s2).
Proof. exact protect_succeeds. Qed.
Print Assumptions C01_protection_succeeds_on_the_domain.

(* with no SA keys the entry points are the plain codec (an SK datagram cannot be opened without keys) *)
Theorem C01_without_keys_encode : forall digest aes_enc m role s,
  encode_encrypt digest aes_enc m None role s = (encode m, None, s).
Proof. reflexivity. Qed.
Theorem C01_without_keys_decode :
  forall (digest : halg -> bytes -> bytes) (aes_dec : bytes -> bytes -> bytes) raw role,
    decode_decrypt digest aes_dec raw None None role =
      match decode raw with
      | Ok m => (if (length (m_payloads m) =? 0)%nat then (if h_next (m_hdr m) =? 46 then Err else Ok m)
                 else if first_is_sk (m_payloads m) then Err else Ok m, None, [])
      | Err => (Err, None, []) | Fault => (Fault, None, []) | OutOfFuel => (OutOfFuel, None, [])
      end.
Proof. exact no_key_is_plain_decode. Qed.
Print Assumptions C01_without_keys_decode.

(* non-vacuity: SAs built from keys are well formed and key-equal to themselves, for all 9 suites *)
Example C01_premises_satisfiable :
  forall e i p d ai ar ei er pi pr,
    let sa := sa_of_keys e i p d ai ar ei er pi pr in sa_wf sa /\ sa_eqk sa sa /\
    dom_msg (mkMsg (mkHeader 1 2 2 0 37 8 0 0) []) /\ sk_consistent [].
Proof.
  intros. split; [split; reflexivity|]. split; [apply sa_eqk_refl|].
  pose proof (dom_msgb_ok (mkMsg (mkHeader 1 2 2 0 37 8 0 0) [])) as H.
  apply H. vm_compute. reflexivity.
Qed.
