(* C02  Tampered, truncated, spliced, cross-key or reflected SK messages are rejected.
   What can be proved without a cryptographic assumption is stated exactly: for EVERY octet string raw (so for every
   bit flip, prefix, extension, multi-octet edit or splice of genuine messages) unprotection never crashes, and the
   cipher is reached - a fortiori an unprotection succeeds - only if the last icv octets of raw are the truncated
   HMAC, under the peer direction's integrity key, of all octets before them.  Otherwise the result is an error,
   except for a datagram that does not present an Encrypted payload first, which is handled as an unprotected
   datagram with no key applied.  A modified message is therefore accepted only if it is itself validly tagged,
   i.e. only by an HMAC forgery (the property's 2^-96 caveat); a modification that leaves the covered octets
   unchanged, or leaves fewer octets than a checksum, is refused unconditionally. *)
From IKE Require Import Lib.Base Prim.Hmac Prim.Cbc Impl.Msg Impl.Eap Impl.Payloads Impl.Message Impl.Security Impl.Ike
     Thm.NoFault Thm.CbcThm Thm.NoFaultSK Thm.SKThm.
Local Open Scope N_scope.

Theorem C02_unprotection_never_crashes :
  forall (digest : halg -> bytes -> bytes) (aes_enc aes_dec : bytes -> bytes -> bytes),
  (forall a x, length (digest a x) = hlen a) -> block_hyps aes_enc aes_dec ->
  forall raw hdr sa role, (forall k, sa = Some k -> sa_wf k) ->
    safe (fst (fst (decode_decrypt digest aes_dec raw hdr sa role))).
Proof. exact decode_decrypt_safe. Qed.
Print Assumptions C02_unprotection_never_crashes.

Theorem C02_every_outcome_of_an_unprotection :
  forall (digest : halg -> bytes -> bytes) (aes_enc aes_dec : bytes -> bytes -> bytes),
  (forall a x, length (digest a x) = hlen a) -> block_hyps aes_enc aes_dec ->
  forall raw hdr k role, sa_wf k ->
    let '(r, _, calls) := decode_decrypt digest aes_dec raw hdr (Some k) role in
    (calls = [] /\ (r = Err \/ exists m0, parsed_of raw hdr = Ok m0 /\ first_is_sk (m_payloads m0) = false /\ r = Ok m0))
    \/ (calls = [CDec (negb role)] /\ valid_tagged digest k (negb role) raw /\ safe r).
Proof. exact unprotect_outcomes. Qed.
Print Assumptions C02_every_outcome_of_an_unprotection.

(* last icv octets are not the MAC of the rest (e.g. any alteration confined to the checksum, or any alteration of
   the covered octets that is not an HMAC collision): no cipher call, refused unless no longer an SK datagram *)
Theorem C02_wrong_checksum_is_refused_before_the_cipher :
  forall (digest : halg -> bytes -> bytes) (aes_enc aes_dec : bytes -> bytes -> bytes),
  (forall a x, length (digest a x) = hlen a) -> block_hyps aes_enc aes_dec ->
  forall raw hdr k role c t, sa_wf k ->
    raw = c ++ t -> length t = integ_outlen (sa_integ k) -> t <> mac digest k (negb role) c ->
    let '(r, _, calls) := decode_decrypt digest aes_dec raw hdr (Some k) role in
    calls = [] /\ (r = Err \/ exists m0, parsed_of raw hdr = Ok m0 /\ first_is_sk (m_payloads m0) = false /\ r = Ok m0).
Proof. exact bad_tag_refused. Qed.
Print Assumptions C02_wrong_checksum_is_refused_before_the_cipher.

Theorem C02_shorter_than_a_checksum_is_refused :
  forall (digest : halg -> bytes -> bytes) (aes_enc aes_dec : bytes -> bytes -> bytes),
  (forall a x, length (digest a x) = hlen a) -> block_hyps aes_enc aes_dec ->
  forall raw hdr k role, sa_wf k -> (length raw < integ_outlen (sa_integ k))%nat ->
    let '(r, _, calls) := decode_decrypt digest aes_dec raw hdr (Some k) role in
    calls = [] /\ (r = Err \/ exists m0, parsed_of raw hdr = Ok m0 /\ first_is_sk (m_payloads m0) = false /\ r = Ok m0).
Proof. exact too_short_refused. Qed.
Print Assumptions C02_shorter_than_a_checksum_is_refused.

(* a genuine message (c ++ MAC_sender(c)) given to any key set k in any role r2 - r2 = the sender's own role is
   reflection, k unrelated is the cross-key case: refused before the cipher unless the receiver's expected MAC
   happens to equal the sender's *)
Theorem C02_reflected_or_cross_key_message_is_refused :
  forall (digest : halg -> bytes -> bytes) (aes_enc aes_dec : bytes -> bytes -> bytes),
  (forall a x, length (digest a x) = hlen a) -> block_hyps aes_enc aes_dec ->
  forall sa role c hdr k r2, sa_wf k -> integ_outlen (sa_integ k) = integ_outlen (sa_integ sa) -> sa_wf sa ->
    let b := c ++ mac digest sa role c in
    let '(r, _, calls) := decode_decrypt digest aes_dec b hdr (Some k) r2 in
    mac digest sa role c = mac digest k (negb r2) c \/
    (calls = [] /\ (r = Err \/ exists m0, parsed_of b hdr = Ok m0 /\ first_is_sk (m_payloads m0) = false /\ r = Ok m0)).
Proof. exact genuine_under_other_keys. Qed.
Print Assumptions C02_reflected_or_cross_key_message_is_refused.

(* the exception of the statement: a datagram whose first payload is not Encrypted is an unprotected datagram *)
Theorem C02_non_SK_datagram_is_handled_as_plain :
  forall (digest : halg -> bytes -> bytes) (aes_dec : bytes -> bytes -> bytes) raw hdr sa role m0,
    parsed_of raw hdr = Ok m0 -> first_is_sk (m_payloads m0) = false ->
    decode_decrypt digest aes_dec raw hdr sa role =
      (if (length (m_payloads m0) =? 0)%nat && (h_next (m_hdr m0) =? 46) then Err else Ok m0, sa, []).
Proof. exact non_sk_is_plain. Qed.
Print Assumptions C02_non_SK_datagram_is_handled_as_plain.
