(* C03  Plain message codec round trip (value -> wire -> value).
   dom_msg (Thm/EncodeSpec.v) is the encoding domain spelled out: Go field widths, KE/ID/AUTH/CERT/CERTREQ data
   non-empty, CP with >= 1 attribute of type < 2^15, every proposal with >= 1 transform filed under its own type,
   SPI <= 255 octets, attribute type < 2^15 with TV value any / TLV value non-empty, TS with 1..255 selectors of type
   7 (4-octet) or 8 (16-octet addresses), Delete (size 0 / no SPIs) or (size 4, count = number of SPIs), Notify SPI
   <= 255, EAP in the domain of C14, every payload within the 16-bit payload length.  It contains the property's
   encodable domain (and the decoder's image: C12). *)
From IKE Require Import Lib.Base Impl.Msg Impl.Eap Impl.Payloads Impl.Message Spec.Wire Thm.EapRT Thm.RoundTrip Thm.EncodeSpec Thm.DomainB.
Local Open Scope N_scope.

(* decode (encode m) = m in every header field and every field of every payload, in order; NextPayload is the
   type of the first payload (bookkeeping), the EAP-AKA' attribute map comes back in sorted order (equal as a map) *)
Theorem C03_roundtrip :
  forall m, dom_msg m -> sk_consistent (m_payloads m) ->
  exists b, encode m = Ok b /\ decode b = Ok (norm_msg m).
Proof. exact codec_roundtrip. Qed.
Print Assumptions C03_roundtrip.

(* a concrete message meeting the premises: every payload kind, a TLV attribute, attribute type 142, mixed selectors *)
Example C03_premises_satisfiable :
  exists m, dom_msg m /\ sk_consistent (m_payloads m) /\ (10 <= length (m_payloads m))%nat.
Proof.
  exists (mkMsg (mkHeader 1 2 2 0 34 8 7 0)
    [PSA [mkProposal 1 1 [x01; x02] [mkTransform 1 12 true 1 14 256 []; mkTransform 1 12 true 0 142 0 [x01; x02; x03]]
                    [mkTransform 2 5 false 0 0 0 []] [] [mkTransform 4 14 false 0 0 0 []] []];
     PKE 14 [x01]; PIDi 1 [x02]; PNonce []; PNotify 1 16388 [] [x09];
     PDelete 3 4 1 [4294967295]; PVendor [x07];
     PTSi [mkSelector 7 0 0 65535 [x00; x00; x00; x00] [xff; xff; xff; xff];
           mkSelector 8 6 1 2 (zeros 16%nat) (zeros 16%nat)];
     PCP 1 [mkCpAttr 1 []; mkCpAttr 32767 [x01]];
     PEAP (mkEap 1 9 (EDAka 1 0 [mkAkAttr 11 5 0 (zeros 16%nat); mkAkAttr 3 3 40 [x01; x02; x03; x04; x05]]))]).
  match goal with |- dom_msg ?m /\ _ /\ _ =>
    pose proof (dom_msgb_ok m) as H; assert (E : dom_msgb m = true) by (vm_compute; reflexivity); destruct (H E) as [H1 H2] end.
  split; [exact H1|]. split; [exact H2|]. cbn [m_payloads length]. lia.
Qed.
