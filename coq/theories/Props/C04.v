(* C04  Decoders survive arbitrary bytes: value or error, never crash, hang or over-read.
   On the Impl model an access outside [0,len] of a slice is the outcome Fault (in Go: a panic when the slice
   has exact capacity, a read of the memory behind it otherwise) and a loop that needs more than len+1
   iterations is OutOfFuel.  `safe r` = r is neither: every decoder, for EVERY byte string (no bound on
   length, every value of every size field), performs only accesses inside the slice's length - hence it
   cannot panic, cannot depend on spare capacity, and terminates within len+1 iterations of each loop. *)
From IKE Require Import Lib.Base Prim.Hmac Impl.Msg Impl.Eap Impl.Payloads Impl.Message Impl.Security Impl.Ike
     Thm.NoFault Thm.CbcThm Thm.NoFaultSK.

Theorem C04_message_decoders :
  forall b, safe (decode b) /\ safe (parse_header b) /\ (forall nxt, safe (decode_payloads nxt b)).
Proof. exact (fun b => conj (decode_safe b) (conj (parse_header_safe b) (fun nxt => decode_payloads_safe nxt b))). Qed.
Print Assumptions C04_message_decoders.

(* each payload body decoder (all 16 implemented types; any other type code is an error) *)
Theorem C04_payload_decoders : forall ty nxt body, safe (payload_unmarshal ty nxt body).
Proof. exact payload_unmarshal_safe. Qed.
Print Assumptions C04_payload_decoders.

Theorem C04_eap_decoders :
  forall b, safe (eap_unmarshal b) /\ safe (aka_unmarshal b) /\ safe (expanded_unmarshal b) /\
            (forall ty, safe (simple_unmarshal ty b)).
Proof. exact (fun b => conj (eap_safe b) (conj (aka_safe b) (conj (expanded_safe b) (fun ty => simple_safe ty b)))). Qed.
Print Assumptions C04_eap_decoders.

(* unprotection with any key set (objects hashing with the SA's integrity algorithm, as GenerateKeyForIKESA builds
   them), either role, header parsed from the same bytes / supplied / absent; digests and AES block as parameters *)
Theorem C04_unprotection :
  forall digest aes_enc aes_dec,
    (forall a x, length (digest a x) = hlen a) -> block_hyps aes_enc aes_dec ->
  forall raw hdr sa role,
    (forall k, sa = Some k -> sa_wf k) ->
    safe (fst (fst (decode_decrypt digest aes_dec raw hdr sa role))).
Proof. exact decode_decrypt_safe. Qed.
Print Assumptions C04_unprotection.

Theorem C04_cipher :
  forall aes_enc aes_dec, block_hyps aes_enc aes_dec ->
  forall key ct, aes_decrypt aes_dec key ct <> Fault /\ aes_decrypt aes_dec key ct <> OutOfFuel.
Proof. exact aes_decrypt_no_fault. Qed.
Print Assumptions C04_cipher.
