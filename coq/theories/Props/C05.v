(* C05  Wire format agrees with an independent RFC 7296 codec in both directions.
   The independent codec is Spec/Wire.v (syntax tree with every reserved field and sender liberty; encoder wenc;
   strict parser Spec/WireParse.v), written from RFC 7296 section 3 and not from the Go code. *)
From IKE Require Import Lib.Base Impl.Msg Impl.Eap Impl.Payloads Impl.Message Spec.Wire
     Thm.EapRT Thm.RoundTrip Thm.EncodeSpec.

(* (a) every encoded message of the domain IS the RFC encoding of the canonical tree: header length = datagram size,
   next-payload chain naming each payload's type and ending with 0 (or, after a trailing SK, the first inner type),
   every payload / proposal / transform / attribute / selector length equal to its extent, reserved fields and
   critical flags zero (canon_* put zeros; wenc computes every length from the real extent) *)
Theorem C05_encoder_emits_the_rfc_encoding :
  forall m, dom_msg m -> encode m = Ok (wenc (canon_msg m)).
Proof. exact encode_canon. Qed.
Print Assumptions C05_encoder_emits_the_rfc_encoding.

Theorem C05_canonical_tree_is_wellformed_and_denotes_m :
  forall m, dom_msg m -> sk_consistent (m_payloads m) ->
    wf_wmsg (canon_msg m) /\
    erase_chain eap_of (wm_sk_next (canon_msg m)) (wm_payloads (canon_msg m)) = Some (map norm_payload (m_payloads m)).
Proof.
  exact (fun m Hd Hc => conj (canon_msg_wf m Hd Hc)
           (erase_canon_chain (m_payloads m) (proj1 (proj2 Hd)) Hc)).
Qed.
Print Assumptions C05_canonical_tree_is_wellformed_and_denotes_m.

(* (b) every well-formed datagram of an independent encoder - any reserved octets and bits, the critical flag on
   understood payloads, transforms of a proposal in any order, non-critical payloads of unknown type anywhere -
   decodes to the fields it was built from (erase: the value the tree denotes) *)
Theorem C05_decoder_accepts_every_liberty :
  forall w ps, wf_wmsg w -> erase_chain eap_of (wm_sk_next w) (wm_payloads w) = Some ps ->
    decode (wenc w) = Ok (mkMsg (erase_hdr (wm_hdr w) (wfirst (wm_payloads w))) ps).
Proof. exact decode_wenc. Qed.
Print Assumptions C05_decoder_accepts_every_liberty.
