(* C06  SK payload follows RFC 7296 s3.14 and interoperates with an independent peer.
   sk_prefix h nxt n (Thm/SKThm.v) is: the 28-octet header with first payload 46 and total length 28 + 4 + n,
   then the generic payload header  nxt | 0 | 4 + n.  cbc_enc (Prim/Cbc.v) is textbook CBC written from the
   definition; mac is the truncated HMAC (Prim/Hmac.v, from RFC 2104) under the sender direction's integrity key. *)
From IKE Require Import Lib.Base Prim.Hmac Prim.Cbc Impl.Msg Impl.Eap Impl.Payloads Impl.Message Impl.Security Impl.Ike
     Spec.Wire Thm.EapRT Thm.RoundTrip Thm.EncodeSpec Thm.CbcThm Thm.NoFaultSK Thm.SKThm.
Local Open Scope N_scope.

(* layout of every protected message: header | SK header naming the first inner payload | ct | checksum, the checksum
   being the MAC over everything before it, with both length fields final *)
Theorem C06_protected_message_layout :
  forall (digest : halg -> bytes -> bytes) (aes_enc aes_dec : bytes -> bytes -> bytes),
  (forall a x, length (digest a x) = hlen a) -> block_hyps aes_enc aes_dec ->
  forall sa role m s b sa' s', sa_wf sa -> dom_header (m_hdr m) ->
    encode_encrypt digest aes_enc m (Some sa) role s = (Ok b, sa', s') ->
    exists plain ct,
      container_encode (m_payloads m) = Ok plain /\
      aes_encrypt aes_enc (send_key sa role) plain s = (Ok ct, s') /\
      let nxt := first_type (m_payloads m) in
      let icv := integ_outlen (sa_integ sa) in
      let covered := sk_prefix (m_hdr m) nxt (len ct + N.of_nat icv) ++ ct in
      b = covered ++ mac digest sa role covered /\
      4 + (len ct + N.of_nat icv) < 65536 /\
      exists k', sa' = Some k' /\ sa_eqk sa k' /\ sa_wf k'.
Proof. exact protect_spec. Qed.
Print Assumptions C06_protected_message_layout.

(* ... where ct is IV | CBC_{sender's key}(inner payloads | pad | pad length), pad and IV taken from the random source *)
Theorem C06_ciphertext_layout :
  forall (aes_enc aes_dec : bytes -> bytes -> bytes), block_hyps aes_enc aes_dec ->
  forall key p s ct s2, aes_encrypt aes_enc key p s = (Ok ct, s2) ->
    exists padr iv,
      s = map (@Some byte) padr ++ map (@Some byte) iv ++ s2 /\ length padr = pad_of p /\ length iv = 16%nat /\
      let padded := p ++ firstn (pad_of p - 1) padr ++ [n2b (N.of_nat (pad_of p - 1))] in
      ct = iv ++ cbc_enc (aes_enc key) (length padded / 16) iv padded /\
      length padded = (length p + pad_of p)%nat /\
      length ct = (16 + length p + pad_of p)%nat /\ (1 <= pad_of p <= 16)%nat /\ ((length p + pad_of p) mod 16 = 0)%nat /\
      aes_decrypt aes_dec key ct = Ok p.
Proof. exact aes_encrypt_spec. Qed.
Print Assumptions C06_ciphertext_layout.

(* a datagram built by an independent sender from the definitions above, with ANY IV and ANY legal padding
   (0..255 arbitrary pad octets making a whole number of blocks), is accepted and decodes to the original payloads *)
Theorem C06_reference_built_messages_are_accepted :
  forall (digest : halg -> bytes -> bytes) (aes_enc aes_dec : bytes -> bytes -> bytes),
  (forall a x, length (digest a x) = hlen a) -> block_hyps aes_enc aes_dec ->
  forall sa sa2 role m plain iv pad,
    sa_wf sa -> sa_wf sa2 -> sa_eqk sa sa2 -> dom_msg m -> sk_consistent (m_payloads m) ->
    container_encode (m_payloads m) = Ok plain ->
    length iv = 16%nat -> (length pad <= 255)%nat -> ((length plain + length pad + 1) mod 16 = 0)%nat ->
    let padded := plain ++ pad ++ [n2b (N.of_nat (length pad))] in
    let ct := iv ++ cbc_enc (aes_enc (send_key sa role)) (length padded / 16) iv padded in
    let nxt := first_type (m_payloads m) in
    let icv := integ_outlen (sa_integ sa) in
    4 + (len ct + N.of_nat icv) < 65536 ->
    let covered := sk_prefix (m_hdr m) nxt (len ct + N.of_nat icv) ++ ct in
    let b := covered ++ mac digest sa role covered in
    forall hdr, (hdr = None \/ exists pb, parse_header b = Ok (set_next (m_hdr m) 46, pb) /\ hdr = Some (set_next (m_hdr m) 46)) ->
    exists k2',
      decode_decrypt digest aes_dec b hdr (Some sa2) (negb role) =
        (Ok (mkMsg (set_next (m_hdr m) 46) (map norm_payload (m_payloads m))), Some k2', [CDec role]) /\ sa_eqk sa2 k2'.
Proof. exact reference_accepted. Qed.
Print Assumptions C06_reference_built_messages_are_accepted.

(* the SK prefix spelled out, so that the statement above can be read against RFC 7296 s3.1 / s3.2 / s3.14 *)
Example C06_sk_prefix_is :
  forall h nxt n, sk_prefix h nxt n =
    be64 (h_ispi h) ++ be64 (h_rspi h) ++ [n2b 46; n2b (h_major h * 16 + h_minor h); n2b (h_exch h); n2b (h_flags h)]
    ++ be32 (h_mid h) ++ be32 (28 + (4 + n)) ++ [n2b nxt; x00] ++ be16 (4 + n).
Proof. reflexivity. Qed.
