(* C07  IKE SA keys follow RFC 7296 sections 2.13-2.14 for every negotiable suite.
   Statements, `exact`, Print Assumptions.  The digests (MD5, SHA-1, SHA-256) are parameters with their
   output lengths as the only hypothesis; HMAC and prf+ are the Coq definitions of Prim/Hmac.v, Spec/PrfPlus.v. *)
From IKE Require Import Lib.Base Prim.Hmac Spec.PrfPlus Impl.Security Impl.Dh Thm.PrfPlusObj Thm.KeyDerivation Thm.DhThm.

(* for all 27 combinations (generic in e, i, p), all non-empty nonce and secret strings, all SPI pairs:
   SKEYSEED = prf(Ni|Nr, g^ir); {SK_d | SK_ai | SK_ar | SK_ei | SK_er | SK_pi | SK_pr} = prf+(SKEYSEED, Ni|Nr|SPIi|SPIr)
   with the lengths of the negotiated PRF / integrity / encryption algorithms; the SA's PRF, integrity and cipher objects
   are keyed with exactly those slices (sa_of_keys). *)
Theorem C07_ikesa_keys :
  forall (digest : halg -> bytes -> bytes), (forall a x, length (digest a x) = hlen a) ->
  forall e i p nonce secret si sr, nonce <> [] -> secret <> [] ->
    let ld := prf_keylen p in let la := integ_keylen i in let le := encr_keylen e in
    let total := (ld + la + la + le + le + ld + ld)%nat in
    let skeyseed := hm digest (prf_hash p) nonce secret in
    let ks := prf_plus (hm digest (prf_hash p)) skeyseed (nonce ++ be64 si ++ be64 sr) total total in
    generate_key_for_ikesa digest e i p nonce secret si sr =
      Ok (sa_of_keys e i p
            (slice 0 ld ks) (slice ld (ld + la) ks) (slice (ld + la) (ld + la + la) ks)
            (slice (ld + la + la) (ld + la + la + le) ks) (slice (ld + la + la + le) (ld + la + la + le + le) ks)
            (slice (ld + la + la + le + le) (ld + la + la + le + le + ld) ks)
            (slice (ld + la + la + le + le + ld) total ks)).
Proof. exact ikesa_keys_correct. Qed.
Print Assumptions C07_ikesa_keys.

Theorem C07_empty_inputs_refused :
  forall digest e i p nonce secret si sr,
    nonce = [] \/ secret = [] -> generate_key_for_ikesa digest e i p nonce secret si sr = Err.
Proof. exact ikesa_empty_refused. Qed.
Print Assumptions C07_empty_inputs_refused.

(* prf+ on the library's stateful object is the RFC's prf+, for every block count covering the request *)
Theorem C07_prf_plus :
  forall (digest : halg -> bytes -> bytes), (forall a x, length (digest a x) = hlen a) ->
  forall o s slen n, (slen <= hlen (h_alg o) * n)%nat ->
    exists o', prf_plus_obj digest o s slen = (Ok (prf_plus (hm digest (h_alg o)) (h_key o) s n slen), o')
               /\ same_key o o'.
Proof. exact prf_plus_obj_correct. Qed.
Print Assumptions C07_prf_plus.

(* an initiator and a responder that exchanged public values hold the same shared secret (hence, the derivation
   being a function of nonces, secret and SPIs, identical SAs) *)
Theorem C07_two_parties_agree :
  forall g a b pa pb, (0 <= a)%Z -> (0 <= b)%Z -> dh_public g a = Ok pa -> dh_public g b = Ok pb ->
    dh_shared g a pb = dh_shared g b pa.
Proof. exact dh_agreement. Qed.
Print Assumptions C07_two_parties_agree.
