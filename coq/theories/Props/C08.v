(* C08  Child SA keying material follows RFC 7296 section 2.17, for every derivation of every history. *)
From IKE Require Import Lib.Base Prim.Hmac Spec.PrfPlus Impl.Security Thm.PrfPlusObj Thm.KeyDerivation.

(* for every IKE SA object state, every ESP suite (integrity possibly absent), every nonce (also empty):
   the four keys are consecutive slices of prf+(key of Prf_d, Ni|Nr) in the order ei, ai, er, ar *)
Theorem C08_child_keys :
  forall (digest : halg -> bytes -> bytes), (forall a x, length (digest a x) = hlen a) ->
  forall sa e i nonce,
    let le := encr_keylen e in
    let li := match i with Some a => integ_keylen a | None => 0%nat end in
    let total := child_total e i in
    let ks := prf_plus (hm digest (h_alg (sa_prf_d sa))) (h_key (sa_prf_d sa)) nonce total total in
    exists o',
      generate_key_for_childsa digest sa e i nonce =
        (Ok (slice 0 le ks, slice le (le + li) ks, slice (le + li) (le + li + le) ks, slice (le + li + le) total ks),
         set_prf_d sa o')
      /\ same_key (sa_prf_d sa) o'.
Proof. exact childsa_keys_correct. Qed.
Print Assumptions C08_child_keys.

(* every Child SA derived after any sequence of earlier derivations on the same object - no bound on the
   length - receives the keys the object gives before any of them (a freshly constructed copy) *)
Theorem C08_any_history :
  forall (digest : halg -> bytes -> bytes), (forall a x, length (digest a x) = hlen a) ->
  forall sa (h : list derivation) e i nonce,
    fst (generate_key_for_childsa digest (fold_left (derive_step digest) h sa) e i nonce) =
    fst (generate_key_for_childsa digest sa e i nonce).
Proof. exact child_keys_after_any_history. Qed.
Print Assumptions C08_any_history.
