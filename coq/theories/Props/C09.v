(* C09  MODP groups 2/14: RFC primes, agreement, fixed-length output, sound exponents.
   The primes of the *source* are tied to Spec/Modp.v by gen/SrcAgree.v (regenerated from /repo on every run). *)
From Coq Require Import ZArith.
From IKE Require Import Lib.Base Spec.Modp Impl.Security Impl.Dh Thm.DhThm.
Local Open Scope Z_scope.

(* the moduli are the RFC 2409 / RFC 3526 primes: the RFCs' closed formula with the floor of 2^k pi *)
Theorem C09_primes_are_the_rfc_formula :
  dh_prime DH_1024_BIT_MODP = 2 ^ 1024 - 2 ^ 960 - 1 + 2 ^ 64 * (pi_floor_894 + 129093) /\
  dh_prime DH_2048_BIT_MODP = 2 ^ 2048 - 2 ^ 1984 - 1 + 2 ^ 64 * (pi_floor_1918 + 124476).
Proof. exact (conj group2_formula group14_formula). Qed.
Print Assumptions C09_primes_are_the_rfc_formula.

(* for ALL exponents x and base values (no bound): the result is base^x mod p as a big-endian string of exactly the
   modulus length (leading zeros preserved) *)
Theorem C09_public_value :
  forall g x, exists b, dh_public g x = Ok b /\ length b = dh_len g /\ Z.of_N (be_val b) = 2 ^ x mod dh_prime g.
Proof. exact dh_public_correct. Qed.
Print Assumptions C09_public_value.

Theorem C09_shared_secret :
  forall g x peer, exists b, dh_shared g x peer = Ok b /\ length b = dh_len g /\
                             Z.of_N (be_val b) = Z.of_N (be_val peer) ^ x mod dh_prime g.
Proof. exact dh_shared_correct. Qed.
Print Assumptions C09_shared_secret.

Theorem C09_agreement :
  forall g a b pa pb, 0 <= a -> 0 <= b -> dh_public g a = Ok pa -> dh_public g b = Ok pb ->
    dh_shared g a pb = dh_shared g b pa.
Proof. exact dh_agreement. Qed.
Print Assumptions C09_agreement.

(* generated exponents: in [2^128, 2^2048 - 2], and equal to the big-endian value of 256 consecutive octets of the
   random source (so two calls return different exponents iff the source returned different octets); a failing
   source gives an error (the only non-Ok outcomes of draw are Err), never a key *)
Theorem C09_exponent_range :
  forall fuel s x s', generate_random_number fuel s = (Ok x, s') -> (2 ^ 128 <= x < 2 ^ 2048 - 1)%N.
Proof. exact generate_random_number_range. Qed.
Print Assumptions C09_exponent_range.

Theorem C09_exponent_provenance :
  forall fuel s x s', generate_random_number fuel s = (Ok x, s') ->
  exists pre b, length b = 256%nat /\ x = be_val b /\
                exists post, map (@Some byte) b ++ post = skipn pre s /\ s' = post.
Proof. exact generate_random_number_provenance. Qed.
Print Assumptions C09_exponent_provenance.
