(* C10  AES-CBC transform: inverse, size law, fresh IVs, bad keys and inputs refused.
   The AES block function and its inverse are parameters (crypto/aes); CBC, the padding rule, the IV placement
   and the checks of Decrypt are the Coq definitions.  block_hyps = |E k b| = 16, D k (E k b) = b on 16-octet
   blocks, |D k b| = 16 (monitored on every oracle answer by the harness). *)
From IKE Require Import Lib.Base Prim.Cbc Impl.Security Thm.CbcThm Thm.C10Hist.

(* for every key, every plaintext, every random source: if a ciphertext is produced then
   - the source was consumed as (pad octets | 16 IV octets) and the IV of the ciphertext is exactly those 16 octets
     (no caching, no counter: over a history of calls the IVs are successive disjoint windows of the source),
   - the ciphertext is IV | textbook-CBC(plaintext | pad | pad length), its length 16 + 16k with n < 16k <= n + 16,
   - decrypting it returns the plaintext *)
Theorem C10_encrypt :
  forall aes_enc aes_dec, block_hyps aes_enc aes_dec ->
  forall key p s ct s2, aes_encrypt aes_enc key p s = (Ok ct, s2) ->
    exists padr iv,
      s = map (@Some byte) padr ++ map (@Some byte) iv ++ s2 /\ length padr = pad_of p /\ length iv = 16%nat /\
      let padded := p ++ firstn (pad_of p - 1) padr ++ [n2b (N.of_nat (pad_of p - 1))] in
      ct = iv ++ cbc_enc (aes_enc key) (length padded / 16) iv padded /\
      length padded = (length p + pad_of p)%nat /\
      length ct = (16 + length p + pad_of p)%nat /\ (1 <= pad_of p <= 16)%nat /\ ((length p + pad_of p) mod 16 = 0)%nat /\
      aes_decrypt aes_dec key ct = Ok p.
Proof. exact aes_encrypt_spec. Qed.
Print Assumptions C10_encrypt.

(* a failure of the random source at any consumed position yields an error instead of a ciphertext *)
Theorem C10_failing_source :
  forall aes_enc key p s,
    (exists k, (k < pad_of p + 16)%nat /\ (nth_error s k = Some None \/ nth_error s k = None)) ->
    fst (aes_encrypt aes_enc key p s) = Err.
Proof. exact aes_encrypt_fault. Qed.
Print Assumptions C10_failing_source.

(* decryption of ANY byte string never crashes; too short or misaligned input is an error *)
Theorem C10_decrypt_total :
  forall aes_enc aes_dec, block_hyps aes_enc aes_dec ->
  forall key ct, aes_decrypt aes_dec key ct <> Fault /\ aes_decrypt aes_dec key ct <> OutOfFuel.
Proof. exact aes_decrypt_no_fault. Qed.
Print Assumptions C10_decrypt_total.

Theorem C10_decrypt_rejects :
  forall aes_dec key ct, (length ct < 32)%nat \/ (length ct mod 16 <> 0)%nat -> aes_decrypt aes_dec key ct = Err.
Proof. exact aes_decrypt_rejects. Qed.
Print Assumptions C10_decrypt_rejects.

(* keys of any size other than the negotiated one are refused - for every length, not only 0..64 *)
Theorem C10_key_size :
  forall e key, (exists k, new_crypto e key = Ok k) <-> length key = encr_keylen e.
Proof. exact new_crypto_iff. Qed.
Print Assumptions C10_key_size.

(* all call sequences on one cipher object: for every list of plaintexts and every random source, if every call of the
   history returns a ciphertext then the source was consumed in successive disjoint windows (pad octets | IV), one per
   call, the i-th ciphertext begins with the IV of the i-th window and has the size the size law gives, and every
   ciphertext of the history decrypts to its own plaintext (no IV kept or repeated, no result invalidated by a later call) *)
Theorem C10_call_sequences :
  forall aes_enc aes_dec, block_hyps aes_enc aes_dec ->
  forall key ps s cts s',
    enc_history aes_enc key ps s = (map (@Ok bytes) cts, s') ->
    exists wins,
      length wins = length ps /\
      s = map (@Some byte) (concat wins) ++ s' /\
      Forall2 (fun pc win => call_ok aes_dec key (fst pc) (snd pc) win) (combine ps cts) wins /\
      length cts = length ps.
Proof. exact enc_history_spec. Qed.
Print Assumptions C10_call_sequences.

Theorem C10_history_ciphertexts_stay_valid :
  forall aes_enc aes_dec, block_hyps aes_enc aes_dec ->
  forall key ps s cts s',
    enc_history aes_enc key ps s = (map (@Ok bytes) cts, s') ->
    Forall (fun pc => aes_decrypt aes_dec key (snd pc) = Ok (fst pc)) (combine ps cts).
Proof. exact every_ciphertext_of_a_history_still_decrypts. Qed.
Print Assumptions C10_history_ciphertexts_stay_valid.

(* the premises are satisfiable: a block function that meets block_hyps, and a history of three calls that all succeed *)
Definition toy_block (k b : bytes) : bytes := firstn 16 (b ++ repeat (n2b 0) 16).
Example toy_block_meets_block_hyps : block_hyps toy_block toy_block.
Proof.
  unfold block_hyps, toy_block. repeat split; intros.
  - rewrite firstn_length, app_length, repeat_length. lia.
  - rewrite (firstn_app_exact b _ 16 H). exact (firstn_app_exact b _ 16 H).
  - rewrite firstn_length, app_length, repeat_length. lia.
Qed.
Definition ex_history := enc_history toy_block (repeat (n2b 7) 16) [[n2b 1; n2b 2; n2b 3]; []; repeat (n2b 9) 16]
                           (map (@Some byte) (map n2b (map N.of_nat (seq 0 100)))).
Definition ex_cts : list bytes := Eval vm_compute in map (fun r => match r with Ok c => c | _ => [] end) (fst ex_history).
Example a_history_of_three_calls_succeeds :
  ex_history = (map (@Ok bytes) ex_cts, snd ex_history) /\ length ex_cts = 3%nat /\ length (snd ex_history) = 7%nat.
Proof. vm_compute. repeat split; reflexivity. Qed.
