(* C10  AES-CBC transform: inverse, size law, fresh IVs, bad keys and inputs refused.
   The AES block function and its inverse are parameters (crypto/aes); CBC, the padding rule, the IV placement
   and the checks of Decrypt are the Coq definitions.  block_hyps = |E k b| = 16, D k (E k b) = b on 16-octet
   blocks, |D k b| = 16 (monitored on every oracle answer by the harness). *)
From IKE Require Import Lib.Base Prim.Cbc Impl.Security Thm.CbcThm.

(* for every key, every plaintext, every random source: if a ciphertext is produced then
   - the source was consumed as (pad octets | 16 IV octets) and the IV of the ciphertext is exactly those 16 octets
     (no caching, no counter: over a history of calls the IVs are successive disjoint windows of the source),
   - the ciphertext is IV | textbook-CBC(plaintext | pad | pad length), its length 16 + 16k with n < 16k <= n + 16,
   - decrypting it returns the plaintext *)
Theorem C10_encrypt :
  forall aes_enc aes_dec, block_hyps aes_enc aes_dec ->
  forall key p s ct s2, aes_encrypt aes_enc key p s = (Ok ct, s2) ->
    exists padr iv,
      s = map (@Some byte) padr ++ map (@Some byte) iv ++ s2 /\ length padr = pad_of p /\ length iv = 16%nat /\
      let padded := p ++ firstn (pad_of p - 1) padr ++ [n2b (N.of_nat (pad_of p - 1))] in
      ct = iv ++ cbc_enc (aes_enc key) (length padded / 16) iv padded /\
      length padded = (length p + pad_of p)%nat /\
      length ct = (16 + length p + pad_of p)%nat /\ (1 <= pad_of p <= 16)%nat /\ ((length p + pad_of p) mod 16 = 0)%nat /\
      aes_decrypt aes_dec key ct = Ok p.
Proof. exact aes_encrypt_spec. Qed.
Print Assumptions C10_encrypt.

(* a failure of the random source at any consumed position yields an error instead of a ciphertext *)
Theorem C10_failing_source :
  forall aes_enc key p s,
    (exists k, (k < pad_of p + 16)%nat /\ (nth_error s k = Some None \/ nth_error s k = None)) ->
    fst (aes_encrypt aes_enc key p s) = Err.
Proof. exact aes_encrypt_fault. Qed.
Print Assumptions C10_failing_source.

(* decryption of ANY byte string never crashes; too short or misaligned input is an error *)
Theorem C10_decrypt_total :
  forall aes_enc aes_dec, block_hyps aes_enc aes_dec ->
  forall key ct, aes_decrypt aes_dec key ct <> Fault /\ aes_decrypt aes_dec key ct <> OutOfFuel.
Proof. exact aes_decrypt_no_fault. Qed.
Print Assumptions C10_decrypt_total.

Theorem C10_decrypt_rejects :
  forall aes_dec key ct, (length ct < 32)%nat \/ (length ct mod 16 <> 0)%nat -> aes_decrypt aes_dec key ct = Err.
Proof. exact aes_decrypt_rejects. Qed.
Print Assumptions C10_decrypt_rejects.

(* keys of any size other than the negotiated one are refused - for every length, not only 0..64 *)
Theorem C10_key_size :
  forall e key, (exists k, new_crypto e key = Ok k) <-> length key = encr_keylen e.
Proof. exact new_crypto_iff. Qed.
Print Assumptions C10_key_size.
