(* C11  Algorithm <-> transform mapping is faithful and closed over the advertised set.
   Statements, `exact`, Print Assumptions - nothing else.  The over-the-wire clauses follow from C03/C05
   (the SA payload round trip preserves every transform field) and are in Props/C03.v. *)
From IKE Require Import Lib.Base Impl.Msg Impl.Security Impl.Dh Impl.Registry Thm.C11.
Local Open Scope N_scope.

(* every advertised algorithm converts to a transform that converts back to the same algorithm *)
Theorem C11_roundtrip :
  (forall e, encr_decode (encr_to_transform e) = Some e) /\
  (forall i, integ_decode (integ_to_transform i) = Some i) /\
  (forall p, prf_decode (prf_to_transform p) = Some p) /\
  (forall g, dh_decode (dh_to_transform g) = Some g) /\
  (forall b, esn_decode (esn_to_transform b) = Some b).
Proof. exact (conj encr_roundtrip (conj integ_roundtrip (conj prf_roundtrip (conj dh_roundtrip esn_roundtrip)))). Qed.
Print Assumptions C11_roundtrip.

(* for every transform (all 2^16 identifiers, any attribute type / value / format, present or not):
   it is mapped only to the algorithm with its identifier, and AES-CBC only with attribute type 14 and
   value = 8 x key length *)
Theorem C11_sound :
  (forall t e, encr_decode t = Some e -> t_id t = 12 /\ t_atype t = 14 /\ t_aval t = N.of_nat (encr_keylen e) * 8) /\
  (forall t i, integ_decode t = Some i -> t_id t = integ_id i) /\
  (forall t p, prf_decode t = Some p -> t_id t = prf_id p) /\
  (forall t g, dh_decode t = Some g -> t_id t = dh_id g) /\
  (forall t b, esn_decode t = Some b -> t_id t = (if b then 1 else 0)).
Proof. exact (conj encr_sound (conj integ_sound (conj prf_sound (conj dh_sound esn_sound)))). Qed.
Print Assumptions C11_sound.

Theorem C11_rfc_lengths :
  (encr_keylen AES_CBC_128, encr_keylen AES_CBC_192, encr_keylen AES_CBC_256) = (16, 24, 32)%nat /\
  (integ_keylen AUTH_HMAC_MD5_96, integ_outlen AUTH_HMAC_MD5_96) = (16, 12)%nat /\
  (integ_keylen AUTH_HMAC_SHA1_96, integ_outlen AUTH_HMAC_SHA1_96) = (20, 12)%nat /\
  (integ_keylen AUTH_HMAC_SHA2_256_128, integ_outlen AUTH_HMAC_SHA2_256_128) = (32, 16)%nat /\
  (prf_keylen PRF_HMAC_MD5, prf_keylen PRF_HMAC_SHA1, prf_keylen PRF_HMAC_SHA2_256) = (16, 20, 32)%nat.
Proof. exact rfc_lengths. Qed.
Print Assumptions C11_rfc_lengths.

(* proposals of an SA select the same algorithms again; Child SA proposals with an integrity algorithm likewise *)
Theorem C11_ike_proposal : forall a, ike_of_proposal (ike_to_proposal a) = Ok a.
Proof. exact ike_proposal_roundtrip. Qed.
Print Assumptions C11_ike_proposal.
Theorem C11_child_proposal : forall a, ca_integ a <> None -> child_of_proposal (child_to_proposal a) = Ok a.
Proof. exact child_proposal_roundtrip. Qed.
Print Assumptions C11_child_proposal.

(* building an SA from a proposal whose first transform of some mandatory type is unsupported fails *)
Theorem C11_unsupported_proposal_fails :
  forall p,
  (forall d, hd_error (p_dh p) = Some d -> dh_decode d = None) \/
  (forall e, hd_error (p_encr p) = Some e -> encr_decode e = None) \/
  (forall i, hd_error (p_integ p) = Some i -> integ_decode i = None) \/
  (forall f, hd_error (p_prf p) = Some f -> prf_decode f = None) ->
  ike_of_proposal p = Err.
Proof. exact ike_of_proposal_unsupported. Qed.
Print Assumptions C11_unsupported_proposal_fails.
