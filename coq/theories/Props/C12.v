(* C12  Re-encoding a decoded message preserves its meaning (decode/encode is stable).  PARTIAL as a theorem.
   Full statement (C12_statement below): whenever decode b = Ok m and encode m = Ok b', then decode b' = Ok m'
   with m' equal to m (NextPayload and the order of the EAP-AKA' attribute map aside) and encode m' = Ok b'.
   Proved: for every message of the encoding domain dom_msg (which contains the encodable domain of C03), one
   decode/encode step reaches a fixed point, and canonical datagrams are re-encoded byte-identically.
   Missing for the full statement: the image lemma "decode b = Ok m -> encode m = Ok b' -> dom_msg m" (the decoder
   only produces values of the domain).  The check measures it instead: every accepted and re-encodable input of
   the run is tested for membership in dom_msg with the extracted decision procedure dom_msgb (Thm/DomainB.v), and
   the instance decode(encode(decode b)) = decode b is checked on the implementation and on the model. *)
From IKE Require Import Lib.Base Impl.Msg Impl.Eap Impl.Payloads Impl.Message Spec.Wire
     Thm.EapRT Thm.RoundTrip Thm.EncodeSpec Thm.DomainB Thm.Stable.

Definition C12_statement : Prop :=
  forall b m b', decode b = Ok m -> encode m = Ok b' ->
    decode b' = Ok (norm_msg m) /\ encode (norm_msg m) = Ok b'.

Theorem C12_partial_fixed_point_on_the_domain :
  forall m, dom_msg m -> sk_consistent (m_payloads m) ->
    exists b, encode m = Ok b /\ decode b = Ok (norm_msg m) /\ encode (norm_msg m) = Ok b.
Proof. exact reencode_fixed_point. Qed.
Print Assumptions C12_partial_fixed_point_on_the_domain.

Theorem C12_canonical_datagrams_are_reencoded_identically :
  forall m0, dom_msg m0 -> sk_consistent (m_payloads m0) ->
    let b := wenc (canon_msg m0) in exists m, decode b = Ok m /\ encode m = Ok b.
Proof. exact canonical_reencode_identical. Qed.
Print Assumptions C12_canonical_datagrams_are_reencoded_identically.

(* the domain is decidable: the harness evaluates this on every decoded message of a run *)
Theorem C12_domain_decision_sound :
  forall m, dom_msgb m = true -> dom_msg m /\ sk_consistent (m_payloads m).
Proof. exact dom_msgb_ok. Qed.
Print Assumptions C12_domain_decision_sound.
