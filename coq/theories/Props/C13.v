(* C13  Unsupported payloads: skipped when not critical, message rejected when critical.
   A chain is a list of wire payloads (Spec/Wire.v); WOther ty body is a payload of a type the library does not
   implement (supported ty = false: 0..32 and 49..255). *)
From IKE Require Import Lib.Base Impl.Msg Impl.Eap Impl.Payloads Impl.Message Spec.Wire
     Thm.EapRT Thm.RoundTrip Thm.Unsupported.
Local Open Scope N_scope.

(* no critical unsupported payload (wf_wpayload): the chain decodes exactly as the same chain without the unsupported
   payloads (erase_chain drops them) - any number of them, at any positions, any body; the critical flag and the
   reserved flag bits on implemented payload types are ignored (wpl_critical, wpl_res arbitrary there); sk_is_last: an
   Encrypted payload, if present, is the last one (RFC 7296 3.14) *)
Theorem C13_non_critical_unsupported_payloads_are_skipped :
  forall l fuel last first ps,
    last < 256 -> Forall wf_wpayload l -> sk_is_last l -> erase_chain eap_of last l = Some ps ->
    (length (wenc_chain last l) < fuel)%nat -> first = chain_next last l ->
    container_decode fuel first (wenc_chain last l) = Ok ps.
Proof. exact chain_rt. Qed.
Print Assumptions C13_non_critical_unsupported_payloads_are_skipped.

(* a critical unsupported payload anywhere in the chain: decoding fails with an error *)
Theorem C13_critical_unsupported_payload_is_rejected :
  forall l fuel last first,
    last < 256 -> Forall wf_wpayload_nc l -> Exists critical_unsupported l ->
    (length (wenc_chain last l) < fuel)%nat -> first = chain_next last l ->
    container_decode fuel first (wenc_chain last l) = Err.
Proof. exact chain_critical. Qed.
Print Assumptions C13_critical_unsupported_payload_is_rejected.

Example C13_skip_example :
  erase_chain eap_of 0 [mkWPl false 5 (WOther 7 [x01]); mkWPl true 0 (WNonce [x02]); mkWPl false 0 (WOther 200 [])]
  = Some [PNonce [x02]].
Proof. reflexivity. Qed.
