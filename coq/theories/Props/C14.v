(* C14  EAP codec round trip and RFC 3748/4187/5448 framing incl. EAP-AKA' attributes. *)
From Coq Require Import Permutation.
From IKE Require Import Lib.Base Impl.Msg Impl.Eap Thm.EapRT.
Local Open Scope N_scope.

(* decoding the encoding of an EAP packet returns the same code, identifier and method data - for all codes and
   identifiers, Identity / Notification / Nak (>= 1 octet), Expanded (24-bit vendor id, 32-bit vendor type, any data),
   EAP-AKA' with any set of well-formed attributes under distinct types; the attribute map comes back sorted by type
   (norm_eap), i.e. equal as a map *)
Theorem C14_roundtrip :
  forall e b, dom_eap e -> eap_marshal e = Ok b -> len b < 65536 -> eap_unmarshal b = Ok (norm_eap e).
Proof. exact eap_rt. Qed.
Print Assumptions C14_roundtrip.

(* the encoding is a function of the attribute *map*: any iteration order of the Go map (any permutation of the
   association list) gives the same octets - encoding the same unmodified message twice gives identical bytes *)
Theorem C14_map_order_irrelevant :
  forall st rs l l', Permutation l l' -> NoDup (map at_type l) -> aka_marshal st rs l = aka_marshal st rs l'.
Proof. exact aka_marshal_perm_invariant. Qed.
Print Assumptions C14_map_order_irrelevant.

(* the setter: accepted sizes give an attribute holding exactly the value, in a form that decodes back;
   a value read back after SetAttr is the value set *)
Theorem C14_setter_accepts :
  forall t v, settable_size t (length v) = true ->
    exists a, aka_mk_attr t v = Ok a /\ at_type a = t /\ at_val a = v /\ wf_akattr a.
Proof. exact aka_mk_attr_ok. Qed.
Print Assumptions C14_setter_accepts.

Theorem C14_get_after_set :
  forall l t v, settable_size t (length v) = true ->
    exists l' a, aka_set_attr l t v = Ok l' /\ aka_get l' t = Ok a /\ at_val a = v.
Proof. exact aka_get_after_set. Qed.
Print Assumptions C14_get_after_set.

(* the setter refuses wrong sizes for RAND, AUTN, MAC (16), KDF (2), RES (4..16) - for every size, not 0..300 *)
Theorem C14_setter_refuses :
  forall t v,
  (((t = 11 \/ t = 1 \/ t = 2) /\ length v <> 16%nat) \/ (t = 24 /\ length v <> 2%nat) \/
   (t = 3 /\ (length v < 4 \/ 16 < length v)%nat)) -> aka_mk_attr t v = Err.
Proof. exact aka_mk_attr_refuses. Qed.
Print Assumptions C14_setter_refuses.

(* framing: every attribute occupies exactly 4 x (its length field) octets *)
Theorem C14_attribute_framing : forall a, wf_akattr a -> len (aka_attr_bytes a) = 4 * at_len a.
Proof. exact aka_attr_bytes_length. Qed.
Print Assumptions C14_attribute_framing.
