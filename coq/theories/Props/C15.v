(* C15  EAP-AKA' AT_MAC is HMAC-SHA-256-128 over the packet as sent; both ends agree.   PARTIAL (one clause refuted).
   at_mac_spec (Spec/AkaMac.v) is the RFC 4187 / 5448 definition over the octets of the packet: first 16 octets of
   HMAC-SHA-256 (hmac of Prim/Hmac.v, RFC 2104; SHA-256 is a parameter of which only the output length is assumed)
   under K_aut - of ANY length - over the packet with the 16 value octets of AT_MAC zeroed.
   Proved for every packet the API can build (dom_eap: any identifier, subtype, attribute subset, values with and
   without padding) - sender side, independence from the old AT_MAC value, receiver agreement for packets in the
   library's own wire form, and injectivity of the HMAC input.
   Refuted (C15_receiver_any_order_refuted): agreement for well-formed packets of an independent encoder whose
   attributes are not in ascending type order (likewise non-zero reserved or padding octets): the receiver computes
   the code over a re-serialisation of the decoded packet.  This is the known finding listed in known_findings.txt.
   "A different value if any octet differs" is a property of HMAC-SHA-256, not of this code: what is proved is that
   the HMAC input determines every octet of the packet but the AT_MAC value. *)
From IKE Require Import Lib.Base Prim.Hmac Impl.Msg Impl.Eap Spec.AkaMac Thm.EapRT Thm.C15.
Local Open Scope N_scope.

(* sender: the code computed for a packet - whatever AT_MAC holds (v) or whether it is present at all - is the
   specification applied to the octets that are then sent (with any 16-octet value in AT_MAC) *)
Theorem C15_code_is_the_RFC_mac_of_the_packet_as_sent :
  forall (sha256 : bytes -> bytes), (forall x, length (sha256 x) = 32%nat) ->
  forall e key v wire,
    dom_eap e -> is_aka e -> length v = 16%nat -> eap_marshal (with_mac v e) = Ok wire -> len wire < 65536 ->
    exists e', calc_at_mac sha256 (with_mac v e) key = Ok (at_mac_spec sha256 key wire, e') /\
               calc_at_mac sha256 e key = Ok (at_mac_spec sha256 key wire, e').
Proof. exact calc_at_mac_spec. Qed.
Print Assumptions C15_code_is_the_RFC_mac_of_the_packet_as_sent.

(* receiver: decoding the transmitted packet and computing the code with the same key gives the transmitted value *)
Theorem C15_partial_receiver_agrees_on_library_built_packets :
  forall (sha256 : bytes -> bytes), (forall x, length (sha256 x) = 32%nat) ->
  forall e key v wire,
    dom_eap e -> is_aka e -> length v = 16%nat -> eap_marshal (with_mac v e) = Ok wire -> len wire < 65536 ->
    exists e' e'', eap_unmarshal wire = Ok e' /\ calc_at_mac sha256 e' key = Ok (at_mac_spec sha256 key wire, e'').
Proof. exact receiver_agrees. Qed.
Print Assumptions C15_partial_receiver_agrees_on_library_built_packets.

Theorem C15_mac_input_determines_the_packet_up_to_AT_MAC :
  forall e1 e2 b,
    dom_eap e1 -> dom_eap e2 -> is_aka e1 -> is_aka e2 ->
    eap_marshal (with_mac (zeros 16) e1) = Ok b -> eap_marshal (with_mac (zeros 16) e2) = Ok b -> len b < 65536 ->
    norm_eap (with_mac (zeros 16) e1) = norm_eap (with_mac (zeros 16) e2).
Proof. exact mac_input_determines_packet. Qed.
Print Assumptions C15_mac_input_determines_the_packet_up_to_AT_MAC.

(* the receiver clause at full strength is false of the code: a well-formed packet with AT_MAC before AT_RAND is
   decoded, but the octets the receiver feeds to HMAC are not the received ones with the MAC zeroed *)
Theorem C15_receiver_any_order_refuted :
  exists wire e', eap_unmarshal wire = Ok e' /\ eap_marshal (with_mac (zeros 16) e') <> Ok (zero_mac wire).
Proof. exact receiver_any_order_refuted. Qed.
Print Assumptions C15_receiver_any_order_refuted.

Example C15_premises_satisfiable :
  dom_eap (mkEap 1 7 (EDAka 1 0 [mkAkAttr 1 5 0 (zeros 16); mkAkAttr 23 3 40 [x01; x02; x03; x04; x05]])) /\
  is_aka (mkEap 1 7 (EDAka 1 0 [mkAkAttr 1 5 0 (zeros 16); mkAkAttr 23 3 40 [x01; x02; x03; x04; x05]])).
Proof.
  split; [|exact I]. unfold dom_eap. cbn [e_code e_id e_data dom_eapdata]. split; [lia|]. split; [lia|]. split; [lia|]. split; [lia|]. split.
  - apply Forall_cons; [|apply Forall_cons; [|apply Forall_nil]]; unfold wf_akattr, len; cbn; repeat split; try lia; vm_compute; try reflexivity; intros Hq; discriminate Hq.
  - cbn. apply NoDup_cons; [|apply NoDup_cons; [|apply NoDup_nil]]; cbn; intuition discriminate.
Qed.
