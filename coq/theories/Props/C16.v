(* C16  EAP-AKA' key hierarchy follows PRF' of RFC 5448 / RFC 9048.
   Statement, `exact`, Print Assumptions - nothing else. *)
From IKE Require Import Lib.Base Prim.Hmac Spec.PrfPlus Impl.EapAkaPrf Thm.C16.

(* For every digest with 32-octet output (SHA-256 is a parameter: Go's standard library),
   every non-empty IK', CK' and every identity (arbitrary octets):
   K_encr, K_aut, K_re, MSK, EMSK are octets 0-15, 16-47, 48-79, 80-143, 144-207 of
   PRF'(IK'|CK', "EAP-AKA'"|Identity), PRF' being T1 | T2 | ... with
   T1 = HMAC-SHA-256 (K, S|0x01), Tn = HMAC-SHA-256 (K, Tn-1|S|n). *)
Theorem C16_keys_are_slices_of_prf_prime :
  forall (sha256 : bytes -> bytes), (forall x, length (sha256 x) = 32%nat) ->
  forall ik ck id, ik <> [] -> ck <> [] ->
    let mk := stream (hmac sha256 64) (ik ++ ck) (eap_aka_label ++ id) 7 in
    eap_aka_prime_prf sha256 ik ck id =
      Ok (slice 0 16 mk, slice 16 48 mk, slice 48 80 mk, slice 80 144 mk, slice 144 208 mk).
Proof. exact prf_correct. Qed.
Print Assumptions C16_keys_are_slices_of_prf_prime.

Theorem C16_empty_key_refused :
  forall (sha256 : bytes -> bytes) ik ck id,
    ik = [] \/ ck = [] -> eap_aka_prime_prf sha256 ik ck id = Err.
Proof. exact prf_empty. Qed.
Print Assumptions C16_empty_key_refused.
