(* C17  SA key objects are reusable: each operation behaves as on a fresh SA.
   State machine of Thm/C17.v: state = one IKESAKey object INCLUDING the internal buffers of its stateful HMAC
   objects (a missing Reset would leave a buffer behind and change the next MAC in this model); operations =
   protect (any message, either role, any random-source outcome), unprotect (ANY octets, so genuine, tampered,
   truncated, garbage), derive a Child SA.  Histories are unbounded lists of operations. *)
From IKE Require Import Lib.Base Prim.Hmac Prim.Cbc Impl.Msg Impl.Eap Impl.Payloads Impl.Message Impl.Security Impl.Ike
     Thm.EncodeSpec Thm.CbcThm Thm.NoFaultSK Thm.SKThm Thm.C17.
Local Open Scope N_scope.

(* after any history the next operation returns what it returns on a fresh object holding the same keys
   (output = returned octets and remaining random source / returned message and cipher calls / derived keys) *)
Theorem C17_next_operation_as_on_a_fresh_object :
  forall (digest : halg -> bytes -> bytes) (aes_enc aes_dec : bytes -> bytes -> bytes),
  (forall a x, length (digest a x) = hlen a) ->
  forall sa fresh ops o, sa_wf sa -> sa_wf fresh -> sa_eqk sa fresh ->
    snd (step digest aes_enc aes_dec (run digest aes_enc aes_dec sa ops) o) = snd (step digest aes_enc aes_dec fresh o).
Proof. exact next_op_as_on_fresh. Qed.
Print Assumptions C17_next_operation_as_on_a_fresh_object.

(* ... and so does every continuation: whole output traces coincide *)
Theorem C17_every_continuation_as_on_a_fresh_object :
  forall (digest : halg -> bytes -> bytes) (aes_enc aes_dec : bytes -> bytes -> bytes),
  (forall a x, length (digest a x) = hlen a) ->
  forall ops2 sa fresh ops, sa_wf sa -> sa_wf fresh -> sa_eqk sa fresh ->
    trace digest aes_enc aes_dec (run digest aes_enc aes_dec sa ops) ops2 = trace digest aes_enc aes_dec fresh ops2.
Proof. exact trace_as_on_fresh. Qed.
Print Assumptions C17_every_continuation_as_on_a_fresh_object.

(* messages protected after any history are accepted by a fresh peer, and a fresh peer's messages are accepted *)
Theorem C17_protected_after_history_is_accepted_by_a_fresh_peer :
  forall (digest : halg -> bytes -> bytes) (aes_enc aes_dec : bytes -> bytes -> bytes),
  (forall a x, length (digest a x) = hlen a) -> block_hyps aes_enc aes_dec ->
  forall sa peer ops role m s b sa' s',
    sa_wf sa -> sa_wf peer -> sa_eqk sa peer -> dom_msg m -> sk_consistent (m_payloads m) ->
    encode_encrypt digest aes_enc m (Some (run digest aes_enc aes_dec sa ops)) role s = (Ok b, sa', s') ->
    exists k', decode_decrypt digest aes_dec b None (Some peer) (negb role) =
      (Ok (mkMsg (set_next (m_hdr m) 46) (map norm_payload (m_payloads m))), Some k', [CDec role]).
Proof. exact protected_after_history_accepted. Qed.
Print Assumptions C17_protected_after_history_is_accepted_by_a_fresh_peer.

Theorem C17_fresh_peer_is_accepted_after_history :
  forall (digest : halg -> bytes -> bytes) (aes_enc aes_dec : bytes -> bytes -> bytes),
  (forall a x, length (digest a x) = hlen a) -> block_hyps aes_enc aes_dec ->
  forall sa peer ops role m s b sa' s',
    sa_wf sa -> sa_wf peer -> sa_eqk sa peer -> dom_msg m -> sk_consistent (m_payloads m) ->
    encode_encrypt digest aes_enc m (Some peer) role s = (Ok b, sa', s') ->
    exists k', decode_decrypt digest aes_dec b None (Some (run digest aes_enc aes_dec sa ops)) (negb role) =
      (Ok (mkMsg (set_next (m_hdr m) 46) (map norm_payload (m_payloads m))), Some k', [CDec role]).
Proof. exact fresh_peer_accepted_after_history. Qed.
Print Assumptions C17_fresh_peer_is_accepted_after_history.
