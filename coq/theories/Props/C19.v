(* C19  Constructors and builders yield exactly the specified payloads, 3GPP ones too.
   Statements, `exact`, Print Assumptions.  The layouts on the right-hand sides are transcribed from
   RFC 7296 3.1 and 3GPP TS 24.502 9.3.1 / 9.3.2; "oversize composed with Encode is an error, never a
   truncated field" is the error branch of the encoders (Props/C03.v, encode_total). *)
From IKE Require Import Lib.Base Impl.Msg Impl.Build Thm.C19.
Local Open Scope N_scope.

Theorem C19_new_header :
  forall ispi rspi exch (r i : bool) mid nxt,
  let h := new_header ispi rspi exch r i mid nxt in
  h_major h = 2 /\ h_minor h = 0 /\ h_ispi h = ispi /\ h_rspi h = rspi /\ h_exch h = exch /\ h_mid h = mid /\
  h_next h = nxt /\ h_flags h = (if r then 32 else 0) + (if i then 8 else 0) /\
  is_response h = r /\ is_initiator h = i.
Proof. exact new_header_fields. Qed.
Print Assumptions C19_new_header.

(* each builder appends exactly one payload whose fields equal its arguments; earlier payloads untouched *)
Theorem C19_builders_append_one :
  forall c,
  (forall p t s d, build_notification c p t s d = c ++ [PNotify p t s d]) /\
  (forall e d, build_certificate c e d = c ++ [PCERT e d]) /\
  (forall n d, build_encrypted c n d = c ++ [PSK n d]) /\
  (forall g d, build_key_exchange c g d = c ++ [PKE g d]) /\
  (forall t d, build_idi c t d = c ++ [PIDi t d]) /\
  (forall t d, build_idr c t d = c ++ [PIDr t d]) /\
  (forall t d, build_auth c t d = c ++ [PAUTH t d]) /\
  (forall t, build_configuration c t = c ++ [PCP t []]) /\
  (forall d, build_nonce c d = c ++ [PNonce d]) /\
  (build_tsi c = c ++ [PTSi []]) /\ (build_tsr c = c ++ [PTSr []]) /\ (build_sa c = c ++ [PSA []]) /\
  (forall p s n l, build_delete c p s n l = c ++ [PDelete p s n l]) /\
  (forall code id, build_eap c code id = c ++ [PEAP (mkEap code id EDNone)]) /\
  (forall id, build_eap_success c id = c ++ [PEAP (mkEap 3 id EDNone)]) /\
  (forall id, build_eap_failure c id = c ++ [PEAP (mkEap 4 id EDNone)]) /\
  (* TS 24.502 9.3.2.2.1: EAP-Request/5G-Start, vendor 10415, vendor type 3, message id 1, spare 0 *)
  (forall id, build_eap5g_start c id = c ++ [PEAP (mkEap 1 id (EDExpanded 10415 3 [x01; x00]))]) /\
  (forall a, build_notify_nas_ip4 c (Some a) = c ++ [PNotify 0 55502 [] a]) /\ build_notify_nas_ip4 c None = c /\
  (forall a, build_notify_up_ip4 c (Some a) = c ++ [PNotify 0 55504 [] a]) /\ build_notify_up_ip4 c None = c /\
  (forall p, p <> 0 -> build_notify_nas_tcp_port c p = c ++ [PNotify 0 55506 [] (be16 p)]) /\ build_notify_nas_tcp_port c 0 = c.
Proof.
  intros c. repeat split; try reflexivity.
  intros p Hp. unfold build_notify_nas_tcp_port. destruct (p =? 0) eqn:E; [apply N.eqb_eq in E; congruence|reflexivity].
Qed.
Print Assumptions C19_builders_append_one.

(* TS 24.502 9.3.2.2.2: EAP-Request/5G-NAS: message id 2, spare, NAS-PDU length (16 bit), NAS-PDU; oversize is an error *)
Theorem C19_eap5g_nas :
  forall c id nas,
  ((0 < length nas)%nat -> len nas <= 65535 ->
   build_eap5g_nas c id nas = Ok (c ++ [PEAP (mkEap 1 id (EDExpanded 10415 3 ([x02; x00] ++ be16 (len nas) ++ nas)))])) /\
  (length nas = 0%nat \/ 65535 < len nas -> build_eap5g_nas c id nas = Err).
Proof. exact (fun c id nas => conj (build_eap5g_nas_spec c id nas) (build_eap5g_nas_oversize c id nas)). Qed.
Print Assumptions C19_eap5g_nas.

(* TS 24.502 9.3.1.1 5G_QOS_INFO: length, PDU session id, number of QFIs, QFI list, flags (DCSI = 2, DSCPI = 1), optional DSCP *)
Theorem C19_qos_info :
  forall c pdu qfis (d s : bool) dscp,
  (len qfis <= 255 -> 4 + len qfis + (if s then 1 else 0) <= 255 ->
   build_notify_5g_qos_info c pdu qfis d s dscp =
     Ok (c ++ [PNotify 0 55501 []
                (n2b (4 + len qfis + (if s then 1 else 0)) ::
                 [n2b pdu; n2b (len qfis)] ++ qfis ++ [n2b ((if d then 2 else 0) + (if s then 1 else 0))] ++ (if s then [n2b dscp] else []))])) /\
  (255 < len qfis \/ 255 < 4 + len qfis + (if s then 1 else 0) -> build_notify_5g_qos_info c pdu qfis d s dscp = Err).
Proof. exact (fun c pdu qfis d s dscp => conj (build_qos_spec c pdu qfis d s dscp) (build_qos_oversize c pdu qfis d s dscp)). Qed.
Print Assumptions C19_qos_info.

(* sub-element builders *)
Theorem C19_sub_builders :
  (forall c t v, build_cp_attr c t v = c ++ [mkCpAttr t v]) /\
  (forall c ty p sp ep sa ea, build_selector c ty p sp ep sa ea = c ++ [mkSelector ty p sp ep sa ea]) /\
  (forall c n p s, build_proposal c n p s = c ++ [mkProposal n p s [] [] [] [] []]) /\
  (forall c ty id, build_transform c ty id None None [] = c ++ [mkTransform ty id false 0 0 0 []]) /\
  (forall c ty id at' av var, build_transform c ty id (Some at') (Some av) var = c ++ [mkTransform ty id true 1 at' av []]) /\
  (forall c ty id at' var, var <> [] -> build_transform c ty id (Some at') None var = c ++ [mkTransform ty id true 0 at' 0 var]).
Proof.
  repeat split; try reflexivity.
  intros c ty id at' var H. unfold build_transform. destruct var; [congruence|reflexivity].
Qed.
Print Assumptions C19_sub_builders.

(* the tie to the CURRENT source, regenerated by tools/srcfacts on every run: every constant of the Go code that the
   model uses as a literal (EAP codes and types, AKA' attribute types, transform and selector types, header flag bits,
   3GPP vendor id / notify types / EAP-5G ids) has the value the model uses *)
From IKEGen Require Import SrcFacts AgreeBase AgreeConsts.
From IKE Require Import Impl.Msg Impl.Security Spec.Modp Impl.Dh Impl.Registry.
From Coq Require Import String ZArith. 
Theorem C19_source_constants_are_the_models :
  forallb (fun nv => match lookup (fst nv) src_consts with Some v => Z.eqb v (snd nv) | None => false end) model_consts = true.
Proof. exact src_consts_agree. Qed.
