(* C20  Decoded messages own their data; encoding is pure and deterministic.      Memory clause PARTIAL.
   A Gallina function has no aliasing, so the memory clause is decided in two steps.
   (1) From the CURRENT source (tools/srcfacts, gen/AgreeOwn.v): wherever octets of a []byte parameter of any function
       of the library can end up in a field or a returned value, the field receives a copy (append onto the field /
       make + copy); the only views are the documented IKEHeader.PayloadBytes (ParseHeader, NewHeader) and the
       plaintext buffer inside the encryption path; no decoder writes through its input; no Marshal / Encode method
       assigns a field of a payload (IKEMessage.Encode writes header bookkeeping only); encryptMsg / decryptMsg assign
       nothing of the message but its payload list.
   (2) Thm/Own.v: in a heap of arrays, slices that do not live in array a read the same octets after ANY history of
       writes to a - overwriting or reusing the receive buffer, or scribbling over a returned buffer; a view does not.
   In the model: plain encoding is a function of the message value and does not depend on the enumeration order of the
   EAP-AKA' attribute map (Go's only source of nondeterminism here); protection replaces the payload list by one
   Encrypted payload and changes nothing of the header but NextPayload.
   Not modelled, hence partial: Go's allocator and append's capacity behaviour (whether two "copies" could share an
   array); the harness observes aliasing exactly (address ranges of every decoded field against the input buffer and of
   every returned buffer against the message) and scribbles, as the search for a failing input. *)
From Coq Require Import List String.
From IKE Require Import Lib.Base Prim.Hmac Prim.Cbc Impl.Msg Impl.Eap Impl.Payloads Impl.Message Impl.Security Impl.Ike Thm.Own Thm.C20.
From IKEGen Require Import SrcFacts AgreeBase AgreeOwn.
Import ListNotations.

Theorem C20_source_decoded_fields_are_copies : forallb flow_ok src_slice_flows = true.
Proof. exact src_decoded_fields_are_copies. Qed.
Print Assumptions C20_source_decoded_fields_are_copies.

Theorem C20_source_encoding_alters_only_header_bookkeeping : forallb encoder_write_ok src_field_writes = true.
Proof. exact src_encoding_alters_only_header_bookkeeping. Qed.
Print Assumptions C20_source_encoding_alters_only_header_bookkeeping.

Theorem C20_source_protection_alters_only_the_payload_list :
  forallb (fun w => let '(f, path, _) := w in
             negb (String.eqb f "ike.encryptMsg" || String.eqb f "ike.decryptMsg" || String.eqb f "ike.EncodeEncrypt" || String.eqb f "ike.DecodeDecrypt")
             || String.eqb path "param.Payloads") src_field_writes = true.
Proof. exact src_protection_alters_only_the_payload_list. Qed.
Print Assumptions C20_source_protection_alters_only_the_payload_list.

Theorem C20_copies_survive_any_writes_to_the_input_buffer :
  forall a ws h fields, Forall (fresh_wrt a) fields -> map (read (scribble a ws h)) fields = map (read h) fields.
Proof. exact fresh_slices_survive_any_writes. Qed.
Print Assumptions C20_copies_survive_any_writes_to_the_input_buffer.

Theorem C20_a_view_does_not :
  exists h a s ws, ~ fresh_wrt a s /\ read (scribble a ws h) s <> read h s.
Proof. exact a_view_does_not_survive. Qed.

Theorem C20_encoding_does_not_depend_on_map_order :
  forall m m', m_hdr m = m_hdr m' -> Forall2 same_payload (m_payloads m) (m_payloads m') -> encode m = encode m'.
Proof. exact encode_map_order_independent. Qed.
Print Assumptions C20_encoding_does_not_depend_on_map_order.

Theorem C20_protection_touches_only_the_payload_list :
  forall (digest : halg -> bytes -> bytes) (aes_enc : bytes -> bytes -> bytes) sa role m s m' sa' s',
    encrypt_msg digest aes_enc sa role m s = (Ok m', sa', s') ->
    m_hdr m' = set_next (m_hdr m) 46 /\ exists nxt d, m_payloads m' = [PSK nxt d].
Proof. exact encrypt_msg_touches_only_the_payload_list. Qed.
Print Assumptions C20_protection_touches_only_the_payload_list.
