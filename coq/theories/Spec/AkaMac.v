(* RFC 4187 s10.15 / RFC 5448 s3.1 (AT_MAC), written over the octets of the EAP packet, independently of the Go code:
   the MAC is HMAC-SHA-256-128 under K_aut over the whole EAP packet with the value field of AT_MAC set to zero.
   An EAP-AKA' packet is  Code | Identifier | Length(2) | Type=50 | Subtype | Reserved(2) | attributes,
   an attribute is  Type | Length (in 4-octet words, including these two octets) | ... ; AT_MAC (11) is
   Type | Length=5 | Reserved(2) | MAC(16). *)
From IKE Require Import Lib.Base Prim.Hmac.
Local Open Scope N_scope.

Fixpoint zero_mac_attrs (fuel : nat) (b : bytes) : bytes :=
  match fuel with
  | O => b
  | S f =>
    match b with
    | t :: l :: rest =>
      let n := (4 * nat_of (b2n l))%nat in
      if (n <? 4)%nat then b else
      if b2n t =? 11 then t :: l :: firstn 2 rest ++ zeros (n - 4) ++ zero_mac_attrs f (skipn (n - 2) rest)
      else t :: l :: firstn (n - 2) rest ++ zero_mac_attrs f (skipn (n - 2) rest)
    | _ => b
    end
  end.

Definition zero_mac (wire : bytes) : bytes := firstn 8 wire ++ zero_mac_attrs (length wire) (skipn 8 wire).

Definition at_mac_spec (sha256 : bytes -> bytes) (k_aut wire : bytes) : bytes :=
  firstn 16 (hmac sha256 64 k_aut (zero_mac wire)).
