(* prf+ of RFC 7296 section 2.13 and PRF' of RFC 5448 / RFC 9048 section 3.4.1, written
   from the RFC text:   T1 = prf (K, S | 0x01),  Tn = prf (K, Tn-1 | S | n). *)
From IKE Require Import Lib.Base.

Section PrfPlus.
  Variable prf : bytes -> bytes -> bytes.      (* prf K data *)

  Fixpoint T (K Sd : bytes) (n : nat) : bytes :=
    match n with
    | O => []
    | S m => prf K (T K Sd m ++ Sd ++ [n2b (N.of_nat n)])
    end.

  (* T1 | T2 | ... | Tn *)
  Definition stream (K Sd : bytes) (n : nat) : bytes := concat (map (T K Sd) (seq 1 n)).

  (* the first L octets of the stream (L blocks always suffice when blocks are non-empty) *)
  Definition prf_plus (K Sd : bytes) (L : nat) : bytes := firstn L (stream K Sd L).
End PrfPlus.

Definition slice (i j : nat) (l : bytes) : bytes := firstn (j - i) (skipn i l).
