(* prf+ of RFC 7296 section 2.13 and PRF' of RFC 5448 / RFC 9048 section 3.4.1, written
   from the RFC text:   T1 = prf (K, S | 0x01),  Tn = prf (K, Tn-1 | S | n). *)
From IKE Require Import Lib.Base.

Section PrfPlus.
  Variable prf : bytes -> bytes -> bytes.      (* prf K data *)

  (* the definition as the RFC writes it *)
  Fixpoint T (K Sd : bytes) (n : nat) : bytes :=
    match n with
    | O => []
    | S m => prf K (T K Sd m ++ Sd ++ [n2b (N.of_nat n)])
    end.

  (* Ti, Ti+1, ... (n blocks) given Ti-1: the same sequence computed once *)
  Fixpoint blocks (K Sd : bytes) (n i : nat) (prev : bytes) : list bytes :=
    match n with
    | O => []
    | S m => let t := prf K (prev ++ Sd ++ [n2b (N.of_nat i)]) in t :: blocks K Sd m (S i) t
    end.

  (* T1 | T2 | ... | Tn *)
  Definition stream (K Sd : bytes) (n : nat) : bytes := concat (blocks K Sd n 1 []).

  (* the first L octets of T1 | ... | Tn *)
  Definition prf_plus (K Sd : bytes) (n L : nat) : bytes := firstn L (stream K Sd n).
End PrfPlus.

Definition slice (i j : nat) (l : bytes) : bytes := firstn (j - i) (skipn i l).
