(* RFC 7296 section 3 wire format, written from the RFC text and independently of the Go code:
   - a wire-level syntax tree (wmsg) that has every field of the datagram, including the fields the RFC
     reserves and the liberties it grants a sender (reserved octets / bits, the critical flag, transforms
     in any order inside a proposal, unsupported payload types);
   - wenc: the octets of a tree (all length fields computed from the real extents, "more" markers 2 / 3 / 0,
     next-payload chain ending in 0);
   - wparse: a strict parser, inverse of wenc (every length must equal the real extent, the header length
     must equal the datagram size);
   - erase: the message value a tree denotes (what a receiver should obtain); canon: the tree a sender
     that zeroes every reserved field emits for a message value.
   EAP packets inside the EAP payload are octet strings here (RFC 3748 framing is Spec/EapWire.v / C14). *)
From IKE Require Import Lib.Base Impl.Msg.
Local Open Scope N_scope.

(* ---------- syntax tree ---------- *)
Inductive wattr :=
| WTV (atype aval : N)                 (* AF = 1: type(15) value(16) *)
| WTLV (atype : N) (v : bytes).        (* AF = 0: type(15) length(16) value *)

Record wtransform := mkWT {
  wt_res1 : N;           (* RESERVED octet after the "last substruc" octet *)
  wt_type : N;
  wt_res2 : N;           (* RESERVED octet after the transform type *)
  wt_id : N;
  wt_attrs : list wattr  (* RFC: zero or more attributes *)
}.

Record wproposal := mkWP {
  wp_res : N;            (* RESERVED octet *)
  wp_num : N; wp_proto : N; wp_spi : bytes;
  wp_transforms : list wtransform      (* in wire order *)
}.

Record wcpattr := mkWCA { wca_r : N (* reserved bit *); wca_type : N; wca_value : bytes }.

Inductive wbody :=
| WSA (props : list wproposal)
| WKE (group : N) (res : bytes) (d : bytes)                 (* res: 2 RESERVED octets *)
| WID (initiator : bool) (idtype : N) (res : bytes) (d : bytes)   (* res: 3 RESERVED octets *)
| WCERT (enc : N) (d : bytes)
| WCERTREQ (enc : N) (d : bytes)
| WAUTH (meth : N) (res : bytes) (d : bytes)                (* res: 3 RESERVED octets *)
| WNonce (d : bytes)
| WNotify (proto : N) (ntype : N) (spi : bytes) (d : bytes)
| WDelete (proto spisize : N) (spis : list bytes)           (* each SPI spisize octets *)
| WVendor (d : bytes)
| WTS (initiator : bool) (res : bytes) (sels : list selector)   (* res: 3 RESERVED octets *)
| WSK (d : bytes)                                            (* IV | ciphertext | ICV; its next-payload octet is in the chain *)
| WCP (cfgtype : N) (res : bytes) (attrs : list wcpattr)    (* res: 3 RESERVED octets *)
| WEAP (packet : bytes)
| WOther (ty : N) (d : bytes).                               (* a payload type this library does not implement *)

Record wpayload := mkWPl {
  wpl_critical : bool;
  wpl_res : N;            (* 7 RESERVED bits *)
  wpl_body : wbody
}.

Record wheader := mkWH {
  wh_ispi : N; wh_rspi : N; wh_major : N; wh_minor : N; wh_exch : N; wh_flags : N; wh_mid : N
}.

(* sk_next: the Next Payload field of a trailing Encrypted payload names the first inner payload *)
Record wmsg := mkWM { wm_hdr : wheader; wm_payloads : list wpayload; wm_sk_next : N }.

Definition wtype (b : wbody) : N :=
  match b with
  | WSA _ => 33 | WKE _ _ _ => 34 | WID true _ _ _ => 35 | WID false _ _ _ => 36 | WCERT _ _ => 37
  | WCERTREQ _ _ => 38 | WAUTH _ _ _ => 39 | WNonce _ => 40 | WNotify _ _ _ _ => 41
  | WDelete _ _ _ => 42 | WVendor _ => 43 | WTS true _ _ => 44 | WTS false _ _ => 45 | WSK _ => 46
  | WCP _ _ _ => 47 | WEAP _ => 48 | WOther ty _ => ty
  end.

(* ---------- encoder ---------- *)
Definition wenc_attr (a : wattr) : bytes :=
  match a with
  | WTV t v => be16 (32768 + t) ++ be16 v
  | WTLV t v => be16 t ++ be16 (len v) ++ v
  end.

Definition wenc_transform (more : bool) (t : wtransform) : bytes :=
  let a := concat (map wenc_attr (wt_attrs t)) in
  [if more then x03 else x00; n2b (wt_res1 t)] ++ be16 (8 + len a)
  ++ [n2b (wt_type t); n2b (wt_res2 t)] ++ be16 (wt_id t) ++ a.

Fixpoint wenc_list {A} (f : bool -> A -> bytes) (l : list A) : bytes :=
  match l with
  | [] => []
  | x :: r => f (match r with [] => false | _ => true end) x ++ wenc_list f r
  end.

Definition wenc_proposal (more : bool) (p : wproposal) : bytes :=
  let td := wenc_list wenc_transform (wp_transforms p) in
  [if more then x02 else x00; n2b (wp_res p)] ++ be16 (8 + len (wp_spi p) + len td)
  ++ [n2b (wp_num p); n2b (wp_proto p); n2b (len (wp_spi p)); n2b (len (wp_transforms p))]
  ++ wp_spi p ++ td.

Definition wenc_selector (s : selector) : bytes :=
  [n2b (ts_type s); n2b (ts_proto s)] ++ be16 (8 + len (ts_saddr s) + len (ts_eaddr s))
  ++ be16 (ts_sport s) ++ be16 (ts_eport s) ++ ts_saddr s ++ ts_eaddr s.

Definition wenc_cpattr (a : wcpattr) : bytes :=
  be16 (wca_r a * 32768 + wca_type a) ++ be16 (len (wca_value a)) ++ wca_value a.

Definition wenc_body (b : wbody) : bytes :=
  match b with
  | WSA props => wenc_list wenc_proposal props
  | WKE g res d => be16 g ++ res ++ d
  | WID _ t res d => [n2b t] ++ res ++ d
  | WCERT e d => [n2b e] ++ d
  | WCERTREQ e d => [n2b e] ++ d
  | WAUTH m res d => [n2b m] ++ res ++ d
  | WNonce d => d
  | WNotify proto nt spi d => [n2b proto; n2b (len spi)] ++ be16 nt ++ spi ++ d
  | WDelete proto sz spis => [n2b proto; n2b sz] ++ be16 (len spis) ++ concat spis
  | WVendor d => d
  | WTS _ res sels => [n2b (len sels)] ++ res ++ concat (map wenc_selector sels)
  | WSK d => d
  | WCP ct res attrs => [n2b ct] ++ res ++ concat (map wenc_cpattr attrs)
  | WEAP pkt => pkt
  | WOther _ d => d
  end.

(* generic payload header: next payload, C + 7 reserved bits, length *)
Definition wenc_payload (next : N) (p : wpayload) : bytes :=
  let b := wenc_body (wpl_body p) in
  [n2b next; n2b ((if wpl_critical p then 128 else 0) + wpl_res p)] ++ be16 (4 + len b) ++ b.

Fixpoint wenc_chain (last_next : N) (l : list wpayload) : bytes :=
  match l with
  | [] => []
  | p :: r =>
    let next := match r with q :: _ => wtype (wpl_body q) | [] => last_next end in
    wenc_payload next p ++ wenc_chain last_next r
  end.

Definition wfirst (l : list wpayload) : N := match l with p :: _ => wtype (wpl_body p) | [] => 0 end.

Definition wenc_header (h : wheader) (first total : N) : bytes :=
  be64 (wh_ispi h) ++ be64 (wh_rspi h)
  ++ [n2b first; n2b (wh_major h * 16 + wh_minor h); n2b (wh_exch h); n2b (wh_flags h)]
  ++ be32 (wh_mid h) ++ be32 total.

Definition wenc (m : wmsg) : bytes :=
  let c := wenc_chain (wm_sk_next m) (wm_payloads m) in
  wenc_header (wm_hdr m) (wfirst (wm_payloads m)) (28 + len c) ++ c.

(* ---------- the message value a tree denotes ---------- *)
Definition erase_transform (t : wtransform) : transform :=
  match wt_attrs t with
  | [] => mkTransform (wt_type t) (wt_id t) false 0 0 0 []
  | WTV at' av :: _ => mkTransform (wt_type t) (wt_id t) true 1 at' av []
  | WTLV at' v :: _ => mkTransform (wt_type t) (wt_id t) true 0 at' 0 v
  end.

Definition erase_proposal (p : wproposal) : proposal :=
  let ts := map erase_transform (wp_transforms p) in
  let of ty := filter (fun t => t_type t =? ty) ts in
  mkProposal (wp_num p) (wp_proto p) (wp_spi p) (of 1) (of 2) (of 3) (of 4) (of 5).

(* what the decoder of this library keeps of an EAP packet is decided by the EAP codec (C14); the wire
   tree carries the packet's octets, the denotation is parameterised by the packet decoder *)
Section Erase.
  Variable eap_of : bytes -> option eap.

  Definition erase_body (nxt : N) (b : wbody) : option (option payload) :=
    match b with
    | WSA props => Some (Some (PSA (map erase_proposal props)))
    | WKE g _ d => Some (Some (PKE g d))
    | WID true t _ d => Some (Some (PIDi t d))
    | WID false t _ d => Some (Some (PIDr t d))
    | WCERT e d => Some (Some (PCERT e d))
    | WCERTREQ e d => Some (Some (PCERTREQ e d))
    | WAUTH m _ d => Some (Some (PAUTH m d))
    | WNonce d => Some (Some (PNonce d))
    | WNotify proto nt spi d => Some (Some (PNotify proto nt spi d))
    | WDelete proto sz spis => Some (Some (PDelete proto sz (len spis) (map be_val spis)))
    | WVendor d => Some (Some (PVendor d))
    | WTS true _ sels => Some (Some (PTSi sels))
    | WTS false _ sels => Some (Some (PTSr sels))
    | WSK d => Some (Some (PSK nxt d))
    | WCP ct _ attrs => Some (Some (PCP ct (map (fun a => mkCpAttr (wca_type a) (wca_value a)) attrs)))
    | WEAP pkt => match eap_of pkt with Some e => Some (Some (PEAP e)) | None => None end
    | WOther _ _ => Some None          (* skipped by the receiver *)
    end.

  Fixpoint erase_chain (last_next : N) (l : list wpayload) : option (list payload) :=
    match l with
    | [] => Some []
    | p :: r =>
      let next := match r with q :: _ => wtype (wpl_body q) | [] => last_next end in
      match erase_body next (wpl_body p), erase_chain last_next r with
      | Some (Some x), Some xs => Some (x :: xs)
      | Some None, Some xs => Some xs
      | _, _ => None
      end
    end.
End Erase.

(* ---------- the tree of a sender that zeroes every reserved field ---------- *)
Definition canon_attr (t : transform) : list wattr :=
  if t_present t then
    if t_format t =? 0 then [WTLV (t_atype t) (t_var t)] else [WTV (t_atype t) (t_aval t)]
  else [].
Definition canon_transform (t : transform) : wtransform :=
  mkWT 0 (t_type t) 0 (t_id t) (canon_attr t).
Definition canon_proposal (p : proposal) : wproposal :=
  mkWP 0 (p_num p) (p_proto p) (p_spi p)
       (map canon_transform (p_encr p ++ p_prf p ++ p_integ p ++ p_dh p ++ p_esn p)).

Section Canon.
  Variable eap_bytes : eap -> bytes.
  Definition canon_body (p : payload) : wbody :=
    match p with
    | PSA props => WSA (map canon_proposal props)
    | PKE g d => WKE g [x00; x00] d
    | PIDi t d => WID true t [x00; x00; x00] d
    | PIDr t d => WID false t [x00; x00; x00] d
    | PCERT e d => WCERT e d
    | PCERTREQ e d => WCERTREQ e d
    | PAUTH m d => WAUTH m [x00; x00; x00] d
    | PNonce d => WNonce d
    | PNotify proto nt spi d => WNotify proto nt spi d
    | PDelete proto sz _ spis => WDelete proto sz (map (fun v => be32 v ++ zeros (nat_of sz - 4)) spis)
    | PVendor d => WVendor d
    | PTSi sels => WTS true [x00; x00; x00] sels
    | PTSr sels => WTS false [x00; x00; x00] sels
    | PSK _ d => WSK d
    | PCP ct attrs => WCP ct [x00; x00; x00] (map (fun a => mkWCA 0 (ca_type a) (ca_value a)) attrs)
    | PEAP e => WEAP (eap_bytes e)
    end.
  Definition canon_payload (p : payload) : wpayload := mkWPl false 0 (canon_body p).
End Canon.

(* a tree is canonical when every reserved field is zero and no critical flag is set *)
Definition all_zero (b : bytes) : bool := forallb (fun x => b2n x =? 0) b.
Definition canonical_transform (t : wtransform) : bool := (wt_res1 t =? 0) && (wt_res2 t =? 0).
Definition canonical_body (b : wbody) : bool :=
  match b with
  | WSA props => forallb (fun p => (wp_res p =? 0) && forallb canonical_transform (wp_transforms p)) props
  | WKE _ res _ | WID _ _ res _ | WAUTH _ res _ | WTS _ res _ => all_zero res
  | WCP _ res attrs => all_zero res && forallb (fun a => wca_r a =? 0) attrs
  | _ => true
  end.
Definition canonical_payload (p : wpayload) : bool :=
  negb (wpl_critical p) && (wpl_res p =? 0) && canonical_body (wpl_body p).
