(* A strict parser for the RFC 7296 wire format of Spec/Wire.v, written independently of the Go code:
   it accepts a datagram only if the header length equals the datagram size, the next-payload chain is
   consistent, and every payload / proposal / transform / attribute / selector length equals its real extent;
   it returns the full syntax tree (reserved fields included), so "reserved fields are zero" is a property
   of the result (canonical_payload). *)
From IKE Require Import Lib.Base Impl.Msg Spec.Wire.
Local Open Scope N_scope.

Definition obind {A B} (o : option A) (f : A -> option B) : option B :=
  match o with Some a => f a | None => None end.
Notation "'do' x '<-' e ';' f" := (obind e (fun x => f))
  (at level 200, x name, e at level 100, f at level 200, right associativity).
Notation "'do' ' p '<-' e ';' f" := (obind e (fun x => match x with p => f end))
  (at level 200, p pattern, e at level 100, f at level 200, right associativity).

Definition tk (n : nat) (b : bytes) : option (bytes * bytes) :=
  if (length b <? n)%nat then None else Some (firstn n b, skipn n b).
Definition tk1 (b : bytes) : option (N * bytes) :=
  match b with x :: r => Some (b2n x, r) | [] => None end.
Definition tk16 (b : bytes) : option (N * bytes) :=
  do '(x, r) <- tk 2 b; Some (be_val x, r).
Definition tk32 (b : bytes) : option (N * bytes) :=
  do '(x, r) <- tk 4 b; Some (be_val x, r).
Definition tk64 (b : bytes) : option (N * bytes) :=
  do '(x, r) <- tk 8 b; Some (be_val x, r).
Definition oguard (c : bool) : option unit := if c then Some tt else None.

(* ---- attributes, transforms, proposals ---- *)
Fixpoint parse_attrs (fuel : nat) (b : bytes) : option (list wattr) :=
  match fuel with
  | O => None
  | S f =>
    match b with
    | [] => Some []
    | _ =>
      do '(ft, r1) <- tk16 b;
      do '(lv, r2) <- tk16 r1;
      if 32768 <=? ft then
        do rest <- parse_attrs f r2; Some (WTV (ft - 32768) lv :: rest)
      else
        do '(v, r3) <- tk (nat_of lv) r2;
        do rest <- parse_attrs f r3; Some (WTLV ft v :: rest)
    end
  end.

(* elements with a "last substructure" marker: 0 = last, more_marker = more follow *)
Fixpoint parse_transforms (fuel : nat) (b : bytes) : option (list wtransform) :=
  match fuel with
  | O => None
  | S f =>
    match b with
    | [] => Some []
    | _ =>
      do '(last, r1) <- tk1 b;
      do '(res1, r2) <- tk1 r1;
      do '(l, r3) <- tk16 r2;
      do _ <- oguard (8 <=? l);
      do '(body, rest) <- tk (nat_of l - 4) r3;
      do _ <- oguard (last =? (match rest with [] => 0 | _ => 3 end));
      do '(ty, b1) <- tk1 body;
      do '(res2, b2) <- tk1 b1;
      do '(id, b3) <- tk16 b2;
      do attrs <- parse_attrs (S (length b3)) b3;
      do ts <- parse_transforms f rest;
      Some (mkWT res1 ty res2 id attrs :: ts)
    end
  end.

Fixpoint parse_proposals (fuel : nat) (b : bytes) : option (list wproposal) :=
  match fuel with
  | O => None
  | S f =>
    match b with
    | [] => Some []
    | _ =>
      do '(last, r1) <- tk1 b;
      do '(res, r2) <- tk1 r1;
      do '(l, r3) <- tk16 r2;
      do _ <- oguard (8 <=? l);
      do '(body, rest) <- tk (nat_of l - 4) r3;
      do _ <- oguard (last =? (match rest with [] => 0 | _ => 2 end));
      do '(num, b1) <- tk1 body;
      do '(proto, b2) <- tk1 b1;
      do '(spisz, b3) <- tk1 b2;
      do '(ntr, b4) <- tk1 b3;
      do '(spi, b5) <- tk (nat_of spisz) b4;
      do ts <- parse_transforms (S (length b5)) b5;
      do _ <- oguard (len ts =? ntr);
      do ps <- parse_proposals f rest;
      Some (mkWP res num proto spi ts :: ps)
    end
  end.

(* ---- traffic selectors, configuration attributes, delete SPIs ---- *)
Fixpoint parse_selectors (n : nat) (b : bytes) : option (list selector * bytes) :=
  match n with
  | O => Some ([], b)
  | S m =>
    do '(ty, r1) <- tk1 b;
    do '(proto, r2) <- tk1 r1;
    do '(l, r3) <- tk16 r2;
    do '(sp, r4) <- tk16 r3;
    do '(ep, r5) <- tk16 r4;
    do _ <- oguard ((8 <=? l) && ((l - 8) mod 2 =? 0));
    let al := nat_of ((l - 8) / 2) in
    do '(sa, r6) <- tk al r5;
    do '(ea, r7) <- tk al r6;
    do '(ss, rest) <- parse_selectors m r7;
    Some (mkSelector ty proto sp ep sa ea :: ss, rest)
  end.

Fixpoint parse_cpattrs (fuel : nat) (b : bytes) : option (list wcpattr) :=
  match fuel with
  | O => None
  | S f =>
    match b with
    | [] => Some []
    | _ =>
      do '(rt, r1) <- tk16 b;
      do '(l, r2) <- tk16 r1;
      do '(v, r3) <- tk (nat_of l) r2;
      do rest <- parse_cpattrs f r3;
      Some (mkWCA (rt / 32768) (rt mod 32768) v :: rest)
    end
  end.

Fixpoint parse_chunks (n : nat) (sz : nat) (b : bytes) : option (list bytes) :=
  match n with
  | O => match b with [] => Some [] | _ => None end
  | S m => do '(x, r) <- tk sz b; do xs <- parse_chunks m sz r; Some (x :: xs)
  end.

(* ---- payload bodies ---- *)
Definition parse_body (ty : N) (b : bytes) : option wbody :=
  if ty =? 33 then do ps <- parse_proposals (S (length b)) b; Some (WSA ps)
  else if ty =? 34 then do '(g, r1) <- tk16 b; do '(res, d) <- tk 2 r1; Some (WKE g res d)
  else if (ty =? 35) || (ty =? 36) then do '(t, r1) <- tk1 b; do '(res, d) <- tk 3 r1; Some (WID (ty =? 35) t res d)
  else if ty =? 37 then do '(e, d) <- tk1 b; Some (WCERT e d)
  else if ty =? 38 then do '(e, d) <- tk1 b; Some (WCERTREQ e d)
  else if ty =? 39 then do '(m, r1) <- tk1 b; do '(res, d) <- tk 3 r1; Some (WAUTH m res d)
  else if ty =? 40 then Some (WNonce b)
  else if ty =? 41 then
    do '(proto, r1) <- tk1 b; do '(spisz, r2) <- tk1 r1; do '(nt, r3) <- tk16 r2;
    do '(spi, d) <- tk (nat_of spisz) r3; Some (WNotify proto nt spi d)
  else if ty =? 42 then
    do '(proto, r1) <- tk1 b; do '(sz, r2) <- tk1 r1; do '(num, r3) <- tk16 r2;
    do spis <- parse_chunks (nat_of num) (nat_of sz) r3; Some (WDelete proto sz spis)
  else if ty =? 43 then Some (WVendor b)
  else if (ty =? 44) || (ty =? 45) then
    do '(n, r1) <- tk1 b; do '(res, r2) <- tk 3 r1;
    do '(sels, rest) <- parse_selectors (nat_of n) r2;
    do _ <- oguard (length rest =? 0)%nat;
    Some (WTS (ty =? 44) res sels)
  else if ty =? 46 then Some (WSK b)
  else if ty =? 47 then
    do '(ct, r1) <- tk1 b; do '(res, r2) <- tk 3 r1;
    do attrs <- parse_cpattrs (S (length r2)) r2; Some (WCP ct res attrs)
  else if ty =? 48 then Some (WEAP b)
  else Some (WOther ty b).

(* ---- chain: returns the payloads and the pending next-payload value after the last one ---- *)
Fixpoint parse_chain (fuel : nat) (ty : N) (b : bytes) : option (list wpayload * N) :=
  match fuel with
  | O => None
  | S f =>
    match b with
    | [] => Some ([], ty)
    | _ =>
      do _ <- oguard (negb (ty =? 0));
      do '(next, r1) <- tk1 b;
      do '(fl, r2) <- tk1 r1;
      do '(l, r3) <- tk16 r2;
      do _ <- oguard (4 <=? l);
      do '(body, rest) <- tk (nat_of l - 4) r3;
      do wb <- parse_body ty body;
      do '(ps, fin) <- parse_chain f next rest;
      Some (mkWPl (128 <=? fl) (fl mod 128) wb :: ps, fin)
    end
  end.

Definition last_is_sk (l : list wpayload) : bool :=
  match rev l with p :: _ => match wpl_body p with WSK _ => true | _ => false end | [] => false end.

Definition wparse (b : bytes) : option wmsg :=
  do '(ispi, r1) <- tk64 b;
  do '(rspi, r2) <- tk64 r1;
  do '(first, r3) <- tk1 r2;
  do '(ver, r4) <- tk1 r3;
  do '(exch, r5) <- tk1 r4;
  do '(flags, r6) <- tk1 r5;
  do '(mid, r7) <- tk32 r6;
  do '(total, r8) <- tk32 r7;
  do _ <- oguard (total =? len b);
  do '(ps, fin) <- parse_chain (S (length r8)) first r8;
  (* the chain ends with 0, except that a trailing Encrypted payload names the first inner payload *)
  do _ <- oguard ((fin =? 0) || last_is_sk ps);
  Some (mkWM (mkWH ispi rspi (ver / 16) (ver mod 16) exch flags mid) ps fin).
