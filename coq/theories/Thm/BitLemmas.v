From IKE Require Import Lib.Base Lib.BaseLemmas.
Local Open Scope N_scope.

(* or-ing a value below 2^k onto a multiple of 2^k is addition *)
Lemma lor_add_pow2 a b k : a < 2 ^ k -> N.lor (b * 2 ^ k) a = b * 2 ^ k + a.
Proof.
  intros Ha. symmetry. rewrite N.add_nocarry_lxor; [apply N.lxor_lor|]; apply N.bits_inj; intros n; rewrite N.land_spec, N.bits_0.
  - destruct (N.lt_ge_cases n k) as [Hn|Hn].
    + now rewrite N.mul_pow2_bits_low.
    + destruct (N.eq_dec a 0) as [->|Hz]; [now rewrite N.bits_0, andb_false_r|].
      rewrite (N.bits_above_log2 a n), andb_false_r; [reflexivity|].
      apply N.lt_le_trans with k; [|exact Hn]. apply N.log2_lt_pow2; lia.
  - destruct (N.lt_ge_cases n k) as [Hn|Hn].
    + now rewrite N.mul_pow2_bits_low.
    + destruct (N.eq_dec a 0) as [->|Hz]; [now rewrite N.bits_0, andb_false_r|].
      rewrite (N.bits_above_log2 a n), andb_false_r; [reflexivity|].
      apply N.lt_le_trans with k; [|exact Hn]. apply N.log2_lt_pow2; lia.
Qed.

Lemma lor_32768 f a : a < 32768 -> N.lor (f * 32768) a = f * 32768 + a.
Proof. change 32768 with (2 ^ 15). apply lor_add_pow2. Qed.

Lemma version_octet_add major minor : major < 16 -> minor < 16 ->
  N.lor ((major * 16) mod 256) (minor mod 16) = major * 16 + minor.
Proof.
  intros. rewrite (N.mod_small (major * 16)) by lia. rewrite (N.mod_small minor) by lia.
  change 16 with (2 ^ 4) at 1. apply lor_add_pow2. exact H0.
Qed.
