(* C10 over call sequences: a cipher object used for any number of encryptions.
   The object has no state in the model (the Go object holds the key schedule only - the correspondence check and
   the seeded changes R2-C10, R6-C10, R8-C10, R8-C17 are about exactly that), so a history is a fold that threads the
   random source.  The theorem says what "fresh IV per call" means for EVERY history: the source is consumed in
   successive disjoint windows (pad octets | 16 IV octets), the i-th ciphertext begins with the IV of the i-th window,
   and every ciphertext of the history decrypts - at any later time, in any order - to its own plaintext. *)
From IKE Require Import Lib.Base Prim.Cbc Impl.Security Thm.CbcThm.

Section Hist.
  Variables (aes_enc aes_dec : bytes -> bytes -> bytes).
  Hypothesis BH : block_hyps aes_enc aes_dec.

  Fixpoint enc_history (key : bytes) (ps : list bytes) (s : rnd) : list (res bytes) * rnd :=
    match ps with
    | [] => ([], s)
    | p :: ps' =>
        let '(r, s1) := aes_encrypt aes_enc key p s in
        let '(rs, s2) := enc_history key ps' s1 in
        (r :: rs, s2)
    end.

  (* the i-th call, described on its own *)
  Record call_ok (key p : bytes) (ct : bytes) (win : bytes) : Prop := {
    co_len  : length win = (pad_of p + 16)%nat;
    co_iv   : firstn 16 ct = skipn (pad_of p) win;
    co_size : length ct = (16 + length p + pad_of p)%nat;
    co_dec  : aes_decrypt aes_dec key ct = Ok p }.

  Lemma firstn_app_exact {A} (a b : list A) n : length a = n -> firstn n (a ++ b) = a.
  Proof. intros <-. rewrite firstn_app, Nat.sub_diag, firstn_all. cbn. now rewrite app_nil_r. Qed.

  Lemma skipn_app_exact {A} (a b : list A) n : length a = n -> skipn n (a ++ b) = b.
  Proof. intros <-. rewrite skipn_app, Nat.sub_diag, skipn_all. reflexivity. Qed.

  Theorem enc_history_spec key ps :
    forall s cts s',
      enc_history key ps s = (map (@Ok bytes) cts, s') ->
      exists wins,
        length wins = length ps /\
        s = map (@Some byte) (concat wins) ++ s' /\
        Forall2 (fun pc win => call_ok key (fst pc) (snd pc) win) (combine ps cts) wins /\
        length cts = length ps.
  Proof.
    induction ps as [|p ps IH]; intros s cts s' H; cbn [enc_history] in H.
    - destruct cts as [|c cts]; [|discriminate]. inversion H; subst. exists []. cbn. repeat split; constructor.
    - destruct (aes_encrypt aes_enc key p s) as [r s1] eqn:E1.
      destruct (enc_history key ps s1) as [rs s2] eqn:E2.
      destruct cts as [|c cts]; [discriminate|]. cbn [map] in H. inversion H; subst r rs s2; clear H.
      destruct (aes_encrypt_spec aes_enc aes_dec BH key p s c s1 E1)
        as (padr & iv & Hs & Hpl & Hiv & Hct & _ & Hlen & _ & _ & Hdec).
      destruct (IH s1 cts s' E2) as (wins & Hw & Hs1 & HF & Hl).
      exists ((padr ++ iv) :: wins). cbn [length concat combine]. repeat split.
      + now rewrite Hw.
      + rewrite Hs, Hs1, !map_app, <- !app_assoc. reflexivity.
      + constructor; [|exact HF]. cbn [fst snd]. constructor.
        * rewrite app_length. lia.
        * rewrite Hct. rewrite (firstn_app_exact iv _ 16 Hiv), (skipn_app_exact padr iv _ Hpl). reflexivity.
        * exact Hlen.
        * exact Hdec.
      + now rewrite Hl.
  Qed.

  Lemma Forall2_weaken {A B} (P Q : A -> B -> Prop) l l' :
    (forall a b, P a b -> Q a b) -> Forall2 P l l' -> Forall2 Q l l'.
  Proof. intros HPQ HF. induction HF; constructor; auto. Qed.

  Lemma Forall2_left {A B} (P : A -> B -> Prop) (Q : A -> Prop) l l' :
    (forall a b, P a b -> Q a) -> Forall2 P l l' -> Forall Q l.
  Proof. intros HPQ HF. induction HF; constructor; eauto. Qed.

  (* the two corollaries the property names *)
  Corollary history_ivs_are_disjoint_source_windows key ps s cts s' :
    enc_history key ps s = (map (@Ok bytes) cts, s') ->
    exists wins, s = map (@Some byte) (concat wins) ++ s' /\
      Forall2 (fun pc win => firstn 16 (snd pc) = skipn (pad_of (fst pc)) win /\ length win = (pad_of (fst pc) + 16)%nat)
              (combine ps cts) wins.
  Proof.
    intros H. destruct (enc_history_spec key ps s cts s' H) as (wins & _ & Hs & HF & _).
    exists wins. split; [exact Hs|]. revert HF. apply Forall2_weaken.
    intros pc win [Hl Hi _ _]. split; assumption.
  Qed.

  Corollary every_ciphertext_of_a_history_still_decrypts key ps s cts s' :
    enc_history key ps s = (map (@Ok bytes) cts, s') ->
    Forall (fun pc => aes_decrypt aes_dec key (snd pc) = Ok (fst pc)) (combine ps cts).
  Proof.
    intros H. destruct (enc_history_spec key ps s cts s' H) as (wins & _ & _ & HF & _).
    revert HF. apply Forall2_left. intros pc win [_ _ _ Hd]. exact Hd.
  Qed.
End Hist.
