(* C11: algorithm <-> transform mapping (Impl/Registry.v) - finite case analysis, all identifiers and
   attribute shapes handled symbolically. *)
From IKE Require Import Lib.Base Lib.BaseLemmas Impl.Msg Impl.Security Impl.Dh Impl.Registry.
Local Open Scope N_scope.

Lemma encr_roundtrip e : encr_decode (encr_to_transform e) = Some e.
Proof. destruct e; reflexivity. Qed.
Lemma integ_roundtrip i : integ_decode (integ_to_transform i) = Some i.
Proof. destruct i; reflexivity. Qed.
Lemma prf_roundtrip p : prf_decode (prf_to_transform p) = Some p.
Proof. destruct p; reflexivity. Qed.
Lemma dh_roundtrip g : dh_decode (dh_to_transform g) = Some g.
Proof. destruct g; reflexivity. Qed.
Lemma esn_roundtrip b : esn_decode (esn_to_transform b) = Some b.
Proof. destruct b; reflexivity. Qed.

(* soundness: a transform is never mapped to an algorithm with another identifier or key size *)
Lemma encr_sound t e :
  encr_decode t = Some e ->
  t_id t = 12 /\ t_atype t = 14 /\ t_aval t = N.of_nat (encr_keylen e) * 8.
Proof.
  unfold encr_decode. destruct (t_id t =? 12) eqn:E1; [|discriminate].
  destruct (t_atype t =? 14) eqn:E2; [|discriminate].
  apply N.eqb_eq in E1, E2.
  destruct (t_aval t =? 128) eqn:V1; [intros [= <-]; apply N.eqb_eq in V1; cbn; auto|].
  destruct (t_aval t =? 192) eqn:V2; [intros [= <-]; apply N.eqb_eq in V2; cbn; auto|].
  destruct (t_aval t =? 256) eqn:V3; [intros [= <-]; apply N.eqb_eq in V3; cbn; auto|].
  discriminate.
Qed.

Lemma integ_sound t i : integ_decode t = Some i -> t_id t = integ_id i.
Proof.
  unfold integ_decode.
  destruct (t_id t =? 1) eqn:E1; [intros [= <-]; now apply N.eqb_eq in E1|].
  destruct (t_id t =? 2) eqn:E2; [intros [= <-]; now apply N.eqb_eq in E2|].
  destruct (t_id t =? 12) eqn:E3; [intros [= <-]; now apply N.eqb_eq in E3|].
  discriminate.
Qed.
Lemma prf_sound t p : prf_decode t = Some p -> t_id t = prf_id p.
Proof.
  unfold prf_decode.
  destruct (t_id t =? 1) eqn:E1; [intros [= <-]; now apply N.eqb_eq in E1|].
  destruct (t_id t =? 2) eqn:E2; [intros [= <-]; now apply N.eqb_eq in E2|].
  destruct (t_id t =? 5) eqn:E3; [intros [= <-]; now apply N.eqb_eq in E3|].
  discriminate.
Qed.
Lemma dh_sound t g : dh_decode t = Some g -> t_id t = dh_id g.
Proof.
  unfold dh_decode.
  destruct (t_id t =? 2) eqn:E1; [intros [= <-]; now apply N.eqb_eq in E1|].
  destruct (t_id t =? 14) eqn:E2; [intros [= <-]; now apply N.eqb_eq in E2|].
  discriminate.
Qed.
Lemma esn_sound t b : esn_decode t = Some b -> t_id t = (if b then 1 else 0).
Proof.
  unfold esn_decode.
  destruct (t_id t =? 0) eqn:E1; [intros [= <-]; now apply N.eqb_eq in E1|].
  destruct (t_id t =? 1) eqn:E2; [intros [= <-]; now apply N.eqb_eq in E2|].
  discriminate.
Qed.

(* the lengths are those of the defining RFCs: AES-CBC 128/192/256 (RFC 3602); HMAC-MD5-96 key 16 / ICV 12 (RFC 2403),
   HMAC-SHA1-96 key 20 / ICV 12 (RFC 2404), HMAC-SHA2-256-128 key 32 / ICV 16 (RFC 4868); PRF key = output size (RFC 7296 2.13) *)
Lemma rfc_lengths :
  (encr_keylen AES_CBC_128, encr_keylen AES_CBC_192, encr_keylen AES_CBC_256) = (16, 24, 32)%nat /\
  (integ_keylen AUTH_HMAC_MD5_96, integ_outlen AUTH_HMAC_MD5_96) = (16, 12)%nat /\
  (integ_keylen AUTH_HMAC_SHA1_96, integ_outlen AUTH_HMAC_SHA1_96) = (20, 12)%nat /\
  (integ_keylen AUTH_HMAC_SHA2_256_128, integ_outlen AUTH_HMAC_SHA2_256_128) = (32, 16)%nat /\
  (prf_keylen PRF_HMAC_MD5, prf_keylen PRF_HMAC_SHA1, prf_keylen PRF_HMAC_SHA2_256) = (16, 20, 32)%nat.
Proof. repeat split. Qed.

(* proposals *)
Lemma ike_proposal_roundtrip a : ike_of_proposal (ike_to_proposal a) = Ok a.
Proof. destruct a as [d e i p]; destruct d, e, i, p; reflexivity. Qed.

Lemma child_proposal_roundtrip a :
  ca_integ a <> None -> child_of_proposal (child_to_proposal a) = Ok a.
Proof.
  destruct a as [d e i s]. cbn [ca_integ]. destruct i as [i|]; [intros _|congruence].
  destruct d as [d|]; [destruct d|]; destruct e, i, s; reflexivity.
Qed.

(* an unsupported transform in any of the four positions makes the SA construction fail *)
Lemma ike_of_proposal_sound p a :
  ike_of_proposal p = Ok a ->
  exists d e i f, hd_error (p_dh p) = Some d /\ hd_error (p_encr p) = Some e /\
                  hd_error (p_integ p) = Some i /\ hd_error (p_prf p) = Some f /\
                  dh_decode d = Some (ia_dh a) /\ encr_decode e = Some (ia_encr a) /\
                  integ_decode i = Some (ia_integ a) /\ prf_decode f = Some (ia_prf a).
Proof.
  unfold ike_of_proposal.
  destruct (p_dh p) as [|d ?]; [discriminate|]. destruct (p_encr p) as [|e ?]; [discriminate|].
  destruct (p_integ p) as [|i ?]; [discriminate|]. destruct (p_prf p) as [|f ?]; [discriminate|].
  destruct (dh_decode d) eqn:D; [|discriminate]. destruct (encr_decode e) eqn:E; [|discriminate].
  destruct (integ_decode i) eqn:I; [|discriminate]. destruct (prf_decode f) eqn:F; [|discriminate].
  intros [= <-]. exists d, e, i, f. cbn. repeat split; assumption.
Qed.

Lemma ike_of_proposal_ok_or_err p : (exists a, ike_of_proposal p = Ok a) \/ ike_of_proposal p = Err.
Proof.
  unfold ike_of_proposal.
  destruct (p_dh p) as [|d ?]; [now right|]; destruct (p_encr p) as [|e ?]; [now right|];
    destruct (p_integ p) as [|i ?]; [now right|]; destruct (p_prf p) as [|f ?]; [now right|].
  destruct (dh_decode d); [|now right]; destruct (encr_decode e); [|now right];
    destruct (integ_decode i); destruct (prf_decode f); try (now right). left; eauto.
Qed.

Lemma ike_of_proposal_unsupported p :
  (forall d, hd_error (p_dh p) = Some d -> dh_decode d = None) \/
  (forall e, hd_error (p_encr p) = Some e -> encr_decode e = None) \/
  (forall i, hd_error (p_integ p) = Some i -> integ_decode i = None) \/
  (forall f, hd_error (p_prf p) = Some f -> prf_decode f = None) ->
  ike_of_proposal p = Err.
Proof.
  intros H. destruct (ike_of_proposal_ok_or_err p) as [[a E]|E]; [|exact E].
  apply ike_of_proposal_sound in E. destruct E as (d & e & i & f & Hd & He & Hi & Hf & Dd & De & Di & Df).
  destruct H as [H|[H|[H|H]]].
  - rewrite (H _ Hd) in Dd. discriminate.
  - rewrite (H _ He) in De. discriminate.
  - rewrite (H _ Hi) in Di. discriminate.
  - rewrite (H _ Hf) in Df. discriminate.
Qed.
