(* C12 at full strength: image lemma (Thm/Image.v) + fixed point on the domain (Thm/Stable.v) *)
From IKE Require Import Lib.Base Impl.Msg Impl.Eap Impl.Payloads Impl.Message Spec.Wire Thm.EapRT Thm.RoundTrip Thm.EncodeSpec Thm.Stable Thm.Image.

Theorem decode_encode_stable b m b' :
  decode b = Ok m -> encode m = Ok b' -> decode b' = Ok (norm_msg m) /\ encode (norm_msg m) = Ok b'.
Proof.
  intros Hd He. destruct (decode_image b m b' Hd He) as [Hdom Hc].
  destruct (reencode_fixed_point m Hdom Hc) as (b0 & E & D & E2). rewrite He in E. injection E as <-. auto.
Qed.

(* the normal form is reached after ONE step: decoding the re-encoding and encoding again changes nothing any more *)
Corollary second_step_is_identity b m b' :
  decode b = Ok m -> encode m = Ok b' ->
  exists m', decode b' = Ok m' /\ encode m' = Ok b' /\ norm_msg m' = m'.
Proof.
  intros Hd He. destruct (decode_encode_stable b m b' Hd He) as [D E]. exists (norm_msg m). split; [exact D|]. split; [exact E|].
  destruct (decode_image b m b' Hd He) as [Hdom Hc].
  destruct Hdom as (_ & Hp & _). destruct m as [h ps]. unfold norm_msg. cbn [m_hdr m_payloads] in *.
  assert (Hf : first_type (map norm_payload ps) = first_type ps) by (destruct ps as [|p r]; [reflexivity|destruct p; reflexivity]).
  rewrite Hf. f_equal.
  rewrite map_map. apply map_ext_in. intros p Hin. apply norm_payload_idem.
  rewrite Forall_forall in Hp. exact (proj1 (Hp p Hin)).
Qed.
