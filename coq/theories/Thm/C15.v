(* C15: AT_MAC.  Sender side: the code is the RFC's HMAC over the packet as sent with the MAC value zeroed, whatever
   AT_MAC held before.  Receiver side: agreement for packets in the library's own (canonical) wire form; the input of
   the HMAC determines the packet up to the AT_MAC value. *)
From IKE Require Import Lib.Base Lib.BaseLemmas Thm.Tactics Thm.ConsLemmas Prim.Hmac Impl.Msg Impl.Eap Spec.AkaMac Thm.EapRT.
From Coq Require Import Permutation.
Local Open Scope N_scope.

(* the packets the API builds: attributes in the setter's form (wf_akattr: AT_KDF with length 1) *)
Definition dom_eapdataS (d : eapdata) : Prop :=
  match d with
  | EDAka st rs attrs => st < 256 /\ rs < 65536 /\ Forall wf_akattr attrs /\ NoDup (map at_type attrs)
  | _ => dom_eapdata d
  end.
Definition dom_eapS (e : eap) : Prop := e_code e < 256 /\ e_id e < 256 /\ dom_eapdataS (e_data e).
Lemma dom_eapS_dom e : dom_eapS e -> dom_eap e.
Proof.
  intros (Hc & Hi & Hd). split; [exact Hc|]. split; [exact Hi|]. destruct (e_data e); try exact Hd.
  destruct Hd as (H1 & H2 & H3 & H4). repeat split; auto. eapply Forall_impl; [|exact H3]. apply wf_wfd.
Qed.

Definition mac_attr (v : bytes) : akattr := mkAkAttr 11 5 0 v.
Definition zm (a : akattr) : akattr := if at_type a =? 11 then mac_attr (zeros 16) else a.

Definition with_mac (v : bytes) (e : eap) : eap :=
  match e_data e with
  | EDAka st rs attrs => mkEap (e_code e) (e_id e) (EDAka st rs (aka_set attrs (mac_attr v)))
  | _ => e
  end.

Lemma zm_type a : at_type (zm a) = at_type a.
Proof. unfold zm. destruct (at_type a =? 11) eqn:E; [apply N.eqb_eq in E; now rewrite E|reflexivity]. Qed.

Lemma zm_wf a : wf_akattr a -> wf_akattr (zm a).
Proof. unfold zm. destruct (at_type a =? 11); [|auto]. intros _. unfold wf_akattr, mac_attr. cbn. repeat split; lia. Qed.

Lemma map_zm_id l : ~ In 11 (map at_type l) -> map zm l = l.
Proof.
  induction l as [|x r IH]; intros H; [reflexivity|]. cbn [map] in *. rewrite IH by (intros Hq; apply H; now right).
  unfold zm. destruct (at_type x =? 11) eqn:E; [|reflexivity]. apply N.eqb_eq in E. exfalso. apply H. now left.
Qed.

(* zeroing the MAC of the attribute list = setting AT_MAC to zero, for lists with unique types (a Go map) *)
Lemma map_zm_set l v : NoDup (map at_type l) -> map zm (aka_set l (mac_attr v)) = aka_set l (mac_attr (zeros 16)).
Proof.
  induction l as [|x r IH]; intros Hn; [reflexivity|]. cbn [aka_set]. change (at_type (mac_attr v)) with 11.
  change (at_type (mac_attr (zeros 16))) with 11. inversion Hn as [|? ? Hx Hr]; subst.
  destruct (at_type x =? 11) eqn:E.
  - cbn [map]. f_equal. apply map_zm_id. apply N.eqb_eq in E. now rewrite <- E.
  - cbn [map]. rewrite IH by assumption. f_equal. unfold zm. now rewrite E.
Qed.

Lemma aka_set_types l a : In (at_type a) (map at_type l) -> map at_type (aka_set l a) = map at_type l.
Proof.
  induction l as [|x r IH]; intros H; [destruct H|]. cbn [aka_set]. destruct (at_type x =? at_type a) eqn:E.
  - apply N.eqb_eq in E. cbn [map]. now rewrite E.
  - cbn [map] in *. f_equal. apply IH. destruct H as [H|H]; [apply N.eqb_neq in E; congruence|exact H].
Qed.

Lemma aka_set_types_new l a : ~ In (at_type a) (map at_type l) -> map at_type (aka_set l a) = map at_type l ++ [at_type a].
Proof.
  induction l as [|x r IH]; intros H; [reflexivity|]. cbn [aka_set].
  destruct (at_type x =? at_type a) eqn:E; [apply N.eqb_eq in E; exfalso; apply H; now left|].
  cbn [map app]. f_equal. apply IH. intros Hq. apply H. now right.
Qed.

Lemma aka_set_nodup l a : NoDup (map at_type l) -> NoDup (map at_type (aka_set l a)).
Proof.
  induction l as [|x r IH]; intros Hn; [cbn; constructor; [intros []|constructor]|].
  inversion Hn as [|? ? Hx Hr]; subst. cbn [aka_set]. destruct (at_type x =? at_type a) eqn:E.
  - apply N.eqb_eq in E. cbn [map]. constructor; [now rewrite <- E|exact Hr].
  - cbn [map]. constructor; [|now apply IH].
    destruct (in_dec N.eq_dec (at_type a) (map at_type r)) as [Hi|Hni].
    + now rewrite aka_set_types.
    + rewrite aka_set_types_new by assumption. rewrite in_app_iff. intros [Hq|[Hq|[]]]; [now apply Hx|].
      apply N.eqb_neq in E. congruence.
Qed.

Lemma aka_set_wf l a : Forall wf_akattr l -> wf_akattr a -> Forall wf_akattr (aka_set l a).
Proof.
  induction l as [|x r IH]; intros Hl Ha; [constructor; [exact Ha|constructor]|].
  inversion Hl; subst. cbn [aka_set]. destruct (at_type x =? at_type a); constructor; auto.
Qed.

Lemma mac_attr_wf v : length v = 16%nat -> wf_akattr (mac_attr v).
Proof. intros H. unfold wf_akattr, mac_attr. cbn. repeat split; try lia; try exact H. Qed.

(* the sorted order depends on the types only *)
Lemma asc_map_zm l : asc l -> asc (map zm l).
Proof.
  induction 1 as [|a|a b l Hab Hl IH]; cbn [map]; [constructor|constructor|].
  constructor; [now rewrite !zm_type|exact IH].
Qed.

Lemma sort_zm_set l v : NoDup (map at_type l) ->
  map zm (aka_sort (aka_set l (mac_attr v))) = aka_sort (aka_set l (mac_attr (zeros 16))).
Proof.
  intros Hn. apply asc_perm_eq.
  - apply asc_map_zm. apply aka_sort_asc. now apply aka_set_nodup.
  - apply aka_sort_asc. now apply aka_set_nodup.
  - rewrite <- (map_zm_set l v Hn). etransitivity; [apply Permutation_map, aka_sort_perm|]. symmetry. apply aka_sort_perm.
Qed.

(* ---------- the byte-level specification applied to the library's own encoding ---------- *)
Lemma attr_tail_len a : wf_akattr a -> length (aka_attr_tail a) = (4 * nat_of (at_len a) - 2)%nat /\ 1 <= at_len a.
Proof.
  intros Hw. pose proof (aka_attr_bytes_length a Hw) as L. rewrite aka_attr_bytes_eq in L. unfold len in L. cbn [length] in L.
  assert (H1 : 1 <= at_len a).
  { destruct Hw as (_ & _ & Hw). cbv zeta in Hw.
    destruct ((at_type a =? 11) || (at_type a =? 1) || (at_type a =? 2)); [lia|].
    destruct ((at_type a =? 23) || (at_type a =? 3)); [unfold len in Hw; lia|].
    destruct (at_type a =? 24); lia. }
  split; [lia|exact H1].
Qed.

Lemma zero_mac_attrs_concat l : forall fuel, Forall wf_akattr l -> (length l <= fuel)%nat ->
  zero_mac_attrs fuel (concat (map aka_attr_bytes l)) = concat (map aka_attr_bytes (map zm l)).
Proof.
  induction l as [|a r IH]; intros fuel Hw Hf.
  - destruct fuel; reflexivity.
  - inversion Hw as [|? ? Ha Hr]; subst. destruct fuel as [|f]; [cbn in Hf; lia|].
    cbn [map concat]. rewrite aka_attr_bytes_eq. cbn [app zero_mac_attrs].
    destruct (attr_tail_len a Ha) as [Lt L1]. destruct Ha as (Ht & Hl & Hbody).
    rewrite !b2n_n2b_small by assumption.
    destruct (4 * nat_of (at_len a) <? 4)%nat eqn:E4; [lia|].
    rewrite (skipn_app_len (aka_attr_tail a)) by (symmetry; exact Lt).
    rewrite IH by (cbn in Hf; auto; lia).
    cbn [map concat]. destruct (at_type a =? 11) eqn:E11.
    + assert (Hz : zm a = mac_attr (zeros 16)) by (unfold zm; now rewrite E11). rewrite Hz.
      apply N.eqb_eq in E11. cbv zeta in Hbody. rewrite E11 in Hbody.
      change ((11 =? 11) || (11 =? 1) || (11 =? 2)) with true in Hbody. destruct Hbody as (El & Er & Lv).
      unfold aka_attr_tail. rewrite E11, El, Er. change (11 =? 24) with false. change ((11 =? 3) || (11 =? 23)) with false.
      cbv iota. rewrite app_nil_r.
      replace (firstn 2 ((be16 0 ++ at_val a) ++ concat (map aka_attr_bytes r))) with (be16 0) by reflexivity.
      reflexivity.
    + assert (Hz : zm a = a) by (unfold zm; now rewrite E11). rewrite Hz.
      rewrite (firstn_app_len (aka_attr_tail a)) by (symmetry; exact Lt).
      rewrite aka_attr_bytes_eq. cbn [app]. reflexivity.
Qed.

Lemma concat_attrs_ge l : (length l <= length (concat (map aka_attr_bytes l)))%nat.
Proof. induction l as [|a r IH]; [cbn; lia|]. cbn [map concat]. rewrite aka_attr_bytes_eq. cbn [app length]. rewrite app_length. lia. Qed.

Lemma firstn8 {A} (a b c d e f g h : A) r : firstn 8 (a :: b :: c :: d :: e :: f :: g :: h :: r) = [a; b; c; d; e; f; g; h].
Proof. reflexivity. Qed.
Lemma skipn8 {A} (a b c d e f g h : A) r : skipn 8 (a :: b :: c :: d :: e :: f :: g :: h :: r) = r.
Proof. reflexivity. Qed.

Section M.
  Variable sha256 : bytes -> bytes.
  Hypothesis sha_len : forall x, length (sha256 x) = 32%nat.

  Lemma hmac_len k m : length (hmac sha256 64 k m) = 32%nat.
  Proof. unfold hmac. apply sha_len. Qed.

  Definition is_aka (e : eap) : Prop := match e_data e with EDAka _ _ _ => True | _ => False end.

  (* zeroing AT_MAC in the packet as sent = the packet the code is computed over *)
  Lemma zero_mac_of_sent e v wire :
    dom_eapS e -> is_aka e -> length v = 16%nat -> eap_marshal (with_mac v e) = Ok wire -> len wire < 65536 ->
    eap_marshal (with_mac (zeros 16) e) = Ok (zero_mac wire).
  Proof.
    destruct e as [code id [| | | | |st rs attrs]]; intros (Hc & Hi & Hd) Ha Lv Hm Hlen; unfold is_aka in Ha; cbn [e_data] in Ha; try contradiction.
    unfold with_mac in *. cbn [e_data e_code e_id] in *.
    destruct Hd as (Hst & Hrs & Hw & Hn).
    unfold eap_marshal in *. cbn [e_data eapdata_marshal bind e_code e_id] in *. injection Hm as <-.
    unfold aka_marshal. set (L := aka_sort (aka_set attrs (mac_attr v))).
    assert (WL : Forall wf_akattr L).
    { eapply Permutation_Forall; [symmetry; apply aka_sort_perm|]. apply aka_set_wf; [exact Hw|now apply mac_attr_wf]. }
    rewrite <- (sort_zm_set attrs v Hn). fold L.
    assert (Ll : forall M, Forall wf_akattr M -> len (concat (map aka_attr_bytes M)) = len (concat (map aka_attr_bytes (map zm M)))).
    { induction M as [|a M IHM]; intros HM; [reflexivity|]. inversion HM; subst. cbn [map concat]. unfold len in *. rewrite !app_length.
      pose proof (aka_attr_bytes_length a ltac:(assumption)) as L1. pose proof (aka_attr_bytes_length (zm a) ltac:(now apply zm_wf)) as L2.
      unfold len in L1, L2. specialize (IHM ltac:(assumption)).
      assert (at_len (zm a) = at_len a).
      { unfold zm. destruct (at_type a =? 11) eqn:E; [|reflexivity]. apply N.eqb_eq in E.
        match goal with H : wf_akattr a |- _ => destruct H as (_ & _ & Hb) end. cbv zeta in Hb. rewrite E in Hb.
        change ((11 =? 11) || (11 =? 1) || (11 =? 2)) with true in Hb. cbv iota in Hb. cbn. lia. }
      lia. }
    assert (Lsame : len ([x32; n2b st] ++ be16 rs ++ concat (map aka_attr_bytes (map zm L))) = len ([x32; n2b st] ++ be16 rs ++ concat (map aka_attr_bytes L))).
    { unfold len. rewrite !app_length. specialize (Ll L WL). unfold len in Ll. lia. }
    rewrite Lsame. f_equal.
    unfold zero_mac, be16. cbn [app]. rewrite firstn8, skipn8. cbn [app]. do 8 f_equal.
    symmetry. apply zero_mac_attrs_concat; [exact WL|]. cbn [length]. pose proof (concat_attrs_ge L). lia.
  Qed.

  (* C15 sender side *)
  Theorem calc_at_mac_spec e key v wire :
    dom_eapS e -> is_aka e -> length v = 16%nat -> eap_marshal (with_mac v e) = Ok wire -> len wire < 65536 ->
    exists e', calc_at_mac sha256 (with_mac v e) key = Ok (at_mac_spec sha256 key wire, e') /\
               calc_at_mac sha256 e key = Ok (at_mac_spec sha256 key wire, e').
  Proof.
    intros He Ha Lv Hm Hlen. pose proof (zero_mac_of_sent e v wire He Ha Lv Hm Hlen) as Hz.
    destruct e as [code id [| | | | |st rs attrs]]; unfold is_aka in Ha; cbn [e_data] in Ha; try contradiction.
    unfold with_mac in *. cbn [e_data e_code e_id] in *.
    unfold calc_at_mac. cbn [e_data e_code e_id].
    unfold aka_set_attr. change (aka_mk_attr 11 (zeros 16)) with (Ok (mac_attr (zeros 16))). cbn [bind].
    assert (Hss : aka_set (aka_set attrs (mac_attr v)) (mac_attr (zeros 16)) = aka_set attrs (mac_attr (zeros 16))).
    { clear. induction attrs as [|x r IH]; [reflexivity|]. cbn [aka_set]. change (at_type (mac_attr v)) with 11. change (at_type (mac_attr (zeros 16))) with 11.
      destruct (at_type x =? 11) eqn:E; cbn [aka_set]; change (at_type (mac_attr v)) with 11; change (at_type (mac_attr (zeros 16))) with 11.
      - reflexivity.
      - rewrite E. now rewrite IH. }
    rewrite Hss. rewrite Hz. cbn [bind]. rewrite upto_ok by (rewrite hmac_len; lia).
    eexists. split; reflexivity.
  Qed.

  (* C15 receiver side, for packets in the library's wire form (ascending attribute types, zero reserved/padding octets):
     the receiver decodes the packet and computes exactly the sender's code *)
  Theorem receiver_agrees e key v wire :
    dom_eapS e -> is_aka e -> length v = 16%nat -> eap_marshal (with_mac v e) = Ok wire -> len wire < 65536 ->
    exists e' e'', eap_unmarshal wire = Ok e' /\ calc_at_mac sha256 e' key = Ok (at_mac_spec sha256 key wire, e'').
  Proof.
    intros He Ha Lv Hm Hlen.
    assert (Hd' : dom_eapS (with_mac v e) /\ is_aka (with_mac v e)).
    { destruct e as [code id [| | | | |st rs attrs]]; destruct He as (Hc & Hi & Hd); unfold with_mac, is_aka in *; cbn [e_data e_code e_id] in *; try contradiction.
      destruct Hd as (Hst & Hrs & Hw & Hn). split; [|exact I]. repeat split; cbn; auto.
      - apply aka_set_wf; [exact Hw|now apply mac_attr_wf].
      - now apply aka_set_nodup. }
    destruct Hd' as [Hd' Ha'].
    pose proof (eap_rt _ _ (dom_eapS_dom _ Hd') Hm Hlen) as Hrt. exists (norm_eap (with_mac v e)).
    (* the normalised packet marshals to the same octets *)
    assert (Hm' : eap_marshal (with_mac v (norm_eap (with_mac v e))) = Ok wire).
    { destruct e as [code id [| | | | |st rs attrs]]; destruct He as (Hc & Hi & Hd); unfold with_mac, norm_eap, is_aka in *; cbn [e_data e_code e_id] in *; try contradiction.
      destruct Hd as (Hst & Hrs & Hw & Hn). cbn [e_data norm_eapdata e_code e_id] in *.
      unfold eap_marshal in *. cbn [e_data eapdata_marshal bind e_code e_id] in *.
      set (A := aka_set attrs (mac_attr v)) in *.
      assert (HA : NoDup (map at_type A)) by now apply aka_set_nodup.
      assert (Hin : aka_set (aka_sort A) (mac_attr v) = aka_sort A).
      { assert (Hi2 : In (mac_attr v) (aka_sort A)).
        { eapply Permutation_in; [symmetry; apply aka_sort_perm|]. unfold A. clear. induction attrs as [|x r IH]; [now left|].
          cbn [aka_set]. destruct (at_type x =? _); [now left|now right]. }
        assert (Hnd : NoDup (map at_type (aka_sort A))).
        { eapply Permutation_NoDup; [|exact HA]. apply Permutation_map. symmetry. apply aka_sort_perm. }
        revert Hi2 Hnd. generalize (aka_sort A). clear. induction l as [|x r IH]; intros Hi Hn; [destruct Hi|].
        cbn [aka_set]. change (at_type (mac_attr v)) with 11. inversion Hn as [|? ? Hx Hr]; subst.
        destruct Hi as [->|Hi].
        - reflexivity.
        - destruct (at_type x =? 11) eqn:E.
          + exfalso. apply N.eqb_eq in E. apply Hx. rewrite E. change 11 with (at_type (mac_attr v)). now apply in_map.
          + f_equal. now apply IH. }
      rewrite Hin.
      rewrite (aka_marshal_perm_invariant st rs (aka_sort A) A); [exact Hm|apply aka_sort_perm|].
      eapply Permutation_NoDup; [|exact HA]. apply Permutation_map. symmetry. apply aka_sort_perm. }
    assert (Hdn : dom_eapS (norm_eap (with_mac v e)) /\ is_aka (norm_eap (with_mac v e))).
    { destruct (with_mac v e) as [code id [| | | | |st rs attrs]]; destruct Hd' as (Hc & Hi & Hd); unfold norm_eap, is_aka in *; cbn [e_data e_code e_id] in *; try contradiction.
      destruct Hd as (Hst & Hrs & Hw & Hn). cbn [e_data norm_eapdata]. split; [|exact I]. repeat split; cbn; auto.
      - eapply Permutation_Forall; [symmetry; apply aka_sort_perm|exact Hw].
      - eapply Permutation_NoDup; [|exact Hn]. apply Permutation_map. symmetry. apply aka_sort_perm. }
    destruct Hdn as [Hdn Han].
    destruct (calc_at_mac_spec _ key v wire Hdn Han Lv Hm' Hlen) as (e'' & _ & Hcalc).
    exists e''. split; [exact Hrt|exact Hcalc].
  Qed.

  (* the HMAC input determines the packet up to the AT_MAC value: two canonical packets with the same input are equal
     after setting AT_MAC to zero (so a change of any other octet changes the input of the HMAC; that the code then
     differs is the collision resistance of HMAC-SHA-256, outside what can be proved here) *)
  Theorem mac_input_determines_packet e1 e2 b :
    dom_eapS e1 -> dom_eapS e2 -> is_aka e1 -> is_aka e2 ->
    eap_marshal (with_mac (zeros 16) e1) = Ok b -> eap_marshal (with_mac (zeros 16) e2) = Ok b -> len b < 65536 ->
    norm_eap (with_mac (zeros 16) e1) = norm_eap (with_mac (zeros 16) e2).
  Proof.
    intros H1 H2 A1 A2 M1 M2 Hl.
    assert (D : forall e, dom_eapS e -> is_aka e -> dom_eapS (with_mac (zeros 16) e)).
    { intros e (Hc & Hi & Hd) Ha. destruct e as [code id [| | | | |st rs attrs]]; unfold with_mac, is_aka in *; cbn [e_data e_code e_id] in *; try contradiction.
      destruct Hd as (Hst & Hrs & Hw & Hn). repeat split; cbn; auto.
      - apply aka_set_wf; [exact Hw|now apply mac_attr_wf].
      - now apply aka_set_nodup. }
    pose proof (eap_rt _ _ (dom_eapS_dom _ (D e1 H1 A1)) M1 Hl) as R1. pose proof (eap_rt _ _ (dom_eapS_dom _ (D e2 H2 A2)) M2 Hl) as R2. congruence.
  Qed.
End M.

(* the full receiver clause of C15 ("well-formed packets of an independent encoder in ANY attribute order") is false of
   the code: the receiver computes the code over a re-serialisation.  Witness: AT_MAC before AT_RAND. *)
Definition c15_witness : bytes :=
  [x01; x07; x00; x30; x32; x01; x00; x00] ++
  [x0b; x05; x00; x00] ++ zeros 16 ++ [x01; x05; x00; x00] ++ zeros 16.
Theorem receiver_any_order_refuted :
  exists wire e', eap_unmarshal wire = Ok e' /\ eap_marshal (with_mac (zeros 16) e') <> Ok (zero_mac wire).
Proof.
  exists c15_witness. eexists. split; [vm_compute; reflexivity|]. vm_compute. discriminate.
Qed.
