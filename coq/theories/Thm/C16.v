From IKE Require Import Lib.Base Lib.BaseLemmas Prim.Hmac Spec.PrfPlus Thm.PrfPlusLemmas Impl.EapAkaPrf.

Section C16.
  Variable sha256 : bytes -> bytes.
  Hypothesis sha256_len : forall x, length (sha256 x) = 32%nat.

  Definition prf_prime (K Sd : bytes) : bytes := stream (hmac sha256 64) K Sd 7.

  Lemma hmac_len k m : length (hmac sha256 64 k m) = 32%nat.
  Proof. unfold hmac. apply sha256_len. Qed.

  Lemma T_len K Sd n : length (T (hmac sha256 64) K Sd (S n)) = 32%nat.
  Proof. cbn [T]. apply hmac_len. Qed.

  (* the loop computes T1 | ... | Tn with prev = Tn *)
  Lemma loop_stream key sbase n :
    fold_left (prf_round sha256 key sbase) (seq 0 n) ([], []) =
    (stream (hmac sha256 64) key sbase n, T (hmac sha256 64) key sbase n).
  Proof.
    induction n as [|n IH].
    - reflexivity.
    - rewrite seq_S, fold_left_app, IH. cbn [fold_left prf_round Nat.add].
      rewrite stream_S. replace (n + 1)%nat with (S n) by lia. cbn [T]. reflexivity.
  Qed.

  Lemma stream_len K Sd n : length (stream (hmac sha256 64) K Sd n) = (32 * n)%nat.
  Proof. apply PrfPlusLemmas.stream_len. intros; apply hmac_len. Qed.

  Theorem prf_correct ik ck id :
    ik <> [] -> ck <> [] ->
    let mk := prf_prime (ik ++ ck) (eap_aka_label ++ id) in
    eap_aka_prime_prf sha256 ik ck id =
      Ok (slice 0 16 mk, slice 16 48 mk, slice 48 80 mk, slice 80 144 mk, slice 144 208 mk).
  Proof.
    intros Hik Hck mk. unfold eap_aka_prime_prf.
    destruct ik as [|i0 ik]; [congruence|]. destruct ck as [|c0 ck]; [congruence|].
    cbn [length]. change ((S (length ik) =? 0)%nat || (S (length ck) =? 0)%nat) with false.
    cbv iota. rewrite loop_stream. fold (prf_prime ((i0 :: ik) ++ c0 :: ck) (eap_aka_label ++ id)).
    fold mk. assert (L : length mk = 224%nat) by (unfold mk, prf_prime; rewrite stream_len; reflexivity).
    rewrite L. change (224 <? 208)%nat with false. cbv iota.
    rewrite !sub_ok by (rewrite ?L; lia). reflexivity.
  Qed.

  Theorem prf_empty ik ck id : ik = [] \/ ck = [] -> eap_aka_prime_prf sha256 ik ck id = Err.
  Proof.
    intros [-> | ->]; unfold eap_aka_prime_prf; cbn [length].
    - reflexivity.
    - change (0 =? 0)%nat with true. now rewrite orb_true_r.
  Qed.
End C16.
