(* C17: SA key objects are reusable - a state machine over one IKESAKey object.
   State = the SA object including the internal buffers of its five stateful HMAC objects (Impl/Security.v hobj);
   operations = protect / unprotect (any octets, genuine or not) / derive a Child SA.  The invariant over every
   history is key-equivalence (sa_eqk: all fields equal except the hash objects' buffers), and the visible output
   of every operation is a function of the key-equivalence class only. *)
From IKE Require Import Lib.Base Lib.BaseLemmas Thm.Tactics Prim.Hmac Prim.Cbc Spec.PrfPlus
     Impl.Msg Impl.Eap Impl.Payloads Impl.Message Impl.Security Impl.Ike
     Thm.EncodeSpec Thm.PrfPlusObj Thm.KeyDerivation Thm.CbcThm Thm.NoFaultSK Thm.SKThm.
Local Open Scope N_scope.

Section H.
  Variable digest : halg -> bytes -> bytes.
  Variable aes_enc aes_dec : bytes -> bytes -> bytes.
  Hypothesis digest_len : forall a x, length (digest a x) = hlen a.
  Hypothesis blk : block_hyps aes_enc aes_dec.

  Inductive op :=
  | OProtect (role : bool) (m : msg) (s : rnd)                      (* s: what the random source will deliver *)
  | OUnprotect (role : bool) (raw : bytes) (hdr : option header)    (* raw: ANY octets - genuine, forged, garbage *)
  | ODerive (e : encr_alg) (i : option integ_alg) (nonce : bytes).

  Inductive out :=
  | RBytes (r : res bytes) (rest : rnd)
  | RMsg (r : res msg) (calls : list cipher_call)
  | RKeys (r : res (bytes * bytes * bytes * bytes)).

  Definition step (sa : ikesa) (o : op) : ikesa * out :=
    match o with
    | OProtect role m s =>
      match encode_encrypt digest aes_enc m (Some sa) role s with
      | (r, Some sa', s') => (sa', RBytes r s') | (r, None, s') => (sa, RBytes r s') end
    | OUnprotect role raw hdr =>
      match decode_decrypt digest aes_dec raw hdr (Some sa) role with
      | (r, Some sa', calls) => (sa', RMsg r calls) | (r, None, calls) => (sa, RMsg r calls) end
    | ODerive e i nonce =>
      let '(r, sa') := generate_key_for_childsa digest sa e i nonce in (sa', RKeys r)
    end.

  Definition run (sa : ikesa) (ops : list op) : ikesa := fold_left (fun s o => fst (step s o)) ops sa.
  (* the outputs of a whole history *)
  Fixpoint trace (sa : ikesa) (ops : list op) : list out :=
    match ops with [] => [] | o :: r => snd (step sa o) :: trace (fst (step sa o)) r end.

  Ltac fin := repeat match goal with |- _ /\ _ => split end; auto using sa_eqk_refl.
  Ltac eqk_fields H :=
    destruct H as (Ee & Ei & Ep & [Ad Kd] & [Aii Kii] & [Air Kir] & [Api Kpi] & [Apr Kpr] & Eki & Ekr & Ed & Eai & Ear & Eei & Eer & Epi & Epr).

  Lemma calc_eqk a b role data : sa_wf a -> sa_wf b -> sa_eqk a b ->
    fst (calculate_integrity digest a role data) = fst (calculate_integrity digest b role data).
  Proof.
    intros Wa Wb He.
    destruct (calc_integrity_value digest digest_len a role data Wa) as (-> & _).
    destruct (calc_integrity_value digest digest_len b role data Wb) as (-> & _).
    f_equal. now apply mac_eqk.
  Qed.

  Lemma encrypt_msg_eqk a b role m s : sa_wf a -> sa_wf b -> sa_eqk a b ->
    let '(r1, a', s1) := encrypt_msg digest aes_enc a role m s in
    let '(r2, b', s2) := encrypt_msg digest aes_enc b role m s in
    r1 = r2 /\ s1 = s2 /\ sa_eqk a a' /\ sa_eqk b b' /\ sa_wf a' /\ sa_wf b'.
  Proof.
    intros Wa Wb He. pose proof He as He'. eqk_fields He'.
    unfold encrypt_msg. rewrite <- Ei, <- Eki, <- Ekr.
    destruct (container_encode (m_payloads m)) as [plain| | |];
      try solve [fin].
    destruct (aes_encrypt aes_enc (if role then sa_encr_i a else sa_encr_r a) plain s) as [[ct| | |] s1];
      try solve [fin].
    destruct (encode _) as [data| | |]; try solve [fin].
    destruct (upto data _) as [cov| | |]; try solve [fin].
    pose proof (calc_eqk a b role cov Wa Wb He) as Hc.
    destruct (calc_integrity_value digest digest_len a role cov Wa) as (_ & Ea & Wa').
    destruct (calc_integrity_value digest digest_len b role cov Wb) as (_ & Eb & Wb').
    destruct (calculate_integrity digest a role cov) as [ra a']. destruct (calculate_integrity digest b role cov) as [rb b'].
    cbn [fst snd] in *. subst rb. destruct ra; fin.
  Qed.

  Lemma decrypt_msg_eqk a b role raw m : sa_wf a -> sa_wf b -> sa_eqk a b ->
    let '(r1, a', c1) := decrypt_msg digest aes_dec raw m a role in
    let '(r2, b', c2) := decrypt_msg digest aes_dec raw m b role in
    r1 = r2 /\ c1 = c2 /\ sa_eqk a a' /\ sa_eqk b b' /\ sa_wf a' /\ sa_wf b'.
  Proof.
    intros Wa Wb He. pose proof He as He'. eqk_fields He'.
    unfold decrypt_msg. rewrite <- Ei, <- Eki, <- Ekr.
    destruct (last_sk (m_payloads m) None) as [[[nx ed]|]| | |]; try solve [fin].
    set (icv := integ_outlen (sa_integ a)).
    destruct (length ed <? icv)%nat; try solve [fin].
    destruct (from ed (length ed - icv)) as [cs| | |]; destruct (if (length raw <? icv)%nat then Fault else upto raw (length raw - icv)) as [cov| | |];
      try solve [fin].
    pose proof (calc_eqk a b (negb role) cov Wa Wb He) as Hc.
    destruct (calc_integrity_value digest digest_len a (negb role) cov Wa) as (_ & Ea & Wa').
    destruct (calc_integrity_value digest digest_len b (negb role) cov Wb) as (_ & Eb & Wb').
    destruct (calculate_integrity digest a (negb role) cov) as [ra a']. destruct (calculate_integrity digest b (negb role) cov) as [rb b'].
    cbn [fst snd] in *. subst rb. destruct ra as [ex| | |]; try solve [fin].
    destruct (negb _); try solve [fin].
    destruct (upto ed (length ed - icv)) as [body| | |]; try solve [fin].
    destruct (aes_decrypt aes_dec _ body) as [plain| | |]; try solve [fin].
    destruct (decode_payloads nx plain); fin.
  Qed.

  Lemma set_prf_d_eqk sa o : same_key (sa_prf_d sa) o -> sa_eqk sa (set_prf_d sa o).
  Proof. intros [A K]. unfold sa_eqk, hobj_eqk, set_prf_d. cbn. repeat split; congruence. Qed.

  (* one step from key-equivalent states: same output, key-equivalent successors *)
  Lemma step_eqk a b o : sa_wf a -> sa_wf b -> sa_eqk a b ->
    snd (step a o) = snd (step b o) /\ sa_eqk a (fst (step a o)) /\ sa_eqk b (fst (step b o)) /\
    sa_wf (fst (step a o)) /\ sa_wf (fst (step b o)).
  Proof.
    intros Wa Wb He. destruct o as [role m s|role raw hdr|e i nonce]; unfold step.
    - unfold encode_encrypt. pose proof (encrypt_msg_eqk a b role m s Wa Wb He) as H.
      destruct (encrypt_msg digest aes_enc a role m s) as [[r1 a'] s1].
      destruct (encrypt_msg digest aes_enc b role m s) as [[r2 b'] s2].
      destruct H as (-> & -> & Ea & Eb & Wa' & Wb'). destruct r2; cbn [fst snd]; fin.
    - unfold decode_decrypt.
      match goal with |- context [match ?p with Ok m => _ | Err => _ | Fault => _ | OutOfFuel => _ end] => destruct p as [m| | |] end;
        cbn [fst snd]; try solve [fin].
      destruct (length (m_payloads m) =? 0)%nat; [destruct (h_next (m_hdr m) =? 46); cbn [fst snd]; fin|].
      destruct (first_is_sk (m_payloads m)); [|cbn [fst snd]; fin].
      pose proof (decrypt_msg_eqk a b role raw m Wa Wb He) as H.
      destruct (decrypt_msg digest aes_dec raw m a role) as [[r1 a'] c1].
      destruct (decrypt_msg digest aes_dec raw m b role) as [[r2 b'] c2].
      destruct H as (-> & -> & Ea & Eb & Wa' & Wb'). cbn [fst snd]. fin.
    - destruct (childsa_keys_correct digest digest_len a e i nonce) as (oa & Ra & Ka).
      destruct (childsa_keys_correct digest digest_len b e i nonce) as (ob & Rb & Kb).
      rewrite Ra, Rb. cbn [fst snd]. pose proof He as He'. eqk_fields He'.
      split; [now rewrite Ad, Kd|]. split; [now apply set_prf_d_eqk|]. split; [now apply set_prf_d_eqk|].
      split; [exact Wa|exact Wb].
  Qed.

  Lemma run_inv sa ops : sa_wf sa -> sa_eqk sa (run sa ops) /\ sa_wf (run sa ops).
  Proof.
    revert sa. induction ops as [|o r IH]; intros sa W; [split; [apply sa_eqk_refl|exact W]|].
    unfold run. cbn [fold_left]. fold (run (fst (step sa o)) r).
    destruct (step_eqk sa sa o W W (sa_eqk_refl sa)) as (_ & E1 & _ & W1 & _).
    destruct (IH _ W1) as [E2 W2]. split; [eapply sa_eqk_trans; eassumption|exact W2].
  Qed.

  (* C17: after ANY history the next operation answers as on a fresh object with the same keys *)
  Theorem next_op_as_on_fresh sa fresh ops o :
    sa_wf sa -> sa_wf fresh -> sa_eqk sa fresh ->
    snd (step (run sa ops) o) = snd (step fresh o).
  Proof.
    intros W Wf E. destruct (run_inv sa ops W) as [E1 W1].
    apply (step_eqk (run sa ops) fresh o W1 Wf). eapply sa_eqk_trans; [apply sa_eqk_sym; exact E1|exact E].
  Qed.

  (* ... and so does every further operation: whole traces coincide *)
  Theorem trace_as_on_fresh ops2 : forall sa fresh ops,
    sa_wf sa -> sa_wf fresh -> sa_eqk sa fresh ->
    trace (run sa ops) ops2 = trace fresh ops2.
  Proof.
    induction ops2 as [|o r IH]; intros sa fresh ops W Wf E; [reflexivity|].
    cbn [trace]. f_equal; [now apply next_op_as_on_fresh|].
    destruct (run_inv sa ops W) as [E1 W1].
    destruct (step_eqk (run sa ops) fresh o W1 Wf) as (_ & Ea & Eb & Wa & Wb).
    { eapply sa_eqk_trans; [apply sa_eqk_sym; exact E1|exact E]. }
    apply (IH (fst (step (run sa ops) o)) (fst (step fresh o)) []); auto.
    eapply sa_eqk_trans; [apply sa_eqk_sym; exact Ea|]. eapply sa_eqk_trans; [|exact Eb].
    eapply sa_eqk_trans; [apply sa_eqk_sym; exact E1|exact E].
  Qed.

  (* a message protected after any history is accepted by a fresh peer holding the same keys (with C01) *)
  Theorem protected_after_history_accepted sa peer ops role m s b sa' s' :
    sa_wf sa -> sa_wf peer -> sa_eqk sa peer -> dom_msg m -> sk_consistent (m_payloads m) ->
    encode_encrypt digest aes_enc m (Some (run sa ops)) role s = (Ok b, sa', s') ->
    exists k', decode_decrypt digest aes_dec b None (Some peer) (negb role) =
      (Ok (mkMsg (set_next (m_hdr m) 46) (map norm_payload (m_payloads m))), Some k', [CDec role]).
  Proof.
    intros W Wp E Hd Hc He. destruct (run_inv sa ops W) as [E1 W1].
    destruct (protect_unprotect digest aes_enc aes_dec digest_len blk (run sa ops) peer role m s b sa' s' W1 Wp
                (sa_eqk_trans _ _ _ (sa_eqk_sym _ _ E1) E) Hd Hc He None (or_introl eq_refl)) as (k' & H & _).
    exists k'. exact H.
  Qed.

  (* ... and a fresh peer's message is accepted by the long-lived object *)
  Theorem fresh_peer_accepted_after_history sa peer ops role m s b sa' s' :
    sa_wf sa -> sa_wf peer -> sa_eqk sa peer -> dom_msg m -> sk_consistent (m_payloads m) ->
    encode_encrypt digest aes_enc m (Some peer) role s = (Ok b, sa', s') ->
    exists k', decode_decrypt digest aes_dec b None (Some (run sa ops)) (negb role) =
      (Ok (mkMsg (set_next (m_hdr m) 46) (map norm_payload (m_payloads m))), Some k', [CDec role]).
  Proof.
    intros W Wp E Hd Hc He. destruct (run_inv sa ops W) as [E1 W1].
    destruct (protect_unprotect digest aes_enc aes_dec digest_len blk peer (run sa ops) role m s b sa' s' Wp W1
                (sa_eqk_trans _ _ _ (sa_eqk_sym _ _ E) E1) Hd Hc He None (or_introl eq_refl)) as (k' & H & _).
    exists k'. exact H.
  Qed.
End H.
