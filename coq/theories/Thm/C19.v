(* C19: constructors and builders (Impl/Build.v). *)
From IKE Require Import Lib.Base Lib.BaseLemmas Impl.Msg Impl.Build.
Local Open Scope N_scope.

Lemma land_flag_32 (r i : bool) : N.land ((if r then 32 else 0) + (if i then 8 else 0)) 32 = if r then 32 else 0.
Proof. destruct r, i; reflexivity. Qed.
Lemma land_flag_8 (r i : bool) : N.land ((if r then 32 else 0) + (if i then 8 else 0)) 8 = if i then 8 else 0.
Proof. destruct r, i; reflexivity. Qed.

Lemma new_header_fields ispi rspi exch r i mid nxt :
  let h := new_header ispi rspi exch r i mid nxt in
  h_major h = 2 /\ h_minor h = 0 /\ h_ispi h = ispi /\ h_rspi h = rspi /\ h_exch h = exch /\ h_mid h = mid /\
  h_next h = nxt /\ h_flags h = (if r then 32 else 0) + (if i then 8 else 0) /\
  is_response h = r /\ is_initiator h = i.
Proof. destruct r, i; cbn; repeat split. Qed.

(* every builder appends exactly one element and leaves the prefix untouched *)
Lemma app1_prefix {A} (c : list A) x : firstn (length c) (app1 c x) = c /\ skipn (length c) (app1 c x) = [x].
Proof. unfold app1. split; [now apply firstn_app_len | now apply skipn_app_len]. Qed.

Lemma build_eap5g_nas_spec c id nas :
  (0 < length nas)%nat -> len nas <= 65535 ->
  build_eap5g_nas c id nas =
    Ok (c ++ [PEAP (mkEap 1 id (EDExpanded 10415 3 ([x02; x00] ++ be16 (len nas) ++ nas)))]).
Proof.
  intros Hn Hl. unfold build_eap5g_nas.
  destruct (length nas =? 0)%nat eqn:E; [lia|].
  destruct (65535 <? len nas) eqn:E2; [lia|]. reflexivity.
Qed.

Lemma build_eap5g_nas_oversize c id nas :
  length nas = 0%nat \/ 65535 < len nas -> build_eap5g_nas c id nas = Err.
Proof.
  intros [H|H]; unfold build_eap5g_nas.
  - rewrite H. reflexivity.
  - destruct (length nas =? 0)%nat; [reflexivity|]. destruct (65535 <? len nas) eqn:E; [reflexivity|lia].
Qed.

Lemma build_qos_spec c pdu qfis (d s : bool) dscp :
  len qfis <= 255 -> 4 + len qfis + (if s then 1 else 0) <= 255 ->
  build_notify_5g_qos_info c pdu qfis d s dscp =
    Ok (c ++ [PNotify 0 55501 []
               (n2b (4 + len qfis + (if s then 1 else 0)) ::
                [n2b pdu; n2b (len qfis)] ++ qfis ++ [n2b ((if d then 2 else 0) + (if s then 1 else 0))] ++ (if s then [n2b dscp] else []))]).
Proof.
  intros H1 H2. unfold build_notify_5g_qos_info.
  destruct (255 <? len qfis) eqn:E; [lia|].
  set (body := [n2b pdu; n2b (len qfis)] ++ qfis ++ _ ++ _).
  assert (L : len body = 3 + len qfis + (if s then 1 else 0)).
  { unfold body, len. rewrite !app_length. cbn [length]. destruct s; cbn [length]; lia. }
  rewrite L. destruct (255 <? 1 + (3 + len qfis + (if s then 1 else 0))) eqn:E2; [lia|].
  unfold build_notification, app1.
  replace (1 + (3 + len qfis + (if s then 1 else 0))) with (4 + len qfis + (if s then 1 else 0)) by lia. reflexivity.
Qed.

Lemma build_qos_oversize c pdu qfis (d s : bool) dscp :
  255 < len qfis \/ 255 < 4 + len qfis + (if s then 1 else 0) ->
  build_notify_5g_qos_info c pdu qfis d s dscp = Err.
Proof.
  intros H. unfold build_notify_5g_qos_info.
  destruct (255 <? len qfis) eqn:E; [reflexivity|].
  set (body := [n2b pdu; n2b (len qfis)] ++ qfis ++ _ ++ _).
  assert (L : len body = 3 + len qfis + (if s then 1 else 0)).
  { unfold body, len. rewrite !app_length. cbn [length]. destruct s; cbn [length]; lia. }
  rewrite L. destruct (255 <? 1 + (3 + len qfis + (if s then 1 else 0))) eqn:E2; [reflexivity|]. lia.
Qed.
