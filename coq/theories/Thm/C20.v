(* C20, the part that lives in the model: plain encoding is a function of the message VALUE - in particular it does not
   depend on the iteration order of the EAP-AKA' attribute map, the only source of nondeterminism in the Go encoder - and
   protection replaces the payload list by one Encrypted payload and touches nothing of the header but NextPayload. *)
From IKE Require Import Lib.Base Prim.Hmac Prim.Cbc Impl.Msg Impl.Eap Impl.Payloads Impl.Message Impl.Security Impl.Ike Thm.EapRT.
From Coq Require Import Permutation.
Local Open Scope N_scope.

(* two payloads that differ at most in the order in which the attribute map is enumerated *)
Definition same_eapdata (d d' : eapdata) : Prop :=
  match d, d' with
  | EDAka st rs l, EDAka st' rs' l' => st = st' /\ rs = rs' /\ Permutation l l' /\ NoDup (map at_type l)
  | _, _ => d = d'
  end.
Definition same_payload (p p' : payload) : Prop :=
  match p, p' with
  | PEAP e, PEAP e' => e_code e = e_code e' /\ e_id e = e_id e' /\ same_eapdata (e_data e) (e_data e')
  | _, _ => p = p'
  end.

Lemma same_payload_type p p' : same_payload p p' -> ptype p = ptype p'.
Proof. destruct p, p'; cbn; try congruence; reflexivity. Qed.

Lemma same_payload_marshal p p' : same_payload p p' -> payload_marshal p = payload_marshal p'.
Proof.
  destruct p, p'; cbn [same_payload]; try congruence. intros (Hc & Hi & Hd).
  cbn [payload_marshal]. unfold eap_marshal. rewrite Hc, Hi.
  destruct (e_data e) as [| | | | |st rs l], (e_data e0) as [| | | | |st' rs' l']; cbn [same_eapdata] in Hd; try congruence; try discriminate.
  destruct Hd as (-> & -> & Hp & Hn). cbn [eapdata_marshal]. now rewrite (aka_marshal_perm_invariant st' rs' l l' Hp Hn).
Qed.

Lemma same_next p p' r r' : same_payload p p' -> Forall2 same_payload r r' -> next_of p r = next_of p' r'.
Proof.
  intros Hp Hr. unfold next_of. destruct Hr as [|q q' r r' Hq Hr].
  - destruct p, p'; cbn [same_payload] in Hp; try congruence; reflexivity.
  - now apply same_payload_type.
Qed.

Theorem container_encode_map_order_independent l l' :
  Forall2 same_payload l l' -> container_encode l = container_encode l'.
Proof.
  induction 1 as [|p p' r r' Hp Hr IH]; [reflexivity|].
  cbn [container_encode]. rewrite (same_payload_marshal p p' Hp), IH, (same_next p p' r r' Hp Hr). reflexivity.
Qed.

Theorem encode_map_order_independent m m' :
  m_hdr m = m_hdr m' -> Forall2 same_payload (m_payloads m) (m_payloads m') -> encode m = encode m'.
Proof.
  intros Hh Hp. unfold encode. rewrite Hh, (container_encode_map_order_independent _ _ Hp).
  assert (Hf : first_type (m_payloads m) = first_type (m_payloads m')).
  { unfold first_type. destruct Hp as [|p p' r r' Hq _]; [reflexivity|now apply same_payload_type]. }
  now rewrite Hf.
Qed.

Section P.
  Variable digest : halg -> bytes -> bytes.
  Variable aes_enc : bytes -> bytes -> bytes.
  (* protection leaves the header as it was except NextPayload := 46 and replaces the payloads by one SK payload *)
  Theorem encrypt_msg_touches_only_the_payload_list sa role m s m' sa' s' :
    encrypt_msg digest aes_enc sa role m s = (Ok m', sa', s') ->
    m_hdr m' = set_next (m_hdr m) 46 /\ exists nxt d, m_payloads m' = [PSK nxt d].
  Proof.
    unfold encrypt_msg.
    destruct (container_encode (m_payloads m)); try discriminate.
    destruct (aes_encrypt aes_enc _ _ s) as [[ct| | |] s1]; try discriminate.
    destruct (encode _); try discriminate.
    destruct (upto _ _); try discriminate.
    destruct (calculate_integrity digest sa role _) as [[cs| | |] k]; try discriminate.
    intros Hq. injection Hq as <- _ _. split; [reflexivity|]. cbn [m_payloads]. eauto.
  Qed.
End P.
