(* C10: AES-CBC transform (Impl.Security.aes_encrypt / aes_decrypt over Prim.Cbc) *)
From IKE Require Import Lib.Base Lib.BaseLemmas Prim.Cbc Impl.Security Thm.DhThm.
Local Open Scope N_scope.

(* ---- xor on octets ---- *)
Lemma log2_lt8 a : a < 256 -> a <> 0 -> N.log2 a < 8.
Proof. intros H Hn. change 256 with (2 ^ 8) in H. apply N.log2_lt_pow2; lia. Qed.

Lemma lxor_lt_256 a b : a < 256 -> b < 256 -> N.lxor a b < 256.
Proof.
  intros Ha Hb. destruct (N.eq_dec (N.lxor a b) 0) as [E|E]; [rewrite E; lia|].
  change 256 with (2 ^ 8). apply N.log2_lt_pow2; [lia|].
  pose proof (N.log2_lxor a b) as L.
  assert (N.log2 a < 8) by (destruct (N.eq_dec a 0) as [->|]; [cbn; lia|now apply log2_lt8]).
  assert (N.log2 b < 8) by (destruct (N.eq_dec b 0) as [->|]; [cbn; lia|now apply log2_lt8]).
  lia.
Qed.

Lemma bxor_invol a b : bxor (bxor a b) b = a.
Proof.
  unfold bxor. rewrite b2n_n2b.
  rewrite N.mod_small by (apply lxor_lt_256; apply b2n_lt).
  rewrite N.lxor_assoc, N.lxor_nilpotent, N.lxor_0_r. apply n2b_b2n.
Qed.

Lemma xor_bytes_invol a b : (length a <= length b)%nat -> xor_bytes (xor_bytes a b) b = a.
Proof.
  revert b; induction a as [|x a IH]; intros b H; [reflexivity|].
  destruct b as [|y b]; [cbn in H; lia|]. cbn [length] in H.
  unfold xor_bytes in *. cbn [combine map fst snd]. rewrite bxor_invol. f_equal. apply IH. lia.
Qed.

Lemma xor_bytes_length a b : length (xor_bytes a b) = Nat.min (length a) (length b).
Proof. unfold xor_bytes. now rewrite map_length, combine_length. Qed.

Section C.
  Variable E D : bytes -> bytes.
  Hypothesis E_len : forall b, length (E b) = 16%nat.
  Hypothesis DE : forall b, length b = 16%nat -> D (E b) = b.

  Lemma cbc_enc_length n : forall prev data, length (cbc_enc E n prev data) = (16 * n)%nat.
  Proof.
    induction n as [|n IH]; intros prev data; [reflexivity|].
    cbn [cbc_enc]. rewrite app_length, E_len, IH. lia.
  Qed.

  Lemma cbc_dec_enc n : forall prev data,
    length prev = 16%nat -> length data = (16 * n)%nat ->
    cbc_dec D n prev (cbc_enc E n prev data) = data.
  Proof.
    induction n as [|n IH]; intros prev data Hp Hd.
    - destruct data; [reflexivity|cbn in Hd; lia].
    - cbn [cbc_enc cbc_dec].
      set (c := E (xor_bytes (firstn 16 data) prev)).
      assert (Lc : length c = 16%nat) by apply E_len.
      rewrite (firstn_app_len c _ 16) by (symmetry; exact Lc).
      rewrite (skipn_app_len c _ 16) by (symmetry; exact Lc).
      unfold c at 1. rewrite DE.
      + rewrite xor_bytes_invol by (rewrite firstn_length; lia).
        rewrite IH; [apply firstn_skipn | exact Lc | rewrite skipn_length; lia].
      + rewrite xor_bytes_length, firstn_length. lia.
  Qed.
End C.

Section AES.
  Variable aes_enc aes_dec : bytes -> bytes -> bytes.
  Definition block_hyps : Prop :=
    (forall k b, length (aes_enc k b) = 16%nat) /\ (forall k b, length b = 16%nat -> aes_dec k (aes_enc k b) = b) /\
    (forall k b, length (aes_dec k b) = 16%nat).
  Hypothesis H : block_hyps.

  Lemma draw_split n : forall s b s1, draw n s = (Ok b, s1) -> s = map (@Some byte) b ++ s1 /\ length b = n.
  Proof.
    induction n as [|n IH]; intros s b s1 Hd; cbn [draw] in Hd.
    - injection Hd as <- <-. split; reflexivity.
    - destruct s as [|[y|] r]; try discriminate.
      destruct (draw n r) as [[l| | |] r'] eqn:Dn; try discriminate.
      injection Hd as <- <-. destruct (IH _ _ _ Dn) as [-> L]. split; [reflexivity|cbn; now f_equal].
  Qed.

  Definition pad_of (p : bytes) : nat := (16 - length p mod 16)%nat.

  (* everything the property says about one encryption, as one statement *)
  Theorem aes_encrypt_spec key p s ct s2 :
    aes_encrypt aes_enc key p s = (Ok ct, s2) ->
    exists padr iv,
      (* the random source: pad octets, then 16 IV octets *)
      s = map (@Some byte) padr ++ map (@Some byte) iv ++ s2 /\ length padr = pad_of p /\ length iv = 16%nat /\
      (* layout: IV followed by textbook CBC of plaintext | pad | pad length *)
      let padded := p ++ firstn (pad_of p - 1) padr ++ [n2b (N.of_nat (pad_of p - 1))] in
      ct = iv ++ cbc_enc (aes_enc key) (length padded / 16) iv padded /\
      length padded = (length p + pad_of p)%nat /\
      (* size law *)
      length ct = (16 + length p + pad_of p)%nat /\ (1 <= pad_of p <= 16)%nat /\ ((length p + pad_of p) mod 16 = 0)%nat /\
      (* inverse *)
      aes_decrypt aes_dec key ct = Ok p.
  Proof.
    destruct H as (El & DEk & _).
    unfold aes_encrypt, pkcs7_padding. fold (pad_of p).
    destruct (draw (pad_of p) s) as [[padr| | |] s1] eqn:D1; try discriminate.
    destruct (draw 16 s1) as [[iv| | |] s2'] eqn:D2; try discriminate.
    intros [= <- <-].
    destruct (draw_split _ _ _ _ D1) as [-> L1]. destruct (draw_split _ _ _ _ D2) as [-> L2].
    exists padr, iv. split; [reflexivity|]. split; [exact L1|]. split; [exact L2|].
    set (padded := p ++ firstn (pad_of p - 1) padr ++ [n2b (N.of_nat (pad_of p - 1))]).
    assert (Hpad : (1 <= pad_of p <= 16)%nat).
    { unfold pad_of. pose proof (Nat.mod_upper_bound (length p) 16). lia. }
    assert (Lp : length padded = (length p + pad_of p)%nat).
    { unfold padded. rewrite !app_length, firstn_length. cbn [length]. lia. }
    assert (M16 : ((length p + pad_of p) mod 16 = 0)%nat).
    { unfold pad_of. pose proof (Nat.div_mod (length p) 16). 
      replace (length p + (16 - length p mod 16))%nat with (16 * (length p / 16 + 1))%nat by lia.
      rewrite Nat.mul_comm. apply Nat.mod_mul. lia. }
    assert (Dv : length padded = (16 * (length padded / 16))%nat).
    { rewrite Lp. pose proof (Nat.div_mod (length p + pad_of p) 16). lia. }
    split; [reflexivity|]. split; [exact Lp|].
    assert (Lc : length (cbc_enc (aes_enc key) (length padded / 16) iv padded) = length padded).
    { rewrite (cbc_enc_length (aes_enc key) (aes_dec key) (fun b => El key b) (fun b Hb => DEk key b Hb)). lia. }
    split; [rewrite app_length, Lc, Lp, L2; lia|]. split; [exact Hpad|]. split; [exact M16|].
    (* decrypt *)
    unfold aes_decrypt. rewrite app_length, L2, Lc.
    destruct (16 + length padded <? 16)%nat eqn:E1; [lia|].
    rewrite upto_app by (symmetry; exact L2). cbn [bind].
    rewrite from_app by (symmetry; exact L2). cbn [bind]. rewrite Lc.
    destruct (length padded =? 0)%nat eqn:E2; [lia|].
    replace (length padded mod 16)%nat with 0%nat by (rewrite Lp; lia). cbn [negb Nat.eqb].
    change (0 =? 0)%nat with true. cbn [negb].
    rewrite (cbc_dec_enc (aes_enc key) (aes_dec key) (fun b => El key b) (fun b Hb => DEk key b Hb)); [| exact L2 | exact Dv].
    assert (Last : idx padded (length padded - 1) = Ok (N.of_nat (pad_of p - 1))).
    { unfold idx, padded. rewrite app_assoc. rewrite nth_error_app2 by (rewrite !app_length, firstn_length; cbn; lia).
      replace (length ((p ++ firstn (pad_of p - 1) padr) ++ [n2b (N.of_nat (pad_of p - 1))]) - 1 - length (p ++ firstn (pad_of p - 1) padr))%nat with 0%nat
        by (rewrite !app_length, firstn_length; cbn; lia).
      cbn [nth_error]. rewrite b2n_n2b_small by lia. reflexivity. }
    rewrite Last. cbn [bind]. rewrite Nat2N.id.
    match goal with |- context[if ?c then _ else _] => destruct c eqn:E3 end; [lia|].
    rewrite upto_ok by lia. f_equal. unfold padded. apply firstn_app_len. fold padded. rewrite Lp. lia.
  Qed.

  (* any legal padding (RFC 7296 s3.14: 0..255 arbitrary pad octets, then the pad length), any IV: accepted *)
  Theorem aes_decrypt_any_padding key p iv pad :
    length iv = 16%nat -> (length pad <= 255)%nat -> ((length p + length pad + 1) mod 16 = 0)%nat ->
    let padded := p ++ pad ++ [n2b (N.of_nat (length pad))] in
    aes_decrypt aes_dec key (iv ++ cbc_enc (aes_enc key) (length padded / 16) iv padded) = Ok p.
  Proof.
    destruct H as (El & DEk & _). intros L2 Hpl M16 padded.
    assert (Lp : length padded = (length p + length pad + 1)%nat) by (unfold padded; rewrite !app_length; cbn [length]; lia).
    assert (Dv : length padded = (16 * (length padded / 16))%nat).
    { rewrite Lp. pose proof (Nat.div_mod (length p + length pad + 1) 16). lia. }
    assert (Lc : length (cbc_enc (aes_enc key) (length padded / 16) iv padded) = length padded).
    { rewrite (cbc_enc_length (aes_enc key) (aes_dec key) (fun b => El key b) (fun b Hb => DEk key b Hb)). lia. }
    unfold aes_decrypt. rewrite app_length, L2, Lc.
    destruct (16 + length padded <? 16)%nat eqn:E1; [lia|].
    rewrite upto_app by (symmetry; exact L2). cbn [bind].
    rewrite from_app by (symmetry; exact L2). cbn [bind]. rewrite Lc.
    destruct (length padded =? 0)%nat eqn:E2; [lia|].
    replace (length padded mod 16)%nat with 0%nat by (rewrite Lp; lia).
    change (0 =? 0)%nat with true. cbn [negb].
    rewrite (cbc_dec_enc (aes_enc key) (aes_dec key) (fun b => El key b) (fun b Hb => DEk key b Hb)); [| exact L2 | exact Dv].
    assert (Last : idx padded (length padded - 1) = Ok (N.of_nat (length pad))).
    { unfold idx, padded. rewrite app_assoc. rewrite nth_error_app2 by (rewrite !app_length; cbn; lia).
      replace (length ((p ++ pad) ++ [n2b (N.of_nat (length pad))]) - 1 - length (p ++ pad))%nat with 0%nat
        by (rewrite !app_length; cbn; lia).
      cbn [nth_error]. rewrite b2n_n2b_small by lia. reflexivity. }
    rewrite Last. cbn [bind]. rewrite Nat2N.id.
    match goal with |- context[if ?c then _ else _] => destruct c eqn:E3 end; [lia|].
    rewrite upto_ok by lia. f_equal. unfold padded. apply firstn_app_len. fold padded. rewrite Lp. lia.
  Qed.

  (* a failing random source gives an error, never a ciphertext *)
  Theorem aes_encrypt_fault key p s :
    (exists k, (k < pad_of p + 16)%nat /\ (nth_error s k = Some None \/ nth_error s k = None)) ->
    fst (aes_encrypt aes_enc key p s) = Err.
  Proof.
    intros (k & Hk & Hn).
    assert (DF : forall n s, (exists k, (k < n)%nat /\ (nth_error s k = Some None \/ nth_error s k = None)) -> fst (draw n s) = Err).
    { clear. induction n as [|n IH]; intros s (k & Hk & Hn); [lia|].
      cbn [draw]. destruct s as [|[y|] r]; try reflexivity.
      destruct k as [|k]; [cbn in Hn; destruct Hn; discriminate|].
      assert (IHr : fst (draw n r) = Err) by (apply IH; exists k; split; [lia|exact Hn]).
      destruct (draw n r) as [[l| | |] r'] eqn:Dn; cbn in *; try reflexivity; discriminate. }
    unfold aes_encrypt, pkcs7_padding. fold (pad_of p).
    destruct (draw (pad_of p) s) as [[padr| | |] s1] eqn:D1; try reflexivity.
    destruct (draw_split _ _ _ _ D1) as [-> L1].
    destruct (draw 16 s1) as [[iv| | |] s2] eqn:D2; try reflexivity.
    exfalso. assert (Hs1 : fst (draw 16 s1) = Err).
    { apply DF. destruct (Nat.lt_ge_cases k (pad_of p)) as [Hlt|Hge].
      - rewrite nth_error_app1 in Hn by (rewrite map_length; lia).
        rewrite nth_error_map in Hn. destruct (nth_error padr k) eqn:Nk; cbn in Hn.
        + destruct Hn; discriminate.
        + apply nth_error_None in Nk. lia.
      - exists (k - pad_of p)%nat. split; [lia|]. rewrite nth_error_app2 in Hn by (rewrite map_length; lia).
        now rewrite map_length, L1 in Hn. }
    rewrite D2 in Hs1. discriminate.
  Qed.

  (* decryption never crashes, whatever the ciphertext *)
  Theorem aes_decrypt_no_fault key ct : aes_decrypt aes_dec key ct <> Fault /\ aes_decrypt aes_dec key ct <> OutOfFuel.
  Proof.
    unfold aes_decrypt.
    destruct (length ct <? 16)%nat eqn:E1; [split; discriminate|].
    rewrite upto_ok by lia. cbn [bind]. rewrite from_ok by lia. cbn [bind].
    destruct (length (skipn 16 ct) =? 0)%nat eqn:E2; [split; discriminate|].
    destruct (negb (length (skipn 16 ct) mod 16 =? 0)%nat) eqn:E3; [split; discriminate|].
    set (plain := cbc_dec _ _ _ _).
    destruct (idx plain (length plain - 1)) as [l| | |] eqn:I; cbn [bind]; try (split; discriminate).
    - destruct (length plain <? nat_of l + 1)%nat eqn:E4; [split; discriminate|].
      rewrite upto_ok by lia. split; discriminate.
    - (* idx cannot fault: the plaintext has as many octets as the (non-empty) ciphertext body *)
      exfalso. apply idx_fault in I. destruct H as (_ & _ & Dl).
      assert (LP : forall n prev data, length data = (16 * n)%nat -> length prev = 16%nat ->
                                       length (cbc_dec (aes_dec key) n prev data) = (16 * n)%nat).
      { clear - Dl. induction n as [|n IHn]; intros prev data Hd Hp; [reflexivity|].
        cbn [cbc_dec]. rewrite app_length, xor_bytes_length, Dl, Hp, IHn.
        - lia.
        - rewrite skipn_length. lia.
        - rewrite firstn_length. lia. }
      apply negb_false_iff in E3. apply Nat.eqb_eq in E3. apply Nat.eqb_neq in E2.
      pose proof (Nat.div_mod (length (skipn 16 ct)) 16).
      unfold plain in I. rewrite LP in I; [lia | lia | rewrite firstn_length; lia].
    - unfold idx in I. destruct (nth_error plain (length plain - 1)); discriminate.
  Qed.

  (* too short, misaligned or impossible pad length: an error *)
  Theorem aes_decrypt_rejects key ct :
    (length ct < 32)%nat \/ (length ct mod 16 <> 0)%nat -> aes_decrypt aes_dec key ct = Err.
  Proof.
    intros Hc. unfold aes_decrypt.
    destruct (length ct <? 16)%nat eqn:E1; [reflexivity|].
    rewrite upto_ok by lia. cbn [bind]. rewrite from_ok by lia. cbn [bind]. rewrite skipn_length.
    destruct (length ct - 16 =? 0)%nat eqn:E2; [reflexivity|].
    destruct (negb ((length ct - 16) mod 16 =? 0)%nat) eqn:E3; [reflexivity|].
    exfalso. apply negb_false_iff in E3. apply Nat.eqb_eq in E3.
    assert (16 <= length ct)%nat by lia.
    assert ((length ct) mod 16 = (length ct - 16) mod 16)%nat.
    { replace (length ct) with ((length ct - 16) + 1 * 16)%nat at 1 by lia. apply Nat.mod_add. lia. }
    destruct Hc as [Hc|Hc]; [|lia].
    assert (length ct - 16 < 16)%nat by lia. rewrite Nat.mod_small in E3 by lia. lia.
  Qed.

  Theorem new_crypto_iff e key : (exists k, new_crypto e key = Ok k) <-> length key = encr_keylen e.
  Proof.
    unfold new_crypto. destruct (length key =? encr_keylen e)%nat eqn:E; cbn.
    - apply Nat.eqb_eq in E. split; [auto|]. intros _. now exists key.
    - apply Nat.eqb_neq in E. split; [intros [k Hk]; discriminate|tauto].
  Qed.
End AES.
