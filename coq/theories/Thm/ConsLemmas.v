(* Reading fields at fixed offsets of an octet list given in cons form, and shifting slices past a cons. *)
From IKE Require Import Lib.Base Lib.BaseLemmas Thm.Tactics.

Lemma sub_S x l i j : sub (x :: l) (S i) (S j) = sub l i j.
Proof. unfold sub. cbn [length]. replace (S j - S i)%nat with (j - i)%nat by lia.
  replace (S i <=? S j)%nat with (i <=? j)%nat by (destruct (Nat.leb_spec i j), (Nat.leb_spec (S i) (S j)); lia).
  replace (S j <=? S (length l))%nat with (j <=? length l)%nat by (destruct (Nat.leb_spec j (length l)), (Nat.leb_spec (S j) (S (length l))); lia).
  reflexivity.
Qed.
Lemma from_S x l i : from (x :: l) (S i) = from l i.
Proof. unfold from. cbn [length].
  replace (S i <=? S (length l))%nat with (i <=? length l)%nat by (destruct (Nat.leb_spec i (length l)), (Nat.leb_spec (S i) (S (length l))); lia).
  reflexivity.
Qed.
Lemma from_0 l : from l 0 = Ok l.
Proof. reflexivity. Qed.
Lemma idx_S x l i : idx (x :: l) (S i) = idx l i.
Proof. reflexivity. Qed.
Lemma idx_0 x l : idx (x :: l) 0 = Ok (b2n x).
Proof. reflexivity. Qed.
Lemma u16at_S x l i : u16at (x :: l) (S i) = u16at l i.
Proof. unfold u16at. change (S i + 2)%nat with (S (i + 2)). now rewrite sub_S. Qed.
Lemma u16at_0 x y l : u16at (x :: y :: l) 0 = Ok (be_val [x; y]).
Proof. reflexivity. Qed.
Lemma u32at_S x l i : u32at (x :: l) (S i) = u32at l i.
Proof. unfold u32at. change (S i + 4)%nat with (S (i + 4)). now rewrite sub_S. Qed.
Lemma u32at_0 a b c d l : u32at (a :: b :: c :: d :: l) 0 = Ok (be_val [a; b; c; d]).
Proof. reflexivity. Qed.
Lemma u64at_S x l i : u64at (x :: l) (S i) = u64at l i.
Proof. unfold u64at. change (S i + 8)%nat with (S (i + 8)). now rewrite sub_S. Qed.
Lemma u64at_0 a b c d e f g h l : u64at (a :: b :: c :: d :: e :: f :: g :: h :: l) 0 = Ok (be_val [a; b; c; d; e; f; g; h]).
Proof. reflexivity. Qed.
Lemma sub_0_app a b j : j = length a -> sub (a ++ b) 0 j = Ok a.
Proof. intros. now apply sub_prefix. Qed.
Lemma sub_0_all a j : j = length a -> sub a 0 j = Ok a.
Proof. intros ->. rewrite <- (app_nil_r a) at 1. now apply sub_prefix. Qed.
Lemma upto_S x l j : upto (x :: l) (S j) = res_map (cons x) (upto l j).
Proof. unfold upto. cbn [length].
  replace (S j <=? S (length l))%nat with (j <=? length l)%nat by (destruct (Nat.leb_spec j (length l)), (Nat.leb_spec (S j) (S (length l))); lia).
  destruct (j <=? length l)%nat; reflexivity.
Qed.

(* numbers written big-endian and read back *)
Lemma be_val_be16 n : (n < 65536)%N -> be_val [n2b (n / 256); n2b n] = n.
Proof. intros. change [n2b (n / 256); n2b n] with (be16 n). now apply be16_val. Qed.
Lemma be_val_be32 n : (n < 4294967296)%N -> be_val [n2b (n / 16777216); n2b (n / 65536); n2b (n / 256); n2b n] = n.
Proof. intros. change [n2b (n / 16777216); n2b (n / 65536); n2b (n / 256); n2b n] with (be32 n). now apply be32_val. Qed.

(* move every accessor past the leading conses *)
Ltac shift :=
  repeat first
    [ rewrite sub_S | rewrite from_S | rewrite idx_S | rewrite u16at_S | rewrite u32at_S | rewrite u64at_S
    | rewrite idx_0 | rewrite u16at_0 | rewrite u32at_0 | rewrite u64at_0 | rewrite from_0 ].

Ltac consify0 := cbn [app be16 be32 be64].
Ltac nums := rewrite ?b2n_n2b_small, ?be_val_be16, ?be_val_be32, ?len_nat by lia.
Ltac step := cbn [Nat.add]; shift; cbn [bind]; nums.
