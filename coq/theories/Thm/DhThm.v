(* C09: MODP groups 2 / 14 (Impl/Dh.v) *)
From Coq Require Import Zpow_facts.
From IKE Require Import Lib.Base Lib.BaseLemmas Spec.Modp Impl.Security Impl.Dh.
Local Open Scope N_scope.

Lemma be_val_zeros k v : be_val (zeros k ++ v) = be_val v.
Proof.
  rewrite be_val_app. replace (be_val (zeros k)) with 0; [lia|].
  induction k as [|k IH]; [reflexivity|]. cbn [zeros repeat]. rewrite be_val_cons. fold (zeros k). rewrite <- IH. reflexivity.
Qed.

Lemma be_min_f_val fuel : forall n acc,
  n < 256 ^ N.of_nat fuel -> be_val (be_min_f fuel n acc) = n * 256 ^ N.of_nat (length acc) + be_val acc.
Proof.
  induction fuel as [|f IH]; intros n acc H.
  - change (N.of_nat 0) with 0 in H. rewrite N.pow_0_r in H. assert (n = 0) by lia. subst. cbn [be_min_f]. lia.
  - cbn [be_min_f]. destruct (n =? 0) eqn:E; [apply N.eqb_eq in E; subst; lia|].
    rewrite IH.
    + rewrite be_val_cons, b2n_n2b. cbn [length]. rewrite Nat2N.inj_succ, N.pow_succ_r'.
      pose proof (N.div_mod n 256). nia.
    + rewrite Nat2N.inj_succ, N.pow_succ_r' in H. apply N.div_lt_upper_bound; lia.
Qed.

Lemma be_min_f_len fuel : forall n acc k,
  n < 256 ^ N.of_nat k -> (length (be_min_f fuel n acc) <= k + length acc)%nat.
Proof.
  induction fuel as [|f IH]; intros n acc k H; [cbn; lia|].
  cbn [be_min_f]. destruct (n =? 0) eqn:E; [lia|]. apply N.eqb_neq in E.
  destruct k as [|k]; [change (N.of_nat 0) with 0 in H; rewrite N.pow_0_r in H; lia|].
  specialize (IH (n / 256) (n2b n :: acc) k). cbn [length] in IH.
  rewrite Nat2N.inj_succ, N.pow_succ_r' in H.
  assert (n / 256 < 256 ^ N.of_nat k) by (apply N.div_lt_upper_bound; lia). specialize (IH H0). lia.
Qed.

Lemma pow2_le_256 s : 2 ^ s <= 256 ^ s.
Proof. apply N.pow_le_mono_l. lia. Qed.

Lemma be_min_val n : be_val (be_min n) = n.
Proof.
  unfold be_min. rewrite be_min_f_val.
  - cbn [length]. change (N.of_nat 0) with 0. rewrite N.pow_0_r. unfold be_val at 1. cbn. lia.
  - rewrite N2Nat.id. pose proof (N.size_gt n). pose proof (pow2_le_256 (N.size n)). lia.
Qed.

Lemma be_min_len n k : n < 256 ^ N.of_nat k -> (length (be_min n) <= k)%nat.
Proof. intros H. unfold be_min. pose proof (be_min_f_len (N.to_nat (N.size n)) n [] k H). cbn [length] in H0. lia. Qed.

Lemma dh_prime_pos g : (1 < dh_prime g)%Z.
Proof. destruct g; vm_compute; reflexivity. Qed.
Lemma dh_prime_bound g : (dh_prime g < 256 ^ Z.of_nat (dh_len g))%Z.
Proof. destruct g; vm_compute; reflexivity. Qed.

(* the value computed: base^x mod p, 0 <= . < p *)
Definition modp (g : dh_alg) (base x : Z) : Z := (base ^ x mod dh_prime g)%Z.

Lemma modp_range g base x : (0 <= modp g base x < dh_prime g)%Z.
Proof. unfold modp. apply Z.mod_pos_bound. pose proof (dh_prime_pos g). lia. Qed.

Theorem dh_exp_correct g base x :
  exists b, dh_exp g base x = Ok b /\ length b = dh_len g /\ Z.of_N (be_val b) = modp g base x.
Proof.
  unfold dh_exp. rewrite Zpow_mod_correct by (pose proof (dh_prime_pos g); lia). fold (modp g base x).
  pose proof (modp_range g base x) as R. pose proof (dh_prime_bound g) as B.
  set (v := Z.to_N (modp g base x)).
  assert (Hv : v < 256 ^ N.of_nat (dh_len g)).
  { unfold v. apply N2Z.inj_lt. rewrite Z2N.id by lia. rewrite N2Z.inj_pow, nat_N_Z. cbn [Z.of_N]. lia. }
  pose proof (be_min_len v (dh_len g) Hv) as L.
  unfold pad_left. destruct (dh_len g <? length (be_min v))%nat eqn:E; [lia|].
  eexists. split; [reflexivity|]. split.
  - rewrite app_length, zeros_length. lia.
  - rewrite be_val_zeros, be_min_val. unfold v. apply Z2N.id. lia.
Qed.

Corollary dh_public_correct g x :
  exists b, dh_public g x = Ok b /\ length b = dh_len g /\ Z.of_N (be_val b) = (2 ^ x mod dh_prime g)%Z.
Proof. apply dh_exp_correct. Qed.

Corollary dh_shared_correct g x peer :
  exists b, dh_shared g x peer = Ok b /\ length b = dh_len g /\
            Z.of_N (be_val b) = (Z.of_N (be_val peer) ^ x mod dh_prime g)%Z.
Proof. apply dh_exp_correct. Qed.

(* two parties compute the same shared secret from each other's public values *)
Theorem dh_agreement g a b pa pb :
  (0 <= a)%Z -> (0 <= b)%Z -> dh_public g a = Ok pa -> dh_public g b = Ok pb ->
  dh_shared g a pb = dh_shared g b pa.
Proof.
  intros Ha Hb Pa Pb.
  destruct (dh_public_correct g a) as (pa' & E1 & _ & V1). rewrite Pa in E1. injection E1 as <-.
  destruct (dh_public_correct g b) as (pb' & E2 & _ & V2). rewrite Pb in E2. injection E2 as <-.
  unfold dh_shared, dh_exp. rewrite V1, V2.
  pose proof (dh_prime_pos g) as P.
  rewrite !Zpow_mod_correct by lia.
  rewrite <- !Zpower_mod by lia. rewrite <- !Z.pow_mul_r by lia. now rewrite Z.mul_comm.
Qed.

(* ---- exponent generation ---- *)
Lemma draw_ok_length n : forall s b s', draw n s = (Ok b, s') -> length b = n.
Proof.
  induction n as [|n IH]; intros s b s' H; cbn [draw] in H.
  - now injection H as <- <-.
  - destruct s as [|[x|] r]; try discriminate.
    destruct (draw n r) as [[l| | |] r'] eqn:D; try discriminate.
    injection H as <- <-. cbn [length]. f_equal. eapply IH; eauto.
Qed.

Lemma draw_not_fault n : forall s, fst (draw n s) <> Fault /\ fst (draw n s) <> OutOfFuel.
Proof.
  induction n as [|n IH]; intros s; cbn [draw]; [split; discriminate|].
  destruct s as [|[x|] r]; cbn; try (split; discriminate).
  specialize (IH r). destruct (draw n r) as [[l| | |] r']; cbn in *; intuition discriminate.
Qed.

Theorem generate_random_number_range fuel : forall s x s',
  generate_random_number fuel s = (Ok x, s') -> 2 ^ 128 <= x < 2 ^ 2048 - 1.
Proof.
  induction fuel as [|f IH]; intros s x s' H; cbn [generate_random_number] in H; [discriminate|].
  destruct (draw 256 s) as [[b| | |] s1] eqn:D; try discriminate.
  destruct ((be_val b <? rnd_max) && (rnd_min <? be_val b)) eqn:C.
  - injection H as <- <-. apply andb_prop in C. destruct C as [C1 C2].
    apply N.ltb_lt in C1, C2. unfold rnd_max, rnd_min in *. lia.
  - eapply IH; eauto.
Qed.

(* the exponent is the big-endian value of 256 octets drawn from the source *)
Theorem generate_random_number_provenance fuel : forall s x s',
  generate_random_number fuel s = (Ok x, s') ->
  exists pre b, length b = 256%nat /\ x = be_val b /\
                exists post, map (@Some byte) b ++ post = skipn pre s /\ s' = post.
Proof.
  induction fuel as [|f IH]; intros s x s' H; cbn [generate_random_number] in H; [discriminate|].
  destruct (draw 256 s) as [[b| | |] s1] eqn:D; try discriminate.
  assert (DS : forall n s b s1, draw n s = (Ok b, s1) -> s = map (@Some byte) b ++ s1).
  { clear. induction n as [|n IHn]; intros s b s1 H; cbn [draw] in H.
    - injection H as <- <-. reflexivity.
    - destruct s as [|[y|] r]; try discriminate.
      destruct (draw n r) as [[l| | |] r'] eqn:D; try discriminate.
      injection H as <- <-. cbn [map app]. f_equal. eapply IHn; eauto. }
  destruct ((be_val b <? rnd_max) && (rnd_min <? be_val b)) eqn:C.
  - injection H as <- <-. exists 0%nat, b. split; [eapply draw_ok_length; eauto|]. split; [reflexivity|].
    exists s1. split; [|reflexivity]. cbn [skipn]. symmetry. eapply DS; eauto.
  - destruct (IH _ _ _ H) as (pre & b' & Lb & Xb & post & Hp & Hs).
    exists (256 + pre)%nat, b'. split; [exact Lb|]. split; [exact Xb|]. exists post. split; [|exact Hs].
    rewrite (DS _ _ _ _ D). rewrite skipn_app, map_length, (draw_ok_length _ _ _ _ D).
    rewrite skipn_all2 by (rewrite map_length, (draw_ok_length _ _ _ _ D); lia).
    replace (256 + pre - 256)%nat with pre by lia. exact Hp.
Qed.
