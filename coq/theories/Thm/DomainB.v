(* A boolean decision procedure for the encoding domain dom_msg, sound w.r.t. the Prop version:
   used for the non-vacuity examples and, extracted, by the harness to measure which generated messages lie in
   the domain the theorems quantify over. *)
From IKE Require Import Lib.Base Lib.BaseLemmas Impl.Msg Impl.Eap Impl.Payloads Impl.Message Spec.Wire
     Thm.EapRT Thm.RoundTrip Thm.EncodeSpec.
Local Open Scope N_scope.

Definition nonempty {A} (l : list A) : bool := match l with [] => false | _ => true end.
Lemma nonempty_ok {A} (l : list A) : nonempty l = true -> l <> [].
Proof. destruct l; [discriminate|discriminate]. Qed.
Definition isnil {A} (l : list A) : bool := match l with [] => true | _ => false end.
Lemma isnil_ok {A} (l : list A) : isnil l = true -> l = [].
Proof. destruct l; [reflexivity|discriminate]. Qed.

Definition dom_transformb (t : transform) : bool :=
  (t_type t <? 256) && (t_id t <? 65536) &&
  (if t_present t then
     (t_atype t <? 32768) &&
     (((t_format t =? 0) && (t_aval t =? 0) && nonempty (t_var t) && (len (t_var t) <? 65524)) ||
      ((t_format t =? 1) && (t_aval t <? 65536) && isnil (t_var t)))
   else (t_format t =? 0) && (t_atype t =? 0) && (t_aval t =? 0) && isnil (t_var t)).

Ltac bsplit := repeat match goal with
  | H : _ && _ = true |- _ => apply andb_prop in H; destruct H
  | H : (_ <? _) = true |- _ => apply N.ltb_lt in H
  | H : (_ <=? _) = true |- _ => apply N.leb_le in H
  | H : (_ =? _) = true |- _ => apply N.eqb_eq in H
  | H : (_ =? _)%nat = true |- _ => apply Nat.eqb_eq in H
  | H : nonempty _ = true |- _ => apply nonempty_ok in H
  | H : isnil _ = true |- _ => apply isnil_ok in H
  end.

Lemma dom_transformb_ok t : dom_transformb t = true -> dom_transform t.
Proof.
  unfold dom_transformb, dom_transform. intros H. bsplit. split; [assumption|]. split; [assumption|].
  destruct (t_present t).
  - right. bsplit. split; [reflexivity|]. split; [assumption|].
    match goal with H : _ || _ = true |- _ => apply orb_prop in H; destruct H end; bsplit; [left|right]; repeat split; assumption.
  - left. bsplit. repeat split; assumption.
Qed.

Definition typed_asb (ty : N) (l : list transform) : bool := forallb (fun t => t_type t =? ty) l.
Lemma typed_asb_ok ty l : typed_asb ty l = true -> typed_as ty l.
Proof. unfold typed_asb, typed_as. rewrite forallb_forall, Forall_forall. intros H t Ht. apply N.eqb_eq. now apply H. Qed.

Definition dom_proposalb (p : proposal) : bool :=
  (p_num p <? 256) && (p_proto p <? 256) && (len (p_spi p) <=? 255) &&
  nonempty (all_transforms p) && (len (all_transforms p) <=? 255) && forallb dom_transformb (all_transforms p) &&
  typed_asb 1 (p_encr p) && typed_asb 2 (p_prf p) && typed_asb 3 (p_integ p) && typed_asb 4 (p_dh p) && typed_asb 5 (p_esn p) &&
  (8 + len (p_spi p) + len (wenc_list wenc_transform (map canon_transform (all_transforms p))) <? 65536).

Lemma forallb_Forall {A} (f : A -> bool) (P : A -> Prop) l :
  (forall x, f x = true -> P x) -> forallb f l = true -> Forall P l.
Proof. intros H Hf. rewrite forallb_forall in Hf. apply Forall_forall. intros x Hx. apply H, Hf, Hx. Qed.

Lemma dom_proposalb_ok p : dom_proposalb p = true -> dom_proposal p.
Proof.
  unfold dom_proposalb, dom_proposal. intros H. bsplit.
  repeat match goal with H : typed_asb _ _ = true |- _ => apply typed_asb_ok in H end.
  match goal with H : forallb dom_transformb _ = true |- _ => apply (forallb_Forall _ _ _ dom_transformb_ok) in H end.
  repeat split; assumption.
Qed.

Definition wf_selectorb (s : selector) : bool :=
  (ts_proto s <? 256) && (ts_sport s <? 65536) && (ts_eport s <? 65536) &&
  (((ts_type s =? 7) && (length (ts_saddr s) =? 4)%nat && (length (ts_eaddr s) =? 4)%nat) ||
   ((ts_type s =? 8) && (length (ts_saddr s) =? 16)%nat && (length (ts_eaddr s) =? 16)%nat)).
Lemma wf_selectorb_ok s : wf_selectorb s = true -> wf_selector s.
Proof.
  unfold wf_selectorb, wf_selector. intros H. bsplit. repeat split; try assumption.
  match goal with H : _ || _ = true |- _ => apply orb_prop in H; destruct H end; bsplit; [left|right]; repeat split; assumption.
Qed.

Definition dom_cpattrb (a : cpattr) : bool := (ca_type a <? 32768) && (len (ca_value a) <? 65536).
Lemma dom_cpattrb_ok a : dom_cpattrb a = true -> dom_cpattr a.
Proof. unfold dom_cpattrb, dom_cpattr. intros H. bsplit. split; assumption. Qed.

(* EAP *)
Definition wf_akattrb (a : akattr) : bool :=
  (at_type a <? 256) && (at_len a <? 256) &&
  let t := at_type a in
  if (t =? 11) || (t =? 1) || (t =? 2) then (at_len a =? 5) && (at_res a =? 0) && (length (at_val a) =? 16)%nat
  else if (t =? 23) || (t =? 3) then
    (at_res a <? 65536) && (len (at_val a) =? at_res a / 8) && (len (at_val a) + 4 <=? at_len a * 4)
  else if t =? 24 then (at_len a =? 1) && (at_res a =? 0) && (length (at_val a) =? 2)%nat
  else (1 <=? at_len a) && (at_res a <? 65536) && (len (at_val a) =? 4 * at_len a - 4).
Lemma wf_akattrb_ok a : wf_akattrb a = true -> wf_akattr a.
Proof.
  unfold wf_akattrb, wf_akattr. intros H. bsplit. split; [assumption|]. split; [assumption|].
  cbv zeta in *.
  destruct ((at_type a =? 11) || (at_type a =? 1) || (at_type a =? 2)); [bsplit; repeat split; assumption|].
  destruct ((at_type a =? 23) || (at_type a =? 3)); [bsplit; repeat split; assumption|].
  destruct (at_type a =? 24); bsplit; repeat split; assumption.
Qed.

Fixpoint nodupb (l : list N) : bool :=
  match l with [] => true | x :: r => negb (existsb (N.eqb x) r) && nodupb r end.
Lemma nodupb_ok l : nodupb l = true -> NoDup l.
Proof.
  induction l as [|x r IH]; intros H; [constructor|]. cbn in H. apply andb_prop in H. destruct H as [H1 H2].
  constructor; [|now apply IH]. intros Hin. apply negb_true_iff in H1.
  assert (existsb (N.eqb x) r = true) by (apply existsb_exists; exists x; split; [exact Hin|apply N.eqb_refl]). congruence.
Qed.

Definition dom_eapdatab (d : eapdata) : bool :=
  match d with
  | EDNone => true
  | EDIdentity x | EDNotification x | EDNak x => nonempty x
  | EDExpanded vid vt _ => (vid <? 16777216) && (vt <? 4294967296)
  | EDAka st rs attrs => (st <? 256) && (rs <? 65536) && forallb wf_akattrb attrs && nodupb (map at_type attrs)
  end.
Definition dom_eapb (e : eap) : bool := (e_code e <? 256) && (e_id e <? 256) && dom_eapdatab (e_data e).
Lemma dom_eapb_ok e : dom_eapb e = true -> dom_eap e.
Proof.
  unfold dom_eapb, dom_eap. intros H. bsplit. split; [assumption|]. split; [assumption|].
  destruct (e_data e); cbn in *; bsplit; auto.
  repeat split; try assumption.
  - eapply forallb_Forall; [intros a Ha; apply wf_wfd; apply wf_akattrb_ok; exact Ha|assumption].
  - now apply nodupb_ok.
Qed.

Definition dom_bodyb (p : payload) : bool :=
  match p with
  | PSA props => forallb dom_proposalb props
  | PKE g d => (g <? 65536) && nonempty d
  | PIDi t d | PIDr t d | PAUTH t d | PCERT t d | PCERTREQ t d => (t <? 256) && nonempty d
  | PNonce _ | PVendor _ => true
  | PNotify proto nt spi _ => (proto <? 256) && (nt <? 65536) && (len spi <=? 255)
  | PDelete proto sz num spis =>
    (proto <? 256) && (((sz <? 256) && (num =? 0) && isnil spis) ||
                       ((sz =? 4) && (num =? len spis) && (num <? 65536) && forallb (fun v => v <? 4294967296) spis))
  | PTSi sels | PTSr sels => nonempty sels && (len sels <=? 255) && forallb wf_selectorb sels
  | PSK nxt d => (nxt <? 256) && nonempty d
  | PCP ct attrs => (ct <? 256) && nonempty attrs && forallb dom_cpattrb attrs
  | PEAP e => dom_eapb e && (len (eap_bytes e) <? 65536)
  end.

Lemma dom_bodyb_ok p : dom_bodyb p = true -> dom_body p.
Proof.
  destruct p; cbn [dom_bodyb dom_body]; intros H; bsplit; auto; try (repeat split; assumption).
  - eapply forallb_Forall; [apply dom_proposalb_ok|assumption].
  - split; [assumption|].
    match goal with H : _ || _ = true |- _ => apply orb_prop in H; destruct H end; bsplit; [left|right]; repeat split; try assumption.
    eapply forallb_Forall; [|eassumption]. intros v Hv. now apply N.ltb_lt.
  - repeat split; try assumption. eapply forallb_Forall; [apply wf_selectorb_ok|assumption].
  - repeat split; try assumption. eapply forallb_Forall; [apply wf_selectorb_ok|assumption].
  - repeat split; try assumption. eapply forallb_Forall; [apply dom_cpattrb_ok|assumption].
  - split; [now apply dom_eapb_ok|assumption].
Qed.

Definition dom_payloadb (p : payload) : bool :=
  dom_bodyb p && (4 + len (wenc_body (canon_body eap_bytes p)) <? 65536).
Lemma dom_payloadb_ok p : dom_payloadb p = true -> dom_payload p.
Proof. unfold dom_payloadb, dom_payload. intros H. bsplit. split; [now apply dom_bodyb_ok|assumption]. Qed.

Definition dom_headerb (h : header) : bool :=
  (h_ispi h <? 18446744073709551616) && (h_rspi h <? 18446744073709551616) && (h_major h <? 16) && (h_minor h <? 16) &&
  (h_exch h <? 256) && (h_flags h <? 256) && (h_mid h <? 4294967296).

Fixpoint sk_consistentb (l : list payload) : bool :=
  match l with
  | [] => true
  | p :: r => (if is_psk p then isnil r else true) && sk_consistentb r
  end.
Lemma sk_consistentb_ok l : sk_consistentb l = true -> sk_consistent l.
Proof.
  induction l as [|p r IH]; [intros; exact I|]. cbn [sk_consistentb sk_consistent]. intros H.
  apply andb_prop in H. destruct H as [H1 H2]. split; [|now apply IH].
  intros Hp. rewrite Hp in H1. now apply isnil_ok.
Qed.

Definition dom_msgb (m : msg) : bool :=
  dom_headerb (m_hdr m) && forallb dom_payloadb (m_payloads m) &&
  (28 + len (wenc_chain (sk_last (m_payloads m)) (map (canon_payload eap_bytes) (m_payloads m))) <? 4294967296) &&
  sk_consistentb (m_payloads m).

Theorem dom_msgb_ok m : dom_msgb m = true -> dom_msg m /\ sk_consistent (m_payloads m).
Proof.
  unfold dom_msgb, dom_msg, dom_headerb, dom_header. intros H. bsplit.
  split; [|now apply sk_consistentb_ok].
  repeat split; try assumption. eapply forallb_Forall; [apply dom_payloadb_ok|assumption].
Qed.
