(* C14: EAP codec round trip on the Impl model (Impl/Eap.v). *)
From IKE Require Import Lib.Base Lib.BaseLemmas Thm.Tactics Thm.ConsLemmas Impl.Msg Impl.Eap.
Local Open Scope N_scope.

(* ---------- EAP-AKA' attributes ---------- *)
(* an attribute in the form the decoder produces / accepts back (every attribute the setter builds is one) *)
Definition wf_akattr (a : akattr) : Prop :=
  at_type a < 256 /\ at_len a < 256 /\
  let t := at_type a in
  if (t =? 11) || (t =? 1) || (t =? 2) then at_len a = 5 /\ at_res a = 0 /\ length (at_val a) = 16%nat
  else if (t =? 23) || (t =? 3) then
    at_res a < 65536 /\ len (at_val a) = at_res a / 8 /\ len (at_val a) + 4 <= at_len a * 4
  else if t =? 24 then at_len a = 1 /\ at_res a = 0 /\ length (at_val a) = 2%nat
  else 1 <= at_len a /\ at_res a < 65536 /\ len (at_val a) = 4 * at_len a - 4.

Lemma take_app (a b : bytes) n : n = length a -> take n (a ++ b) = Ok (a, b).
Proof.
  intros ->. unfold take. rewrite app_length. decide_cmp.
  now rewrite firstn_app_len, skipn_app_len.
Qed.

Lemma take_0 (b : bytes) : take 0 b = Ok ([], b).
Proof. unfold take. decide_cmp. reflexivity. Qed.

(* the octets after type and length *)
Definition aka_attr_tail (a : akattr) : bytes :=
  (if at_type a =? 24 then [] else be16 (at_res a)) ++ at_val a
  ++ (if (at_type a =? 3) || (at_type a =? 23)
      then zeros (N.to_nat (at_len a * 4) - 4 - length (at_val a)) else []).

Lemma aka_attr_bytes_eq a : aka_attr_bytes a = n2b (at_type a) :: n2b (at_len a) :: aka_attr_tail a.
Proof. reflexivity. Qed.

Lemma aka_dec_attr_rt a tl :
  wf_akattr a -> aka_dec_attr (at_type a) (at_len a) (aka_attr_tail a ++ tl) = Ok (a, tl).
Proof.
  destruct a as [t l r v]. unfold wf_akattr, aka_dec_attr, aka_attr_tail. cbn [at_type at_len at_res at_val].
  intros (Ht & Hl & Hw).
  destruct ((t =? 11) || (t =? 1) || (t =? 2)) eqn:E1.
  - destruct Hw as (-> & -> & Lv).
    assert (t =? 24 = false) as -> by (apply orb_true_iff in E1; destruct E1 as [E1|E1]; [apply orb_true_iff in E1; destruct E1 as [E1|E1]|]; apply N.eqb_eq in E1; subst; reflexivity).
    assert ((t =? 3) || (t =? 23) = false) as -> by (apply orb_true_iff in E1; destruct E1 as [E1|E1]; [apply orb_true_iff in E1; destruct E1 as [E1|E1]|]; apply N.eqb_eq in E1; subst; reflexivity).
    change (5 =? 5) with true. cbn [negb]. rewrite <- !app_assoc.
    rewrite (take_app (be16 0)) by reflexivity. cbn [bind].
    change ((4 * 5 + 256 - 4) mod 256) with 16. change (16 =? 16) with true. cbn [negb].
    cbn [app]. rewrite take_app by (rewrite Lv; reflexivity). reflexivity.
  - destruct ((t =? 23) || (t =? 3)) eqn:E2.
    + destruct Hw as (Hr & Lv & Hfit).
      assert (t =? 24 = false) as -> by (apply orb_true_iff in E2; destruct E2 as [E2|E2]; apply N.eqb_eq in E2; subst; reflexivity).
      assert ((t =? 3) || (t =? 23) = true) as -> by (rewrite orb_comm; exact E2).
      rewrite <- !app_assoc. rewrite (take_app (be16 r)) by reflexivity. cbn [bind].
      rewrite be16_val by lia. rewrite <- Lv.
      replace (l * 4 <? len v + 4) with false by (symmetry; apply N.ltb_ge; lia).
      rewrite take_app by (now rewrite len_nat). cbn [bind].
      replace (N.to_nat (l * 4 - len v - 4)) with (N.to_nat (l * 4) - 4 - length v)%nat by (unfold len; lia).
      rewrite take_app by (now rewrite zeros_length). reflexivity.
    + destruct (t =? 24) eqn:E3.
      * destruct Hw as (-> & -> & Lv).
        assert ((t =? 3) || (t =? 23) = false) as -> by (apply N.eqb_eq in E3; subst; reflexivity).
        change ((4 * 1 + 256 - 2) mod 256) with 2. cbn [app]. rewrite app_nil_r.
        rewrite take_app by (rewrite Lv; reflexivity). reflexivity.
      * destruct Hw as (Hl1 & Hr & Lv).
        assert ((t =? 3) || (t =? 23) = false) as -> by (rewrite orb_comm; exact E2).
        replace (l =? 0) with false by (symmetry; apply N.eqb_neq; lia).
        rewrite <- !app_assoc. rewrite (take_app (be16 r)) by reflexivity. cbn [bind].
        cbn [app]. rewrite take_app by (unfold len in Lv; lia). cbn [bind].
        now rewrite be16_val by lia.
Qed.

(* the decoder's whole image: AT_KDF (24) is accepted with ANY length octet l, its value being (4l - 2) mod 256 octets
   (uint8 arithmetic in the Go code); wf_akattr is the special case l = 1 that the setter produces *)
Definition wfd_akattr (a : akattr) : Prop :=
  if at_type a =? 24 then at_len a < 256 /\ at_res a = 0 /\ len (at_val a) = (4 * at_len a + 254) mod 256
  else wf_akattr a.

Lemma wf_wfd a : wf_akattr a -> wfd_akattr a.
Proof.
  unfold wfd_akattr. destruct (at_type a =? 24) eqn:E; [|auto]. intros (Ht & Hl & Hw). cbv zeta in Hw.
  apply N.eqb_eq in E. rewrite E in Hw. change ((24 =? 11) || (24 =? 1) || (24 =? 2)) with false in Hw.
  change ((24 =? 23) || (24 =? 3)) with false in Hw. change (24 =? 24) with true in Hw. cbv iota in Hw.
  destruct Hw as (El & Er & Lv). split; [exact Hl|]. split; [exact Er|]. rewrite El. unfold len. rewrite Lv. reflexivity.
Qed.

Lemma wfd_bounds a : wfd_akattr a -> at_type a < 256 /\ at_len a < 256.
Proof.
  unfold wfd_akattr. destruct (at_type a =? 24) eqn:E.
  - apply N.eqb_eq in E. intros (Hl & _). rewrite E. split; [lia|exact Hl].
  - intros (Ht & Hl & _). auto.
Qed.

Lemma aka_dec_attr_rtd a tl :
  wfd_akattr a -> aka_dec_attr (at_type a) (at_len a) (aka_attr_tail a ++ tl) = Ok (a, tl).
Proof.
  unfold wfd_akattr. destruct (at_type a =? 24) eqn:E; [|apply aka_dec_attr_rt].
  destruct a as [t l r v]. cbn [at_type at_len at_res at_val] in *. apply N.eqb_eq in E. subst t. intros (Hl & -> & Lv).
  unfold aka_dec_attr, aka_attr_tail. cbn [at_type at_len at_res at_val].
  change ((24 =? 11) || (24 =? 1) || (24 =? 2)) with false. change ((24 =? 23) || (24 =? 3)) with false.
  change ((24 =? 3) || (24 =? 23)) with false. change (24 =? 24) with true. cbv iota. cbn [app]. rewrite app_nil_r.
  replace (4 * l + 256 - 2) with (4 * l + 254) by lia.
  rewrite take_app by (unfold len in Lv; lia). reflexivity.
Qed.

(* strictly ascending attribute types *)
Inductive asc : list akattr -> Prop :=
| asc_nil : asc []
| asc_one a : asc [a]
| asc_cons a b l : at_type a < at_type b -> asc (b :: l) -> asc (a :: b :: l).

Lemma aka_set_append acc a :
  (forall x, In x acc -> at_type x < at_type a) -> aka_set acc a = acc ++ [a].
Proof.
  induction acc as [|x acc IH]; intros H; [reflexivity|].
  cbn [aka_set]. replace (at_type x =? at_type a) with false by (symmetry; apply N.eqb_neq; specialize (H x (or_introl eq_refl)); lia).
  cbn [app]. f_equal. apply IH. intros y Hy. apply H. now right.
Qed.

Lemma asc_head_lt a l x : asc (a :: l) -> In x l -> at_type a < at_type x.
Proof.
  revert a x. induction l as [|b l IH]; intros a x Ha Hx; [destruct Hx|].
  inversion Ha as [| |? ? ? Hab Hbl]; subst. destruct Hx as [<-|Hx]; [exact Hab|].
  specialize (IH b x Hbl Hx). lia.
Qed.

Lemma aka_dec_attrs_rt l : forall fuel acc,
  Forall wfd_akattr l -> asc l -> (forall x y, In x acc -> In y l -> at_type x < at_type y) ->
  (length (concat (map aka_attr_bytes l)) < fuel)%nat ->
  aka_dec_attrs fuel (concat (map aka_attr_bytes l)) acc = Ok (acc ++ l).
Proof.
  induction l as [|a l IH]; intros fuel acc Hw Ha Hacc Hf.
  - destruct fuel; [cbn in Hf; lia|]. cbn. now rewrite app_nil_r.
  - destruct fuel as [|f]; [lia|]. inversion Hw as [|? ? Hwa Hwl]; subst.
    cbn [map concat] in *. rewrite aka_attr_bytes_eq in *. cbn [app aka_dec_attrs].
    destruct (wfd_bounds a Hwa) as [Ht Hl].
    rewrite !b2n_n2b_small by assumption.
    rewrite aka_dec_attr_rtd by assumption. cbn [bind].
    rewrite aka_set_append by (intros x Hx; apply Hacc; [exact Hx|now left]).
    rewrite IH.
    + now rewrite <- app_assoc.
    + exact Hwl.
    + inversion Ha; subst; [constructor|assumption].
    + intros x y Hx Hy. apply in_app_or in Hx. destruct Hx as [Hx|[<-|[]]].
      * apply Hacc; [exact Hx|now right].
      * eapply asc_head_lt; eauto.
    + cbn [length app] in Hf. rewrite app_length in Hf. lia.
Qed.

(* ---------- sorting the attribute map ---------- *)
From Coq Require Import Permutation.

Lemma aka_insert_perm a l : Permutation (aka_insert a l) (a :: l).
Proof.
  induction l as [|x l IH]; [reflexivity|]. cbn [aka_insert].
  destruct (at_type a <=? at_type x); [reflexivity|].
  rewrite IH. apply perm_swap.
Qed.

Lemma aka_sort_perm l : Permutation (aka_sort l) l.
Proof. induction l as [|a l IH]; [reflexivity|]. cbn [aka_sort]. rewrite aka_insert_perm. now constructor. Qed.

Inductive sorted_le : list akattr -> Prop :=
| sle_nil : sorted_le []
| sle_one a : sorted_le [a]
| sle_cons a b l : at_type a <= at_type b -> sorted_le (b :: l) -> sorted_le (a :: b :: l).

Lemma aka_insert_sorted a l : sorted_le l -> sorted_le (aka_insert a l).
Proof.
  induction 1 as [|x|x y l Hxy Hs IH]; cbn [aka_insert].
  - constructor.
  - destruct (at_type a <=? at_type x) eqn:E; constructor; try constructor; lia.
  - destruct (at_type a <=? at_type x) eqn:E.
    + constructor; [lia|]. now constructor.
    + cbn [aka_insert] in IH. destruct (at_type a <=? at_type y) eqn:E2.
      * constructor; [lia|]. constructor; [lia|assumption].
      * constructor; [assumption|exact IH].
Qed.

Lemma aka_sort_sorted l : sorted_le (aka_sort l).
Proof. induction l as [|a l IH]; [constructor|]. cbn [aka_sort]. now apply aka_insert_sorted. Qed.

Lemma sorted_nodup_asc l : sorted_le l -> NoDup (map at_type l) -> asc l.
Proof.
  induction 1 as [|x|x y l Hxy Hs IH]; intros Hn; try constructor.
  - cbn [map] in Hn. inversion Hn as [|? ? Hnotin Hn']; subst.
    assert (at_type x <> at_type y) by (intros E; apply Hnotin; left; now symmetry). lia.
  - apply IH. cbn [map] in *. now inversion Hn.
Qed.

Lemma aka_sort_asc l : NoDup (map at_type l) -> asc (aka_sort l).
Proof.
  intros Hn. apply sorted_nodup_asc; [apply aka_sort_sorted|].
  eapply Permutation_NoDup; [|exact Hn]. apply Permutation_map. symmetry. apply aka_sort_perm.
Qed.

(* two strictly ascending lists with the same elements are equal: the Go map's iteration order is irrelevant *)
Lemma asc_perm_eq l : forall l', asc l -> asc l' -> Permutation l l' -> l = l'.
Proof.
  induction l as [|a l IH]; intros l' Ha Ha' Hp.
  - apply Permutation_nil in Hp. now subst.
  - destruct l' as [|b l']; [apply Permutation_sym, Permutation_nil in Hp; discriminate|].
    assert (Hab : a = b).
    { assert (In a (b :: l')) as [E|Hin] by (eapply Permutation_in; [exact Hp|now left]); [now symmetry|].
      assert (In b (a :: l)) as [E|Hin'] by (eapply Permutation_in; [symmetry; exact Hp|now left]); [exact E|].
      pose proof (asc_head_lt b l' a Ha' Hin). pose proof (asc_head_lt a l b Ha Hin'). lia. }
    subst b. f_equal. apply IH.
    + inversion Ha; subst; [constructor|assumption].
    + inversion Ha'; subst; [constructor|assumption].
    + eapply Permutation_cons_inv; eauto.
Qed.

Theorem aka_sort_perm_invariant l l' :
  Permutation l l' -> NoDup (map at_type l) -> aka_sort l = aka_sort l'.
Proof.
  intros Hp Hn. apply asc_perm_eq.
  - now apply aka_sort_asc.
  - apply aka_sort_asc. eapply Permutation_NoDup; [|exact Hn]. now apply Permutation_map.
  - rewrite aka_sort_perm, Hp. symmetry. apply aka_sort_perm.
Qed.

Corollary aka_marshal_perm_invariant st rs l l' :
  Permutation l l' -> NoDup (map at_type l) -> aka_marshal st rs l = aka_marshal st rs l'.
Proof. intros Hp Hn. unfold aka_marshal. now rewrite (aka_sort_perm_invariant l l' Hp Hn). Qed.

(* ---------- EAP-AKA' packet ---------- *)
Theorem aka_rt st rs attrs :
  st < 256 -> rs < 65536 -> Forall wfd_akattr attrs -> NoDup (map at_type attrs) ->
  aka_unmarshal (aka_marshal st rs attrs) = Ok (EDAka st rs (aka_sort attrs)).
Proof.
  intros Hst Hrs Hw Hn. unfold aka_unmarshal, aka_marshal. consify0. cbn [length]. decide_cmp.
  step. change (b2n x32 =? 50) with true. cbn [negb]. step.
  rewrite (aka_dec_attrs_rt (aka_sort attrs) _ []).
  - reflexivity.
  - eapply Permutation_Forall; [|exact Hw]. symmetry. apply aka_sort_perm.
  - now apply aka_sort_asc.
  - intros x y [].
  - lia.
Qed.

(* ---------- whole EAP packets ---------- *)
Definition dom_eapdata (d : eapdata) : Prop :=
  match d with
  | EDNone => True
  | EDIdentity x | EDNotification x | EDNak x => x <> []
  | EDExpanded vid vt _ => vid < 16777216 /\ vt < 4294967296
  | EDAka st rs attrs => st < 256 /\ rs < 65536 /\ Forall wfd_akattr attrs /\ NoDup (map at_type attrs)
  end.

Definition norm_eapdata (d : eapdata) : eapdata :=
  match d with EDAka st rs attrs => EDAka st rs (aka_sort attrs) | _ => d end.
Definition norm_eap (e : eap) : eap := mkEap (e_code e) (e_id e) (norm_eapdata (e_data e)).

Definition dom_eap (e : eap) : Prop := e_code e < 256 /\ e_id e < 256 /\ dom_eapdata (e_data e).

Lemma eapdata_marshal_ok d : dom_eapdata d -> exists b, eapdata_marshal d = Ok b.
Proof.
  destruct d; cbn; intros H; try (eexists; reflexivity);
    (destruct d as [|? ?]; [congruence|]; unfold simple_marshal; cbn [length]; decide_cmp; eexists; reflexivity).
Qed.

Theorem eap_rt e b :
  dom_eap e -> eap_marshal e = Ok b -> len b < 65536 -> eap_unmarshal b = Ok (norm_eap e).
Proof.
  intros (Hc & Hi & Hd) Hm Hlen. unfold eap_marshal in Hm.
  destruct (eapdata_marshal (e_data e)) as [td| | |] eqn:Etd; cbn [bind] in Hm; try discriminate.
  injection Hm as <-.
  assert (Hl4 : 4 + len td < 65536) by (unfold len in *; autorewrite with lens in Hlen; cbn [length] in Hlen; lia). clear Hlen.
  unfold eap_unmarshal. consify0. cbn [length].
  destruct e as [code id data]. cbn [e_code e_id e_data] in *. unfold norm_eap. cbn [e_code e_id e_data].
  decide_cmp. step. replace (4 + len td <? 4) with false by (symmetry; apply N.ltb_ge; lia).
  replace (len (n2b code :: n2b id :: n2b ((4 + len td) / 256) :: n2b (4 + len td) :: td) =? 4 + len td) with true
    by (symmetry; apply N.eqb_eq; unfold len; cbn [length]; lia).
  cbn [negb]. step.
  destruct data as [|d|d|d|vid vt d|st rs attrs]; cbn [eapdata_marshal dom_eapdata norm_eapdata] in *.
  - injection Etd as <-. change (4 + len (@nil byte) =? 4) with true. reflexivity.
  - unfold simple_marshal in Etd. destruct d as [|d0 d]; [congruence|]. cbn [length] in Etd. injection Etd as <-.
    replace (4 + len (x01 :: d0 :: d) =? 4) with false by (symmetry; apply N.eqb_neq; unfold len; cbn [length]; lia).
    step. change (b2n x01 =? 1) with true. cbv iota. unfold res_map, simple_unmarshal. cbn [length]. decide_cmp. step.
    change (b2n x01 =? 1) with true. cbn [negb]. reflexivity.
  - unfold simple_marshal in Etd. destruct d as [|d0 d]; [congruence|]. cbn [length] in Etd. injection Etd as <-.
    replace (4 + len (x02 :: d0 :: d) =? 4) with false by (symmetry; apply N.eqb_neq; unfold len; cbn [length]; lia).
    step. change (b2n x02 =? 1) with false. change (b2n x02 =? 2) with true. cbv iota. unfold res_map, simple_unmarshal. cbn [length]. decide_cmp. step.
    change (b2n x02 =? 2) with true. cbn [negb]. reflexivity.
  - unfold simple_marshal in Etd. destruct d as [|d0 d]; [congruence|]. cbn [length] in Etd. injection Etd as <-.
    replace (4 + len (x03 :: d0 :: d) =? 4) with false by (symmetry; apply N.eqb_neq; unfold len; cbn [length]; lia).
    step. change (b2n x03 =? 1) with false. change (b2n x03 =? 2) with false. change (b2n x03 =? 3) with true. cbv iota.
    unfold res_map, simple_unmarshal. cbn [length]. decide_cmp. step.
    change (b2n x03 =? 3) with true. cbn [negb]. reflexivity.
  - destruct Hd as [Hv Ht]. injection Etd as <-. unfold expanded_marshal.
    rewrite (N.mod_small vid) by lia.
    replace (4 + len (be32 (254 * 16777216 + vid) ++ be32 vt ++ d) =? 4) with false
      by (symmetry; apply N.eqb_neq; unfold len; len_norm; lia).
    consify0. step.
    assert (B : (254 * 16777216 + vid) / 16777216 = 254) by lia.
    rewrite ?b2n_n2b_small by lia. decide_cmp.
    unfold expanded_unmarshal. cbn [length]. decide_cmp. step.
    replace ((254 * 16777216 + vid) mod 16777216) with vid by lia. reflexivity.
  - destruct Hd as (Hst & Hrs & Hw & Hn). injection Etd as <-.
    assert (L50 : exists r, aka_marshal st rs attrs = x32 :: r) by (eexists; reflexivity). destruct L50 as [r Er].
    replace (4 + len (aka_marshal st rs attrs) =? 4) with false
      by (symmetry; apply N.eqb_neq; rewrite Er; unfold len; cbn [length]; lia).
    rewrite Er. step. change (b2n x32 =? 1) with false; change (b2n x32 =? 2) with false; change (b2n x32 =? 3) with false;
      change (b2n x32 =? 50) with true. cbv iota. rewrite <- Er. now rewrite aka_rt.
Qed.

(* ---------- the attribute setter ---------- *)
Definition settable_size (t : N) (n : nat) : bool :=
  if (t =? 11) || (t =? 1) || (t =? 2) then (n =? 16)%nat
  else if t =? 3 then (4 <=? n)%nat && (n <=? 16)%nat
  else if t =? 23 then (n <=? 1016)%nat
  else if t =? 24 then (n =? 2)%nat
  else if t =? 134 then (n mod 4 =? 0)%nat && (n <=? 1016)%nat
  else false.

Theorem aka_mk_attr_ok t v :
  settable_size t (length v) = true ->
  exists a, aka_mk_attr t v = Ok a /\ at_type a = t /\ at_val a = v /\ wf_akattr a.
Proof.
  unfold settable_size, aka_mk_attr, wf_akattr.
  destruct ((t =? 11) || (t =? 1) || (t =? 2)) eqn:E1.
  - intros Hs. apply Nat.eqb_eq in Hs. rewrite Hs. cbn [negb Nat.eqb]. change (16 =? 16)%nat with true. cbn [negb].
    eexists. split; [reflexivity|]. cbn [at_type at_len at_res at_val]. rewrite E1.
    assert (t < 256) by (apply orb_true_iff in E1; destruct E1 as [E|E]; [apply orb_true_iff in E; destruct E as [E|E]|]; apply N.eqb_eq in E; lia).
    repeat split; auto; lia.
  - destruct (t =? 3) eqn:E3.
    + apply N.eqb_eq in E3. subst t. intros Hs. apply andb_prop in Hs. destruct Hs as [H4 H16].
      apply Nat.leb_le in H4, H16. change ((3 =? 23) || (3 =? 3)) with true. cbv iota.
      change (3 =? 3) with true. cbn [andb].
      replace ((128 <? len v * 8) || (len v * 8 <? 32)) with false
        by (symmetry; apply orb_false_iff; split; [apply N.ltb_ge|apply N.ltb_ge]; unfold len; lia).
      eexists. split; [reflexivity|]. cbn [at_type at_len at_res at_val].
      change ((3 =? 11) || (3 =? 1) || (3 =? 2)) with false. change ((3 =? 23) || (3 =? 3)) with true. cbv iota.
      repeat split; auto; unfold len in *; try lia.
    + destruct (t =? 23) eqn:E23.
      * apply N.eqb_eq in E23. subst t. intros Hs. apply Nat.leb_le in Hs.
        change ((23 =? 23) || (23 =? 3)) with true. cbv iota. change (23 =? 3) with false. cbn [andb].
        eexists. split; [reflexivity|]. cbn [at_type at_len at_res at_val].
        change ((23 =? 11) || (23 =? 1) || (23 =? 2)) with false. change ((23 =? 23) || (23 =? 3)) with true. cbv iota.
        repeat split; auto; unfold len in *; try lia.
      * cbn [orb]. destruct (t =? 24) eqn:E24.
        -- apply N.eqb_eq in E24. subst t. intros Hs. apply Nat.eqb_eq in Hs. rewrite Hs. change (2 =? 2)%nat with true. cbn [negb].
           eexists. split; [reflexivity|]. cbn [at_type at_len at_res at_val].
           change ((24 =? 11) || (24 =? 1) || (24 =? 2)) with false. change ((24 =? 23) || (24 =? 3)) with false.
           change (24 =? 24) with true. cbv iota. repeat split; auto; lia.
        -- destruct (t =? 134) eqn:E134; [|discriminate].
           apply N.eqb_eq in E134. subst t. intros Hs. apply andb_prop in Hs. destruct Hs as [Hm Hle].
           apply Nat.eqb_eq in Hm. apply Nat.leb_le in Hle.
           eexists. split; [reflexivity|]. cbn [at_type at_len at_res at_val].
           change ((134 =? 11) || (134 =? 1) || (134 =? 2)) with false. change ((134 =? 23) || (134 =? 3)) with false.
           change (134 =? 24) with false. cbv iota.
           pose proof (Nat.div_mod (length v) 4). unfold len in *.
           repeat split; auto; try lia.
Qed.

(* the setter refuses wrong sizes for the fixed-size attributes - for every size *)
Theorem aka_mk_attr_refuses t v :
  (((t = 11 \/ t = 1 \/ t = 2) /\ length v <> 16%nat) \/ (t = 24 /\ length v <> 2%nat) \/
   (t = 3 /\ (length v < 4 \/ 16 < length v)%nat)) -> aka_mk_attr t v = Err.
Proof.
  unfold aka_mk_attr. intros [[Ht Hv]|[[-> Hv]|[-> Hv]]].
  - assert ((t =? 11) || (t =? 1) || (t =? 2) = true) as -> by (destruct Ht as [->|[->| ->]]; reflexivity).
    replace (length v =? 16)%nat with false by (symmetry; now apply Nat.eqb_neq). reflexivity.
  - change ((24 =? 11) || (24 =? 1) || (24 =? 2)) with false. change ((24 =? 23) || (24 =? 3)) with false. change (24 =? 24) with true. cbv iota.
    replace (length v =? 2)%nat with false by (symmetry; now apply Nat.eqb_neq). reflexivity.
  - change ((3 =? 11) || (3 =? 1) || (3 =? 2)) with false. change ((3 =? 23) || (3 =? 3)) with true. cbv iota.
    change (3 =? 3) with true. cbn [andb].
    replace ((128 <? len v * 8) || (len v * 8 <? 32)) with true; [reflexivity|].
    symmetry. apply orb_true_iff. unfold len. destruct Hv; [right; apply N.ltb_lt; lia|left; apply N.ltb_lt; lia].
Qed.

Lemma aka_get_set l a : aka_get (aka_set l a) (at_type a) = Ok a.
Proof.
  induction l as [|x l IH]; cbn [aka_set aka_get].
  - now rewrite N.eqb_refl.
  - destruct (at_type x =? at_type a) eqn:E; cbn [aka_get]; [now rewrite N.eqb_refl|]. rewrite E. exact IH.
Qed.

(* an attribute value read back - freshly set - is exactly the value that was set *)
Theorem aka_get_after_set l t v :
  settable_size t (length v) = true ->
  exists l' a, aka_set_attr l t v = Ok l' /\ aka_get l' t = Ok a /\ at_val a = v.
Proof.
  intros Hs. destruct (aka_mk_attr_ok t v Hs) as (a & Ha & Ht & Hv & _).
  unfold aka_set_attr. rewrite Ha. cbn [bind]. exists (aka_set l a), a. split; [reflexivity|].
  split; [rewrite <- Ht; apply aka_get_set|exact Hv].
Qed.

(* framing: every well-formed attribute occupies 4 * length octets; AT_RES / AT_KDF_INPUT carry the exact bit length *)
Theorem aka_attr_bytes_length a : wf_akattr a -> len (aka_attr_bytes a) = 4 * at_len a.
Proof.
  destruct a as [t l r v]. unfold wf_akattr, aka_attr_bytes. cbn [at_type at_len at_res at_val]. intros (Ht & Hl & Hw).
  destruct ((t =? 11) || (t =? 1) || (t =? 2)) eqn:E1.
  - destruct Hw as (-> & -> & Lv).
    assert (t =? 24 = false) as -> by (apply orb_true_iff in E1; destruct E1 as [E|E]; [apply orb_true_iff in E; destruct E as [E|E]|]; apply N.eqb_eq in E; subst; reflexivity).
    assert ((t =? 3) || (t =? 23) = false) as -> by (apply orb_true_iff in E1; destruct E1 as [E|E]; [apply orb_true_iff in E; destruct E as [E|E]|]; apply N.eqb_eq in E; subst; reflexivity).
    unfold len. len_norm. lia.
  - destruct ((t =? 23) || (t =? 3)) eqn:E2.
    + destruct Hw as (Hr & Lv & Hfit).
      assert (t =? 24 = false) as -> by (apply orb_true_iff in E2; destruct E2 as [E|E]; apply N.eqb_eq in E; subst; reflexivity).
      assert ((t =? 3) || (t =? 23) = true) as -> by (rewrite orb_comm; exact E2).
      unfold len in *. len_norm. lia.
    + destruct (t =? 24) eqn:E3.
      * destruct Hw as (-> & -> & Lv). assert ((t =? 3) || (t =? 23) = false) as -> by (apply N.eqb_eq in E3; subst; reflexivity).
        unfold len. len_norm. lia.
      * destruct Hw as (Hl1 & Hr & Lv). assert ((t =? 3) || (t =? 23) = false) as -> by (rewrite orb_comm; exact E2).
        unfold len in *. len_norm. lia.
Qed.
