(* The implementation's encoders emit exactly what the RFC-written encoder of Spec/Wire.v emits for the
   canonical tree (all reserved fields zero):  encode m = Ok (wenc (canon_msg m))  on the encoding domain. *)
From IKE Require Import Lib.Base Lib.BaseLemmas Thm.Tactics Thm.ConsLemmas Thm.BitLemmas Impl.Msg Impl.Eap Impl.Payloads Impl.Message
     Spec.Wire Thm.EapRT Thm.RoundTrip.
Local Open Scope N_scope.

(* ---------- domain ---------- *)
Definition dom_transform (t : transform) : Prop :=
  t_type t < 256 /\ t_id t < 65536 /\
  ((t_present t = false /\ t_format t = 0 /\ t_atype t = 0 /\ t_aval t = 0 /\ t_var t = []) \/
   (t_present t = true /\ t_atype t < 32768 /\
    ((t_format t = 0 /\ t_aval t = 0 /\ t_var t <> [] /\ len (t_var t) < 65524) \/
     (t_format t = 1 /\ t_aval t < 65536 /\ t_var t = [])))).

Definition typed_as (ty : N) (l : list transform) : Prop := Forall (fun t => t_type t = ty) l.

Definition dom_proposal (p : proposal) : Prop :=
  p_num p < 256 /\ p_proto p < 256 /\ len (p_spi p) <= 255 /\
  all_transforms p <> [] /\ len (all_transforms p) <= 255 /\ Forall dom_transform (all_transforms p) /\
  typed_as 1 (p_encr p) /\ typed_as 2 (p_prf p) /\ typed_as 3 (p_integ p) /\ typed_as 4 (p_dh p) /\ typed_as 5 (p_esn p) /\
  8 + len (p_spi p) + len (wenc_list wenc_transform (map canon_transform (all_transforms p))) < 65536.

Lemma n2b_0 : n2b 0 = x00. Proof. reflexivity. Qed.

Lemma canon_attr_wf t : dom_transform t -> wf_wattrs (canon_attr t).
Proof.
  intros (_ & _ & [(Hp & _)|(Hp & Hat & [(Hf & _ & _ & Hl)|(Hf & Hav & _)])]); unfold canon_attr; rewrite Hp.
  - exact I.
  - rewrite Hf. change (0 =? 0) with true. cbn. auto.
  - rewrite Hf. change (1 =? 0) with false. cbn. auto.
Qed.

Lemma canon_transform_wf t : dom_transform t -> wf_wtransform (canon_transform t).
Proof.
  intros H. pose proof (canon_attr_wf t H). destruct H as (Ht & Hi & _).
  unfold wf_wtransform, canon_transform. cbn [wt_res1 wt_type wt_res2 wt_id wt_attrs]. repeat split; auto; lia.
Qed.

Lemma enc_attr_canon t : dom_transform t -> enc_attr t = Ok (concat (map wenc_attr (canon_attr t))).
Proof.
  intros (_ & _ & [(Hp & _)|(Hp & Hat & [(Hf & _ & Hne & Hl)|(Hf & Hav & _)])]); unfold enc_attr, canon_attr, fmt_type; rewrite Hp; cbn [negb].
  - reflexivity.
  - rewrite Hf. change (0 =? 0) with true. cbv iota.
    destruct (t_var t) as [|v0 v] eqn:Ev; [congruence|]. cbn [length]. decide_cmp.
    replace (65535 <? len (v0 :: v)) with false by (symmetry; apply N.ltb_ge; lia).
    change (0 mod 2 * 32768) with 0. rewrite N.lor_0_l. cbn [map concat wenc_attr]. now rewrite app_nil_r.
  - rewrite Hf. change (1 =? 0) with false. cbv iota. change (1 mod 2 * 32768) with (1 * 32768).
    rewrite lor_32768 by assumption. cbn [map concat wenc_attr]. rewrite app_nil_r.
    replace (1 * 32768 + t_atype t) with (32768 + t_atype t) by lia. reflexivity.
Qed.

Lemma enc_transform_canon t more :
  dom_transform t -> enc_transform t more = Ok (wenc_transform more (canon_transform t)).
Proof.
  intros H. unfold enc_transform. rewrite enc_attr_canon by assumption. cbn [bind].
  pose proof (attrs_len_bound (canon_transform t) (canon_transform_wf t H)) as Hb. unfold attrs_len in Hb. cbn [canon_transform wt_attrs] in Hb.
  replace (65535 <? 8 + len (concat (map wenc_attr (canon_attr t)))) with false by (symmetry; apply N.ltb_ge; lia).
  reflexivity.
Qed.

Lemma enc_transforms_canon l :
  Forall dom_transform l -> enc_transforms l = Ok (wenc_list wenc_transform (map canon_transform l)).
Proof.
  induction l as [|t r IH]; intros Hw; [reflexivity|].
  inversion Hw; subst. cbn [enc_transforms map wenc_list].
  rewrite enc_transform_canon by assumption. cbn [bind]. rewrite IH by assumption. cbn [bind].
  destruct r; reflexivity.
Qed.

Lemma canon_proposal_wf p : dom_proposal p -> wf_wproposal (canon_proposal p).
Proof.
  intros (Hn & Hp & Hs & Hne & Hc & Ht & _ & _ & _ & _ & _ & Hl).
  unfold wf_wproposal, canon_proposal. cbn [wp_res wp_num wp_proto wp_spi wp_transforms].
  change (p_encr p ++ p_prf p ++ p_integ p ++ p_dh p ++ p_esn p) with (all_transforms p). repeat split; auto; try lia.
  - unfold len. rewrite map_length. exact Hc.
  - rewrite Forall_map. eapply Forall_impl; [|exact Ht]. apply canon_transform_wf.
Qed.

Lemma enc_proposal_canon p more :
  dom_proposal p -> enc_proposal p more = Ok (wenc_proposal more (canon_proposal p)).
Proof.
  intros (Hn & Hp & Hs & Hne & Hc & Ht & _ & _ & _ & _ & _ & Hl).
  unfold enc_proposal. replace (255 <? len (p_spi p)) with false by (symmetry; apply N.ltb_ge; lia).
  destruct (all_transforms p) as [|t0 ts] eqn:Ea; [congruence|]. cbn [length]. decide_cmp.
  replace (255 <? len (t0 :: ts)) with false by (symmetry; apply N.ltb_ge; lia).
  rewrite enc_transforms_canon by assumption. cbn [bind].
  replace (65535 <? 8 + len (p_spi p) + len (wenc_list wenc_transform (map canon_transform (t0 :: ts)))) with false
    by (symmetry; apply N.ltb_ge; lia).
  unfold wenc_proposal, canon_proposal. cbn [wp_res wp_num wp_proto wp_spi wp_transforms].
  change (p_encr p ++ p_prf p ++ p_integ p ++ p_dh p ++ p_esn p) with (all_transforms p). rewrite Ea.
  replace (len (map canon_transform (t0 :: ts))) with (len (t0 :: ts)) by (unfold len; now rewrite map_length).
  reflexivity.
Qed.

Lemma enc_proposals_canon l :
  Forall dom_proposal l -> enc_proposals l = Ok (wenc_list wenc_proposal (map canon_proposal l)).
Proof.
  induction l as [|p r IH]; intros Hw; [reflexivity|].
  inversion Hw; subst. cbn [enc_proposals map wenc_list].
  rewrite enc_proposal_canon by assumption. cbn [bind]. rewrite IH by assumption. cbn [bind].
  destruct r; reflexivity.
Qed.

(* selectors and configuration attributes *)
Lemma enc_selector_canon s : wf_selector s -> ts_type s < 256 -> enc_selector s = Ok (wenc_selector s).
Proof.
  intros (Hp & Hsp & Hep & [(Ht & Ls & Le)|(Ht & Ls & Le)]) _; unfold enc_selector, wenc_selector; rewrite Ht.
  - change (7 =? 7) with true. cbv iota. rewrite Ls, Le. change (4 =? 4)%nat with true. cbn [negb].
    unfold len. rewrite Ls, Le. reflexivity.
  - change (8 =? 7) with false. change (8 =? 8) with true. cbv iota. rewrite Ls, Le. change (16 =? 16)%nat with true. cbn [negb].
    unfold len. rewrite Ls, Le. reflexivity.
Qed.

Lemma enc_selectors_canon l : Forall wf_selector l -> enc_selectors l = Ok (concat (map wenc_selector l)).
Proof.
  induction l as [|s r IH]; intros Hw; [reflexivity|]. inversion Hw as [|? ? Hs Hr]; subst.
  cbn [enc_selectors map concat]. rewrite enc_selector_canon; [|assumption|destruct Hs as (_ & _ & _ & [(-> & _)|(-> & _)]); lia].
  cbn [bind]. now rewrite IH.
Qed.

Definition dom_cpattr (a : cpattr) : Prop := ca_type a < 32768 /\ len (ca_value a) < 65536.

Lemma enc_cpattrs_canon l :
  Forall dom_cpattr l -> enc_cpattrs l = Ok (concat (map wenc_cpattr (map (fun a => mkWCA 0 (ca_type a) (ca_value a)) l))).
Proof.
  induction l as [|a r IH]; intros Hw; [reflexivity|]. inversion Hw as [|? ? (Ht & Hl) Hr]; subst.
  cbn [enc_cpattrs map concat]. replace (65535 <? len (ca_value a)) with false by (symmetry; apply N.ltb_ge; lia).
  rewrite IH by assumption. cbn [bind]. unfold wenc_cpattr at 1. cbn [wca_r wca_type wca_value].
  rewrite N.mod_small by lia. change (0 * 32768 + ca_type a) with (ca_type a). now rewrite <- ?app_assoc.
Qed.

(* ---------- payloads ---------- *)
Definition eap_bytes (e : eap) : bytes := match eap_marshal e with Ok b => b | _ => [] end.

Definition dom_body (p : payload) : Prop :=
  match p with
  | PSA props => Forall dom_proposal props
  | PKE g d => g < 65536 /\ d <> []
  | PIDi t d | PIDr t d | PAUTH t d | PCERT t d | PCERTREQ t d => t < 256 /\ d <> []
  | PNonce _ | PVendor _ => True
  | PNotify proto nt spi _ => proto < 256 /\ nt < 65536 /\ len spi <= 255
  | PDelete proto sz num spis =>
    proto < 256 /\ ((sz < 256 /\ num = 0 /\ spis = []) \/
                    (sz = 4 /\ num = len spis /\ num < 65536 /\ Forall (fun v => v < 4294967296) spis))
  | PTSi sels | PTSr sels => sels <> [] /\ len sels <= 255 /\ Forall wf_selector sels
  | PSK nxt d => nxt < 256 /\ d <> []
  | PCP ct attrs => ct < 256 /\ attrs <> [] /\ Forall dom_cpattr attrs
  | PEAP e => dom_eap e /\ len (eap_bytes e) < 65536
  end.

Definition dom_payload (p : payload) : Prop :=
  dom_body p /\ 4 + len (wenc_body (canon_body eap_bytes p)) < 65536.

Lemma eap_marshal_bytes e : dom_eap e -> eap_marshal e = Ok (eap_bytes e).
Proof.
  intros (_ & _ & Hd). unfold eap_bytes, eap_marshal. destruct (eapdata_marshal_ok _ Hd) as [b ->]. reflexivity.
Qed.

Lemma wtype_canon p : wtype (canon_body eap_bytes p) = ptype p.
Proof. destruct p; reflexivity. Qed.

Lemma payload_marshal_canon p : dom_body p -> payload_marshal p = Ok (wenc_body (canon_body eap_bytes p)).
Proof.
  destruct p as [props|g d|t d|t d|t d|t d|t d|d|proto nt spi d|proto sz num spis|d|sels|sels|nxt d|ct attrs|e];
    cbn [dom_body payload_marshal canon_body]; intros H; try reflexivity.
  - rewrite enc_proposals_canon by assumption. reflexivity.
  - destruct H as (? & ? & ?). unfold notify_marshal. replace (255 <? len spi) with false by (symmetry; apply N.ltb_ge; lia). reflexivity.
  - destruct H as (Hp & [(Hsz & -> & ->)|(-> & -> & Hn & Hv)]); unfold delete_marshal.
    + reflexivity.
    + rewrite N.eqb_refl. cbn [negb]. cbn [wenc_body].
      replace (len (map (fun v => be32 v ++ zeros (N.to_nat 4 - 4)) spis)) with (len spis) by (unfold len; now rewrite map_length).
      destruct (0 <? len spis) eqn:E.
      * change (4 <? 4) with false. cbv iota. now rewrite <- !app_assoc.
      * assert (spis = []) by (destruct spis; [reflexivity|unfold len in E; cbn [length] in E; lia]). subst. cbn. reflexivity.
  - destruct H as (Hne & Hc & Hw). unfold ts_marshal. destruct sels as [|s0 sels]; [congruence|]. cbn [length]. decide_cmp.
    replace (255 <? len (s0 :: sels)) with false by (symmetry; apply N.ltb_ge; lia).
    rewrite enc_selectors_canon by assumption. reflexivity.
  - destruct H as (Hne & Hc & Hw). unfold ts_marshal. destruct sels as [|s0 sels]; [congruence|]. cbn [length]. decide_cmp.
    replace (255 <? len (s0 :: sels)) with false by (symmetry; apply N.ltb_ge; lia).
    rewrite enc_selectors_canon by assumption. reflexivity.
  - destruct H as (_ & Hd). destruct d; [congruence|]. reflexivity.
  - destruct H as (Hc & Hne & Hw). unfold cp_marshal. rewrite enc_cpattrs_canon by assumption. reflexivity.
  - destruct H as (He & _). now apply eap_marshal_bytes.
Qed.

(* ---------- chain ---------- *)
Fixpoint sk_last (l : list payload) : N :=
  match l with
  | [] => 0
  | [PSK n _] => n
  | [_] => 0
  | _ :: r => sk_last r
  end.

Lemma next_of_chain p r :
  next_of p r = chain_next (sk_last (p :: r)) (map (canon_payload eap_bytes) r).
Proof.
  destruct r as [|q r]; cbn [map chain_next next_of].
  - destruct p; reflexivity.
  - cbn [canon_payload wpl_body]. now rewrite wtype_canon.
Qed.

Lemma sk_last_cons p q r : sk_last (p :: q :: r) = sk_last (q :: r).
Proof. destruct p; reflexivity. Qed.

Lemma container_encode_canon l :
  Forall dom_payload l -> container_encode l = Ok (wenc_chain (sk_last l) (map (canon_payload eap_bytes) l)).
Proof.
  induction l as [|p r IH]; intros Hw; [reflexivity|]. inversion Hw as [|? ? (Hb & Hl) Hr]; subst.
  cbn [container_encode map]. rewrite payload_marshal_canon by assumption. cbn [bind].
  replace (65535 <? 4 + len (wenc_body (canon_body eap_bytes p))) with false by (symmetry; apply N.ltb_ge; lia).
  rewrite IH by assumption. cbn [bind]. rewrite wenc_chain_cons. rewrite next_of_chain.
  unfold wenc_payload. cbn [canon_payload wpl_critical wpl_res wpl_body]. change (0 + 0) with 0.
  destruct r as [|q r].
  - cbn [map wenc_chain]. rewrite !app_nil_r. rewrite <- ?app_assoc. reflexivity.
  - rewrite sk_last_cons. rewrite <- ?app_assoc. reflexivity.
Qed.

(* ---------- message ---------- *)
Definition canon_hdr (h : header) : wheader :=
  mkWH (h_ispi h) (h_rspi h) (h_major h) (h_minor h) (h_exch h) (h_flags h) (h_mid h).
Definition canon_msg (m : msg) : wmsg :=
  mkWM (canon_hdr (m_hdr m)) (map (canon_payload eap_bytes) (m_payloads m)) (sk_last (m_payloads m)).

Definition dom_header (h : header) : Prop :=
  h_ispi h < 18446744073709551616 /\ h_rspi h < 18446744073709551616 /\ h_major h < 16 /\ h_minor h < 16 /\
  h_exch h < 256 /\ h_flags h < 256 /\ h_mid h < 4294967296.

Definition dom_msg (m : msg) : Prop :=
  dom_header (m_hdr m) /\ Forall dom_payload (m_payloads m) /\
  28 + len (wenc_chain (sk_last (m_payloads m)) (map (canon_payload eap_bytes) (m_payloads m))) < 4294967296.

Lemma first_type_canon l : first_type l = wfirst (map (canon_payload eap_bytes) l).
Proof. destruct l as [|p r]; [reflexivity|]. cbn. now rewrite wtype_canon. Qed.

Theorem encode_canon m : dom_msg m -> encode m = Ok (wenc (canon_msg m)).
Proof.
  intros ((H1 & H2 & H3 & H4 & H5 & H6 & H7) & Hp & Ht). unfold encode.
  rewrite container_encode_canon by assumption. cbn [bind].
  unfold header_marshal, wenc, canon_msg, wenc_header. cbn [wm_hdr wm_payloads wm_sk_next canon_hdr set_next h_ispi h_rspi h_major h_minor h_exch h_flags h_mid h_next wh_ispi wh_rspi wh_major wh_minor wh_exch wh_flags wh_mid].
  set (c := wenc_chain _ _) in *.
  replace (4294967295 <? 28 + len c) with false by (symmetry; apply N.ltb_ge; lia).
  unfold version_octet. rewrite version_octet_add by assumption. rewrite first_type_canon.
  now rewrite <- ?app_assoc.
Qed.

(* ---------- the canonical tree is well-formed and denotes the message ---------- *)
Lemma canon_body_wf p : dom_body p -> wf_wbody (canon_body eap_bytes p).
Proof.
  destruct p as [props|g d|t d|t d|t d|t d|t d|d|proto nt spi d|proto sz num spis|d|sels|sels|nxt d|ct attrs|e];
    cbn [dom_body canon_body wf_wbody]; intros H; auto.
  - rewrite Forall_map. eapply Forall_impl; [|exact H]. apply canon_proposal_wf.
  - destruct H; auto.
  - destruct H; auto.
  - destruct H; auto.
  - destruct H; auto.
  - destruct H as (Hp & [(Hsz & -> & ->)|(-> & -> & Hn & Hv)]).
    + cbn [map]. repeat split; auto; unfold len; cbn [length]; lia.
    + repeat split; auto.
      * unfold len. now rewrite map_length.
      * rewrite Forall_map. apply Forall_forall. intros v _. len_norm. reflexivity.
  - destruct H as (Hne & Hc & Hw). auto.
  - destruct H as (Hne & Hc & Hw). auto.
  - destruct H as (Hc & Hne & Hw). repeat split; auto.
    + destruct attrs; [congruence|discriminate].
    + rewrite Forall_map. eapply Forall_impl; [|exact Hw]. intros a (Ht & Hl). unfold wf_wcpattr. cbn. repeat split; auto; lia.
Qed.

Lemma canon_payload_wf p : dom_payload p -> wf_wpayload (canon_payload eap_bytes p).
Proof.
  intros (Hb & Hl). unfold wf_wpayload, canon_payload. cbn [wpl_res wpl_body wpl_critical].
  repeat split; auto; try lia. now apply canon_body_wf.
Qed.

Lemma sk_last_lt l : Forall dom_payload l -> sk_last l < 256.
Proof.
  induction l as [|p r IH]; intros Hw; [cbn; lia|]. inversion Hw as [|? ? (Hb & _) Hr]; subst.
  destruct r as [|q r]; [|rewrite sk_last_cons; now apply IH].
  destruct p; cbn; try lia. cbn in Hb. lia.
Qed.

(* RFC 7296 3.14 / the decoder: an Encrypted payload is the last payload *)
Definition is_psk (p : payload) : bool := match p with PSK _ _ => true | _ => false end.
Fixpoint sk_consistent (l : list payload) : Prop :=
  match l with
  | [] => True
  | p :: r => (is_psk p = true -> r = []) /\ sk_consistent r
  end.

Lemma sk_consistent_canon l : sk_consistent l -> sk_is_last (map (canon_payload eap_bytes) l).
Proof.
  induction l as [|p r IH]; [auto|]. cbn [sk_consistent map sk_is_last]. intros [H1 H2]. split; [|now apply IH].
  intros Hs. assert (is_psk p = true) by (destruct p; cbn in *; congruence). rewrite (H1 H). reflexivity.
Qed.

Theorem canon_msg_wf m : dom_msg m -> sk_consistent (m_payloads m) -> wf_wmsg (canon_msg m).
Proof.
  intros (Hh & Hp & Ht) Hc. unfold wf_wmsg, canon_msg. cbn [wm_hdr wm_payloads wm_sk_next].
  split; [exact Hh|]. split; [|split; [now apply sk_consistent_canon|split; [now apply sk_last_lt|exact Ht]]].
  rewrite Forall_map. eapply Forall_impl; [|exact Hp]. apply canon_payload_wf.
Qed.

(* erase . canon = id (up to the order of the EAP-AKA' attribute map) *)
Lemma erase_canon_transform t : dom_transform t -> erase_transform (canon_transform t) = t.
Proof.
  destruct t as [ty id pr fmt at' av var]. unfold dom_transform, erase_transform, canon_transform, canon_attr.
  cbn [t_type t_id t_present t_format t_atype t_aval t_var wt_attrs wt_type wt_id].
  intros (_ & _ & [(-> & -> & -> & -> & ->)|(-> & Hat & [(-> & -> & _ & _)|(-> & _ & ->)])]); reflexivity.
Qed.

Lemma filter_typed ty ty' l : typed_as ty' l -> filter (fun t => t_type t =? ty) l = if ty' =? ty then l else [].
Proof.
  induction 1 as [|t l Ht _ IH]; [now destruct (ty' =? ty)|].
  cbn [filter]. rewrite Ht, IH. destruct (ty' =? ty); reflexivity.
Qed.

Lemma erase_canon_proposal p : dom_proposal p -> erase_proposal (canon_proposal p) = p.
Proof.
  intros (_ & _ & _ & _ & _ & Ht & T1 & T2 & T3 & T4 & T5 & _).
  unfold erase_proposal, canon_proposal. cbn [wp_num wp_proto wp_spi wp_transforms].
  change (p_encr p ++ p_prf p ++ p_integ p ++ p_dh p ++ p_esn p) with (all_transforms p).
  rewrite map_map. rewrite (map_ext_in _ (fun t => t)) by (intros t Hin; apply erase_canon_transform; rewrite Forall_forall in Ht; now apply Ht).
  rewrite map_id. unfold all_transforms. rewrite !filter_app.
  rewrite !(filter_typed _ 1 (p_encr p) T1), !(filter_typed _ 2 (p_prf p) T2), !(filter_typed _ 3 (p_integ p) T3),
    !(filter_typed _ 4 (p_dh p) T4), !(filter_typed _ 5 (p_esn p) T5).
  cbn. rewrite !app_nil_r. destruct p; reflexivity.
Qed.

Definition norm_payload (p : payload) : payload := match p with PEAP e => PEAP (norm_eap e) | _ => p end.

Lemma erase_canon_body p nxt :
  dom_body p -> (forall n d, p = PSK n d -> n = nxt) ->
  erase_body eap_of nxt (canon_body eap_bytes p) = Some (Some (norm_payload p)).
Proof.
  destruct p as [props|g d|t d|t d|t d|t d|t d|d|proto nt spi d|proto sz num spis|d|sels|sels|n d|ct attrs|e];
    cbn [dom_body canon_body erase_body norm_payload]; intros H Hsk; try reflexivity.
  - rewrite map_map. rewrite (map_ext_in _ (fun p => p)) by (intros p Hin; apply erase_canon_proposal; rewrite Forall_forall in H; now apply H).
    now rewrite map_id.
  - destruct H as (Hp & [(Hsz & -> & ->)|(-> & -> & Hn & Hv)]); [reflexivity|].
    do 3 f_equal.
    + unfold len. now rewrite map_length.
    + rewrite map_map. rewrite (map_ext_in _ (fun v => v)); [now rewrite map_id|].
      intros v Hin. change (N.to_nat 4 - 4)%nat with 0%nat. cbn [zeros repeat]. rewrite app_nil_r. apply be32_val.
      rewrite Forall_forall in Hv. now apply Hv.
  - now rewrite (Hsk n d eq_refl).
  - rewrite map_map. cbn [wca_type wca_value]. rewrite (map_ext _ (fun a => a)) by (intros []; reflexivity). now rewrite map_id.
  - destruct H as (He & Hl). unfold eap_of. rewrite (eap_rt e (eap_bytes e) He (eap_marshal_bytes e He) Hl). reflexivity.
Qed.

Lemma erase_canon_chain l :
  Forall dom_payload l -> sk_consistent l ->
  erase_chain eap_of (sk_last l) (map (canon_payload eap_bytes) l) = Some (map norm_payload l).
Proof.
  induction l as [|p r IH]; intros Hw Hc; [reflexivity|]. inversion Hw as [|? ? (Hb & _) Hr]; subst.
  cbn [map erase_chain]. fold (chain_next (sk_last (p :: r)) (map (canon_payload eap_bytes) r)).
  rewrite <- next_of_chain. cbn [canon_payload wpl_body].
  rewrite (erase_canon_body p (next_of p r) Hb).
  - destruct r as [|q r].
    + reflexivity.
    + rewrite sk_last_cons. rewrite IH; [reflexivity|assumption|].
      exact (proj2 Hc).
  - intros n d ->. destruct r as [|q r]; [reflexivity|]. cbn [sk_consistent] in Hc. destruct Hc as [Hc _]. specialize (Hc eq_refl). discriminate.
Qed.

Definition norm_msg (m : msg) : msg :=
  mkMsg (set_next (m_hdr m) (first_type (m_payloads m))) (map norm_payload (m_payloads m)).

(* C03 on the model: decode (encode m) = m, with NextPayload recomputed and the EAP-AKA' attribute map in sorted order *)
Theorem codec_roundtrip m :
  dom_msg m -> sk_consistent (m_payloads m) ->
  exists b, encode m = Ok b /\ decode b = Ok (norm_msg m).
Proof.
  intros Hd Hc. exists (wenc (canon_msg m)). split; [now apply encode_canon|].
  rewrite (decode_wenc (canon_msg m) (map norm_payload (m_payloads m))).
  - unfold norm_msg, canon_msg. cbn [wm_hdr wm_payloads]. rewrite <- first_type_canon.
    destruct m as [[ispi rspi maj mnr ex fl mid nx] ps]. reflexivity.
  - now apply canon_msg_wf.
  - unfold canon_msg. cbn [wm_payloads wm_sk_next]. destruct Hd as (_ & Hp & _). now apply erase_canon_chain.
Qed.

(* nothing in the domain is lost: a second round trip is the identity on the normal form *)
Lemma norm_payload_idem p : dom_body p -> norm_payload (norm_payload p) = norm_payload p.
Proof.
  destruct p; cbn; try reflexivity. intros ((_ & _ & Hd) & _). destruct e as [c i d]. unfold norm_eap. cbn.
  destruct d; cbn; try reflexivity. cbn in Hd. destruct Hd as (_ & _ & _ & Hn).
  do 3 f_equal. apply asc_perm_eq.
  - apply aka_sort_asc. eapply Permutation.Permutation_NoDup; [|exact Hn]. apply Permutation.Permutation_map. symmetry. apply aka_sort_perm.
  - now apply aka_sort_asc.
  - apply aka_sort_perm.
Qed.
