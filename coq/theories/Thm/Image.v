(* C12: the decoder's image lies in the encoding domain.
   decode b = Ok m  ->  encode m = Ok b'  ->  dom_msg m /\ sk_consistent (m_payloads m).
   Each decoder only produces values whose numeric fields fit their wire widths and whose structure is the one the
   round-trip lemmas need (the img_ predicates); what the domain demands beyond that (non-empty data, list sizes, 16-bit lengths) is
   exactly what the encoders check, so it follows from the hypothesis that the re-encoding succeeds. *)
From IKE Require Import Lib.Base Lib.BaseLemmas Thm.Tactics Thm.ConsLemmas Thm.BitLemmas Impl.Msg Impl.Eap Impl.Payloads Impl.Message
     Spec.Wire Thm.EapRT Thm.C15 Thm.RoundTrip Thm.EncodeSpec.
Local Open Scope N_scope.

(* ---------- what the slice accessors return ---------- *)
Lemma idx_ok_lt b i v : idx b i = Ok v -> v < 256.
Proof. unfold idx. destruct (nth_error b i); [|discriminate]. intros [= <-]. apply b2n_lt. Qed.

Lemma sub_ok_len b i j s : sub b i j = Ok s -> length s = (j - i)%nat /\ (i <= j <= length b)%nat.
Proof.
  destruct (sub_cases b i j) as [F|(s' & E & L & B)]; [rewrite F; discriminate|]. rewrite E. intros [= <-]. auto.
Qed.

Lemma be_val_lt_pow l n : length l = n -> be_val l < 256 ^ N.of_nat n.
Proof. intros <-. apply be_val_bound. Qed.

Lemma u16at_ok_lt b i v : u16at b i = Ok v -> v < 65536.
Proof.
  unfold u16at. destruct (sub b i (i + 2)) as [s| | |] eqn:E; cbn [bind]; try discriminate. intros [= <-].
  destruct (sub_ok_len _ _ _ _ E) as [L _]. replace (i + 2 - i)%nat with 2%nat in L by lia.
  pose proof (be_val_lt_pow s 2 L). change (256 ^ N.of_nat 2) with 65536 in *. assumption.
Qed.

Lemma u32at_ok_lt b i v : u32at b i = Ok v -> v < 4294967296.
Proof.
  unfold u32at. destruct (sub b i (i + 4)) as [s| | |] eqn:E; cbn [bind]; try discriminate. intros [= <-].
  destruct (sub_ok_len _ _ _ _ E) as [L _]. replace (i + 4 - i)%nat with 4%nat in L by lia.
  pose proof (be_val_lt_pow s 4 L). change (256 ^ N.of_nat 4) with 4294967296 in *. assumption.
Qed.

Lemma u64at_ok_lt b i v : u64at b i = Ok v -> v < 18446744073709551616.
Proof.
  unfold u64at. destruct (sub b i (i + 8)) as [s| | |] eqn:E; cbn [bind]; try discriminate. intros [= <-].
  destruct (sub_ok_len _ _ _ _ E) as [L _]. replace (i + 8 - i)%nat with 8%nat in L by lia.
  pose proof (be_val_lt_pow s 8 L). change (256 ^ N.of_nat 8) with 18446744073709551616 in *. assumption.
Qed.

Lemma from_ok_len b i s : from b i = Ok s -> length s = (length b - i)%nat /\ (i <= length b)%nat.
Proof.
  unfold from. destruct (i <=? length b)%nat eqn:E; [|discriminate]. intros [= <-]. apply Nat.leb_le in E.
  rewrite skipn_length. auto.
Qed.

Lemma upto_ok_len b i s : upto b i = Ok s -> length s = i /\ (i <= length b)%nat.
Proof.
  unfold upto. destruct (i <=? length b)%nat eqn:E; [|discriminate]. intros [= <-]. apply Nat.leb_le in E.
  rewrite firstn_length. split; lia.
Qed.

(* one inversion step of a decoder equation  e = Ok v *)
Ltac inv1 H :=
  match type of H with
  | bind ?e _ = Ok _ =>
    let E := fresh "E" in destruct e eqn:E; cbn [bind] in H; cbv beta in H; [|discriminate H|discriminate H|discriminate H]
  | (if ?c then _ else _) = Ok _ => let C := fresh "C" in destruct c eqn:C; try discriminate H
  | (let '(_, _) := ?v in _) = Ok _ => destruct v
  | res_map _ ?e = Ok _ =>
    let E := fresh "E" in unfold res_map in H; destruct e eqn:E; [|discriminate H|discriminate H|discriminate H]
  end.
Ltac inv H := repeat inv1 H.

Lemma take_ok n b x r : take n b = Ok (x, r) -> length x = n.
Proof.
  unfold take. destruct (length b <? n)%nat eqn:E; [discriminate|]. intros [= <- <-]. apply Nat.ltb_ge in E.
  rewrite firstn_length. lia.
Qed.

(* turn every accessor equation of the context into the arithmetic fact it implies *)
Ltac bounds := repeat match goal with
  | H : idx _ _ = Ok _ |- _ => apply idx_ok_lt in H
  | H : u16at _ _ = Ok _ |- _ => apply u16at_ok_lt in H
  | H : u32at _ _ = Ok _ |- _ => apply u32at_ok_lt in H
  | H : u64at _ _ = Ok _ |- _ => apply u64at_ok_lt in H
  | H : sub _ _ _ = Ok _ |- _ => apply sub_ok_len in H
  | H : from _ _ = Ok _ |- _ => apply from_ok_len in H
  | H : upto _ _ = Ok _ |- _ => apply upto_ok_len in H
  | H : take _ _ = Ok (_, _) |- _ => apply take_ok in H
  | H : N.ltb _ _ = false |- _ => apply N.ltb_ge in H
  | H : N.ltb _ _ = true |- _ => apply N.ltb_lt in H
  | H : N.eqb _ _ = true |- _ => apply N.eqb_eq in H
  | H : N.eqb _ _ = false |- _ => apply N.eqb_neq in H
  | H : Nat.ltb _ _ = false |- _ => apply Nat.ltb_ge in H
  | H : Nat.leb _ _ = false |- _ => apply Nat.leb_gt in H
  | H : Nat.eqb _ _ = false |- _ => apply Nat.eqb_neq in H
  | H : Nat.eqb _ _ = true |- _ => apply Nat.eqb_eq in H
  end.

(* ---------- transforms ---------- *)
Definition img_transform (t : transform) : Prop :=
  t_type t < 256 /\ t_id t < 65536 /\
  ((t_present t = false /\ t_format t = 0 /\ t_atype t = 0 /\ t_aval t = 0 /\ t_var t = []) \/
   (t_present t = true /\ t_atype t < 32768 /\
    ((t_format t = 0 /\ t_aval t = 0) \/ (t_format t = 1 /\ t_aval t < 65536 /\ t_var t = [])))).

Lemma dec_transform_img td tl t : dec_transform td tl = Ok t -> img_transform t.
Proof.
  unfold dec_transform. intros H. inv H; injection H as <-; unfold img_transform; cbn [t_type t_id t_present t_format t_atype t_aval t_var]; bounds.
  - (* TLV *) split; [assumption|]. split; [assumption|]. right. split; [reflexivity|]. split; [lia|]. left. auto.
  - (* TV *) split; [assumption|]. split; [assumption|]. right. split; [reflexivity|]. split; [lia|].
    right. split; [lia|]. split; [assumption|reflexivity].
  - split; [assumption|]. split; [assumption|]. left. auto.
Qed.

Lemma dec_transforms_img fuel : forall td ts, dec_transforms fuel td = Ok ts -> Forall img_transform ts.
Proof.
  induction fuel as [|f IH]; intros td ts H; [discriminate|]. cbn [dec_transforms] in H. inv H.
  - injection H as <-. constructor.
  - injection H as <-. constructor; [eapply dec_transform_img; eassumption|eapply IH; eauto].
Qed.

(* an image transform whose encoding succeeds is in the domain *)
Lemma img_enc_dom_transform t more x : img_transform t -> enc_transform t more = Ok x -> dom_transform t.
Proof.
  intros (Ht & Hi & Hc) He. unfold dom_transform. split; [exact Ht|]. split; [exact Hi|].
  destruct Hc as [Hc|(Hp & Ha & [(Hf & Hv)|Hc])]; [now left| |right; auto].
  right. split; [exact Hp|]. split; [exact Ha|]. left.
  unfold enc_transform, enc_attr in He. rewrite Hp, Hf in He. cbn [negb] in He. change (0 =? 0) with true in He. cbv iota in He.
  destruct (length (t_var t) =? 0)%nat eqn:E0; [discriminate|].
  destruct (65535 <? len (t_var t)) eqn:E1; [discriminate|]. cbn [bind] in He.
  destruct (65535 <? 8 + len (be16 (fmt_type t) ++ be16 (len (t_var t)) ++ t_var t)) eqn:E2; [discriminate|].
  apply N.ltb_ge in E2. unfold len in E2. rewrite !app_length in E2. cbn [be16 length] in E2.
  split; [exact Hf|]. split; [exact Hv|]. split; [destruct (t_var t); [discriminate E0|discriminate]|]. unfold len. lia.
Qed.

Lemma img_enc_dom_transforms l : forall x, Forall img_transform l -> enc_transforms l = Ok x -> Forall dom_transform l.
Proof.
  induction l as [|t r IH]; intros x Hi He; [constructor|]. inversion Hi as [|? ? Ht Hr]; subst.
  cbn [enc_transforms] in He. inv He. constructor; [eapply img_enc_dom_transform; eassumption|eapply IH; eauto].
Qed.

(* ---------- proposals ---------- *)
Definition img_proposal (p : proposal) : Prop :=
  p_num p < 256 /\ p_proto p < 256 /\ Forall img_transform (all_transforms p) /\
  typed_as 1 (p_encr p) /\ typed_as 2 (p_prf p) /\ typed_as 3 (p_integ p) /\ typed_as 4 (p_dh p) /\ typed_as 5 (p_esn p).

Lemma of_type_typed ty l : typed_as ty (of_type ty l).
Proof.
  unfold typed_as, of_type. apply Forall_forall. intros t Ht. apply filter_In in Ht. destruct Ht as [_ Ht]. now apply N.eqb_eq in Ht.
Qed.
Lemma of_type_img ty l : Forall img_transform l -> Forall img_transform (of_type ty l).
Proof.
  intros H. apply Forall_forall. intros t Ht. apply filter_In in Ht. destruct Ht as [Ht _]. rewrite Forall_forall in H. now apply H.
Qed.

Lemma dec_proposals_img fuel : forall b ps, dec_proposals fuel b = Ok ps -> Forall img_proposal ps.
Proof.
  induction fuel as [|f IH]; intros b ps H; [discriminate|]. cbn [dec_proposals] in H. inv H.
  - injection H as <-. constructor.
  - injection H as <-. constructor; [|eapply IH; eauto].
    match goal with Ht : dec_transforms _ _ = Ok _ |- _ => pose proof (dec_transforms_img _ _ _ Ht) as Hts end.
    unfold img_proposal, all_transforms. cbn [p_num p_proto p_encr p_prf p_integ p_dh p_esn]. bounds.
    split; [assumption|]. split; [assumption|].
    split; [repeat (apply Forall_app; split); apply of_type_img; exact Hts|].
    repeat split; apply of_type_typed.
Qed.

Lemma img_enc_dom_proposal p more x : img_proposal p -> enc_proposal p more = Ok x -> dom_proposal p.
Proof.
  intros (Hn & Hp & Ht & T1 & T2 & T3 & T4 & T5) He. unfold enc_proposal in He.
  destruct (255 <? len (p_spi p)) eqn:E1; [discriminate|].
  destruct (length (all_transforms p) =? 0)%nat eqn:E2; [discriminate|].
  destruct (255 <? len (all_transforms p)) eqn:E3; [discriminate|].
  destruct (enc_transforms (all_transforms p)) as [td| | |] eqn:E4; cbn [bind] in He; try discriminate.
  destruct (65535 <? 8 + len (p_spi p) + len td) eqn:E5; [discriminate|].
  pose proof (img_enc_dom_transforms _ _ Ht E4) as Hd.
  rewrite (enc_transforms_canon _ Hd) in E4. injection E4 as <-.
  apply N.ltb_ge in E1, E3, E5.
  unfold dom_proposal. repeat split; auto; try lia.
  destruct (all_transforms p); [discriminate E2|discriminate].
Qed.

Lemma img_enc_dom_proposals l : forall x, Forall img_proposal l -> enc_proposals l = Ok x -> Forall dom_proposal l.
Proof.
  induction l as [|p r IH]; intros x Hi He; [constructor|]. inversion Hi as [|? ? Hp Hr]; subst.
  cbn [enc_proposals] in He. inv He. constructor; [eapply img_enc_dom_proposal; eassumption|eapply IH; eauto].
Qed.

(* ---------- selectors, configuration attributes ---------- *)
Lemma dec_selectors_img n : forall b ss, dec_selectors n b = Ok ss -> Forall wf_selector ss /\ length ss = n.
Proof.
  induction n as [|m IH]; intros b ss H; cbn [dec_selectors] in H.
  - injection H as <-. split; [constructor|reflexivity].
  - inv H. injection H as <-.
    match goal with Hr : dec_selectors _ _ = Ok _ |- _ => destruct (IH _ _ Hr) as [Hw Hl] end. split; [|cbn; now rewrite Hl].
    constructor; [|exact Hw]. unfold wf_selector. cbn [ts_type ts_proto ts_sport ts_eport ts_saddr ts_eaddr].
    match goal with Hc : negb ((?ty =? 7) || (?ty =? 8)) = false |- _ =>
      apply negb_false_iff in Hc; apply orb_true_iff in Hc; destruct Hc as [Hc|Hc]; apply N.eqb_eq in Hc; subst ty end.
    + change (7 =? 7) with true in *. cbv iota in *. bounds. split; [assumption|]. split; [assumption|]. split; [assumption|].
      left. split; [reflexivity|]. split; lia.
    + change (8 =? 7) with false in *. cbv iota in *. bounds. split; [assumption|]. split; [assumption|]. split; [assumption|].
      right. split; [reflexivity|]. split; lia.
Qed.

Lemma dec_cpattrs_img fuel : forall b l, dec_cpattrs fuel b = Ok l -> Forall dom_cpattr l /\ (b <> [] -> l <> []).
Proof.
  induction fuel as [|f IH]; intros b l H; [discriminate|]. cbn [dec_cpattrs] in H. inv H.
  - injection H as <-. split; [constructor|]. intros Hb. destruct b; [congruence|]. match goal with Hc : (length _ =? 0)%nat = true |- _ => discriminate Hc end.
  - injection H as <-. match goal with Hr : dec_cpattrs _ _ = Ok _ |- _ => destruct (IH _ _ Hr) as [Hw _] end. split; [|discriminate].
    constructor; [|exact Hw]. unfold dom_cpattr. cbn [ca_type ca_value]. bounds. split; [lia|]. unfold len. lia.
Qed.

(* ---------- EAP ---------- *)
Lemma aka_dec_attr_img t l b a r : t < 256 -> l < 256 -> aka_dec_attr t l b = Ok (a, r) -> wfd_akattr a /\ at_type a = t.
Proof.
  intros Ht Hl. unfold aka_dec_attr.
  destruct ((t =? 11) || (t =? 1) || (t =? 2)) eqn:E1.
  - intros H. inv H. injection H as <- <-. split; [|reflexivity]. apply wf_wfd.
    unfold wf_akattr. cbn [at_type at_len at_res at_val]. rewrite E1.
    match goal with Hc : negb (l =? 5) = false |- _ => apply negb_false_iff in Hc; apply N.eqb_eq in Hc; subst l end.
    change ((4 * 5 + 256 - 4) mod 256) with 16 in *. bounds. repeat split; auto; lia.
  - destruct ((t =? 23) || (t =? 3)) eqn:E2.
    + intros H. inv H. injection H as <- <-. split; [|reflexivity]. apply wf_wfd.
      unfold wf_akattr. cbn [at_type at_len at_res at_val]. rewrite E1, E2.
      match goal with H2 : take 2 _ = Ok (?r2, _) |- _ => pose proof (be_val_lt_pow r2 2 (take_ok _ _ _ _ H2)) as Hb end.
      change (256 ^ N.of_nat 2) with 65536 in Hb. bounds.
      split; [exact Ht|]. split; [exact Hl|]. split; [exact Hb|]. unfold len. split; lia.
    + destruct (t =? 24) eqn:E3.
      * intros H. inv H. injection H as <- <-. split; [|reflexivity]. unfold wfd_akattr. cbn [at_type at_len at_res at_val]. rewrite E3.
        bounds. split; [exact Hl|]. split; [reflexivity|]. unfold len.
        replace (4 * l + 254) with (4 * l + 256 - 2) by lia. lia.
      * intros H. inv H. injection H as <- <-. split; [|reflexivity]. apply wf_wfd.
        unfold wf_akattr. cbn [at_type at_len at_res at_val]. rewrite E1, E2, E3.
        match goal with H2 : take 2 _ = Ok (?r2, _) |- _ => pose proof (be_val_lt_pow r2 2 (take_ok _ _ _ _ H2)) as Hb end.
        change (256 ^ N.of_nat 2) with 65536 in Hb. bounds.
        split; [exact Ht|]. split; [exact Hl|]. split; [lia|]. split; [exact Hb|]. unfold len. lia.
Qed.

Lemma aka_set_wfd l a : Forall wfd_akattr l -> wfd_akattr a -> Forall wfd_akattr (aka_set l a).
Proof.
  induction l as [|x r IH]; intros Hl Ha; [constructor; [exact Ha|constructor]|].
  inversion Hl; subst. cbn [aka_set]. destruct (at_type x =? at_type a); constructor; auto.
Qed.

Lemma aka_dec_attrs_img fuel : forall b acc l,
  Forall wfd_akattr acc -> NoDup (map at_type acc) ->
  aka_dec_attrs fuel b acc = Ok l -> Forall wfd_akattr l /\ NoDup (map at_type l).
Proof.
  induction fuel as [|f IH]; intros b acc l Hw Hn H; [discriminate|]. cbn [aka_dec_attrs] in H.
  destruct b as [|t [|lo rest]]; [injection H as <-; auto|injection H as <-; auto|].
  inv H. match goal with Hd : aka_dec_attr _ _ _ = Ok _ |- _ => destruct (aka_dec_attr_img _ _ _ _ _ (b2n_lt t) (b2n_lt lo) Hd) as [Ha _] end.
  apply (IH _ _ _ (aka_set_wfd _ _ Hw Ha) (aka_set_nodup _ _ Hn) H).
Qed.

(* what EAP.Unmarshal produces *)
Definition img_eapdata (d : eapdata) : Prop :=
  match d with
  | EDExpanded vid vt _ => vid < 16777216 /\ vt < 4294967296
  | EDAka st rs attrs => st < 256 /\ rs < 65536 /\ Forall wfd_akattr attrs /\ NoDup (map at_type attrs)
  | _ => True
  end.
Definition img_eap (e : eap) : Prop := e_code e < 256 /\ e_id e < 256 /\ img_eapdata (e_data e).

Lemma eapdata_img ty body td :
  (if ty =? 1 then res_map EDIdentity (simple_unmarshal 1 body)
   else if ty =? 2 then res_map EDNotification (simple_unmarshal 2 body)
   else if ty =? 3 then res_map EDNak (simple_unmarshal 3 body)
   else if ty =? 50 then aka_unmarshal body
   else if ty =? 254 then expanded_unmarshal body
   else Err) = Ok td -> img_eapdata td.
Proof.
  intros H. repeat match type of H with (if ?c then _ else _) = Ok _ => destruct c end; try discriminate H.
  - unfold res_map in H. destruct (simple_unmarshal 1 body); try discriminate. injection H as <-. exact I.
  - unfold res_map in H. destruct (simple_unmarshal 2 body); try discriminate. injection H as <-. exact I.
  - unfold res_map in H. destruct (simple_unmarshal 3 body); try discriminate. injection H as <-. exact I.
  - unfold aka_unmarshal in H. inv H. injection H as <-. cbn [img_eapdata].
    match goal with Hd : aka_dec_attrs _ _ [] = Ok _ |- _ => pose proof (aka_dec_attrs_img _ _ _ _ (Forall_nil _) (NoDup_nil _) Hd) as [Hw Hn] end.
    bounds. auto.
  - unfold expanded_unmarshal in H. inv H; injection H as <-; cbn [img_eapdata]; bounds.
    + lia.
    + split; [apply N.mod_lt; lia|assumption].
Qed.

Lemma eap_unmarshal_img b e : eap_unmarshal b = Ok e -> img_eap e.
Proof.
  unfold eap_unmarshal. intros H. inv H.
  - injection H as <-. unfold img_eap, eap_zero. cbn. repeat split; lia.
  - injection H as <-. unfold img_eap. cbn [e_code e_id e_data img_eapdata]. bounds. auto.
  - injection H as <-. unfold img_eap. cbn [e_code e_id e_data].
    match goal with Hd : (if _ then _ else _) = Ok _ |- _ => pose proof (eapdata_img _ _ _ Hd) end. bounds. auto.
Qed.

Lemma img_enc_dom_eap e d : img_eap e -> eap_marshal e = Ok d -> dom_eap e.
Proof.
  intros (Hc & Hi & Hd) He. split; [exact Hc|]. split; [exact Hi|].
  unfold eap_marshal in He. destruct (eapdata_marshal (e_data e)) as [td| | |] eqn:Et; cbn [bind] in He; try discriminate.
  destruct (e_data e) as [|x|x|x|vid vt x|st rs attrs]; cbn [dom_eapdata img_eapdata eapdata_marshal] in *.
  - exact I.
  - unfold simple_marshal in Et. destruct x; [discriminate Et|discriminate].
  - unfold simple_marshal in Et. destruct x; [discriminate Et|discriminate].
  - unfold simple_marshal in Et. destruct x; [discriminate Et|discriminate].
  - exact Hd.
  - exact Hd.
Qed.

(* ---------- payload bodies ---------- *)
Definition img_body (p : payload) : Prop :=
  match p with
  | PSA props => Forall img_proposal props
  | PKE g d => g < 65536 /\ d <> []
  | PIDi t d | PIDr t d | PAUTH t d | PCERT t d | PCERTREQ t d => t < 256 /\ d <> []
  | PNonce _ | PVendor _ => True
  | PNotify proto nt spi _ => proto < 256 /\ nt < 65536 /\ len spi <= 255
  | PDelete proto sz num spis => proto < 256 /\ sz < 256 /\ num < 65536 /\ Forall (fun v => v < 4294967296) spis /\
                                 (4 * len spis = 0 \/ (4 + sz * num <= 4 + 4 * len spis))
  | PTSi sels | PTSr sels => len sels <= 255 /\ Forall wf_selector sels
  | PSK nxt _ => nxt < 256
  | PCP ct attrs => ct < 256 /\ attrs <> [] /\ Forall dom_cpattr attrs
  | PEAP e => img_eap e
  end.

Lemma nonempty_from b i d : from b i = Ok d -> (i < length b)%nat -> d <> [].
Proof. intros H Hl. destruct (from_ok_len _ _ _ H) as [L _]. destruct d; [cbn in L; lia|discriminate]. Qed.

Lemma words32_img fuel : forall b ws, words32 fuel b = Ok ws -> Forall (fun v => v < 4294967296) ws /\ (4 * length ws = length b)%nat.
Proof.
  induction fuel as [|f IH]; intros b ws H; [discriminate|]. cbn [words32] in H. inv H.
  - injection H as <-. split; [constructor|]. apply Nat.eqb_eq in C. cbn. lia.
  - injection H as <-. destruct (IH _ _ E1) as [Hw Hl]. split; [constructor; [eapply u32at_ok_lt; eassumption|exact Hw]|].
    destruct (from_ok_len _ _ _ E0) as [L B]. cbn [length]. lia.
Qed.

Lemma t3_img b t d : t3_unmarshal b = Ok (t, d) -> t < 256 /\ d <> [].
Proof.
  unfold t3_unmarshal. intros H. inv H. injection H as <- <-.
  match goal with Hf : from b 4 = Ok _ |- _ => pose proof (nonempty_from _ _ _ Hf) as Hne end. bounds. split; [assumption|apply Hne; lia].
Qed.
Lemma t0_img b t d : t0_unmarshal b = Ok (t, d) -> t < 256 /\ d <> [].
Proof.
  unfold t0_unmarshal. intros H. inv H. injection H as <- <-.
  match goal with Hf : from b 1 = Ok _ |- _ => pose proof (nonempty_from _ _ _ Hf) as Hne end. bounds. split; [assumption|apply Hne; lia].
Qed.

Lemma ts_img b ss : ts_unmarshal b = Ok ss -> len ss <= 255 /\ Forall wf_selector ss.
Proof.
  unfold ts_unmarshal. intros H. inv H.
  - injection H as <-. unfold len. cbn. split; [lia|constructor].
  - destruct (dec_selectors_img _ _ _ H) as [Hw Hl]. bounds. unfold len. split; [lia|exact Hw].
Qed.

Lemma payload_unmarshal_img ty nxt body p : nxt < 256 -> payload_unmarshal ty nxt body = Ok p -> img_body p.
Proof.
  intros Hn. unfold payload_unmarshal.
  repeat match goal with |- (if ?c then _ else _) = Ok _ -> _ => destruct c end; try (intros H; discriminate H).
  - (* SA *) intros H. inv H. injection H as <-. cbn [img_body]. eapply dec_proposals_img. eassumption.
  - (* KE *) unfold ke_unmarshal. intros H. inv H. injection H as <-. cbn [img_body].
    match goal with Hf : from body 4 = Ok _ |- _ => pose proof (nonempty_from _ _ _ Hf) as Hne end. bounds. split; [assumption|apply Hne; lia].
  - intros H. inv H. injection H as <-. cbn [img_body]. eapply t3_img; eassumption.
  - intros H. inv H. injection H as <-. cbn [img_body]. eapply t3_img; eassumption.
  - intros H. inv H. injection H as <-. cbn [img_body]. eapply t0_img; eassumption.
  - intros H. inv H. injection H as <-. cbn [img_body]. eapply t0_img; eassumption.
  - intros H. inv H. injection H as <-. cbn [img_body]. eapply t3_img; eassumption.
  - intros [= <-]. exact I.
  - (* Notify *) unfold notify_unmarshal. intros H. inv H; injection H as <-; cbn [img_body].
    + unfold len. cbn. lia.
    + bounds. unfold len. split; [assumption|]. split; [assumption|]. lia.
  - (* Delete *) unfold delete_unmarshal. intros H. inv H; injection H as <-; cbn [img_body].
    + unfold len. cbn. repeat split; try lia. constructor.
    + match goal with Hw : words32 _ _ = Ok _ |- _ => destruct (words32_img _ _ _ Hw) as [Hw32 Hl] end.
      bounds. unfold len in *. split; [assumption|]. split; [assumption|]. split; [assumption|]. split; [exact Hw32|]. right. lia.
  - intros [= <-]. exact I.
  - (* TSi *) intros H. inv H. injection H as <-. cbn [img_body]. eapply ts_img; eassumption.
  - (* TSr *) intros H. inv H. injection H as <-. cbn [img_body]. eapply ts_img; eassumption.
  - intros [= <-]. exact Hn.
  - (* CP *) unfold cp_unmarshal. intros H. inv H. injection H as <-. cbn [img_body].
    match goal with Hd : dec_cpattrs _ _ = Ok _ |- _ => destruct (dec_cpattrs_img _ _ _ Hd) as [Hw Hne] end.
    match goal with Hf : from body 4 = Ok _ |- _ => pose proof (nonempty_from _ _ _ Hf) as Hne2 end. bounds.
    split; [assumption|]. split; [apply Hne, Hne2; lia|exact Hw].
  - (* EAP *) intros H. inv H. injection H as <-. cbn [img_body]. eapply eap_unmarshal_img. eassumption.
Qed.

(* an image payload whose Marshal succeeds with a body that fits the 16-bit payload length is in the domain *)
Lemma img_enc_dom_payload p d : img_body p -> payload_marshal p = Ok d -> 4 + len d < 65536 -> dom_payload p.
Proof.
  intros Hi Hm Hl.
  assert (Hb : dom_body p).
  { destruct p; cbn [img_body dom_body payload_marshal] in *; auto.
    - eapply img_enc_dom_proposals; eassumption.
    - (* Delete *) destruct Hi as (Hp & Hs & Hnum & Hw & Hfit). split; [exact Hp|].
      unfold delete_marshal in Hm. destruct (len spis =? num) eqn:En; cbn [negb] in Hm; [|discriminate]. apply N.eqb_eq in En.
      destruct (0 <? num) eqn:E0.
      + destruct (spisize <? 4) eqn:E4; [discriminate|]. apply N.ltb_ge in E4. apply N.ltb_lt in E0.
        right. destruct Hfit as [Hz|Hf]; [lia|]. rewrite <- En in *.
        assert (spisize = 4) by nia. subst spisize. repeat split; auto; lia.
      + apply N.ltb_ge in E0. left. assert (Hz : num = 0) by lia. split; [exact Hs|]. split; [exact Hz|].
        destruct spis; [reflexivity|unfold len in En; cbn [length] in En; lia].
    - (* TSi *) destruct Hi as [Hl2 Hw]. unfold ts_marshal in Hm. destruct (length sels =? 0)%nat eqn:E; [discriminate|].
      split; [destruct sels; [discriminate E|discriminate]|]. auto.
    - (* TSr *) destruct Hi as [Hl2 Hw]. unfold ts_marshal in Hm. destruct (length sels =? 0)%nat eqn:E; [discriminate|].
      split; [destruct sels; [discriminate E|discriminate]|]. auto.
    - (* SK *) split; [exact Hi|]. destruct (length d0 =? 0)%nat eqn:E; [discriminate|]. destruct d0; [discriminate E|discriminate].
    - (* EAP *) split; [eapply img_enc_dom_eap; eassumption|]. unfold eap_bytes. rewrite Hm. lia. }
  split; [exact Hb|]. rewrite (payload_marshal_canon p Hb) in Hm. injection Hm as <-. exact Hl.
Qed.

(* ---------- the chain ---------- *)
Lemma payload_unmarshal_psk ty nxt body p : payload_unmarshal ty nxt body = Ok p -> is_psk p = true -> ty = 46.
Proof.
  unfold payload_unmarshal. intros H Hp.
  repeat match type of H with (if ?c then _ else _) = Ok _ => destruct c eqn:? end; try discriminate H;
    try (apply N.eqb_eq; assumption);
    unfold res_map, ke_unmarshal, notify_unmarshal, delete_unmarshal, cp_unmarshal in H; inv H;
    try (injection H as <-); try discriminate Hp.
Qed.

Lemma container_decode_nil f nxt : container_decode (S f) nxt [] = Ok [].
Proof. reflexivity. Qed.

Lemma container_decode_img fuel : forall nxt b ps,
  nxt < 256 -> container_decode fuel nxt b = Ok ps -> Forall img_body ps /\ sk_consistent ps.
Proof.
  induction fuel as [|f IH]; intros nxt b ps Hn H; [discriminate|]. cbn [container_decode] in H. inv H.
  - injection H as <-. split; [constructor|exact I].
  - (* supported *) injection H as <-.
    match goal with Hb : idx b 0 = Ok ?b0, Hr : container_decode f ?b0 ?rest = Ok ?l1, Hu : payload_unmarshal nxt ?b0 _ = Ok ?p,
                    Hf : from b _ = Ok ?rest, Hc3 : (nxt =? 46) && _ = false |- _ =>
      pose proof (idx_ok_lt _ _ _ Hb) as Hb0; destruct (IH _ _ _ Hb0 Hr) as [Hi Hc];
      split; [constructor; [eapply payload_unmarshal_img; eassumption|exact Hi]|];
      cbn [sk_consistent]; split; [|exact Hc]; intros Hp;
      pose proof (payload_unmarshal_psk _ _ _ _ Hu Hp) as E46; rewrite E46 in Hc3; change (46 =? 46) with true in Hc3; cbn [andb] in Hc3;
      apply Nat.ltb_ge in Hc3; destruct (from_ok_len _ _ _ Hf) as [Lr _];
      assert (Lz : length rest = 0%nat) by lia; destruct rest; [|discriminate Lz];
      destruct f; [discriminate Hr|]; rewrite container_decode_nil in Hr; now injection Hr as <-
    end.
  - (* skipped *) match goal with Hb : idx b 0 = Ok _ |- _ => eapply IH; [eapply idx_ok_lt; exact Hb|exact H] end.
Qed.

Lemma container_encode_img l : forall x, Forall img_body l -> container_encode l = Ok x -> Forall dom_payload l.
Proof.
  induction l as [|p r IH]; intros x Hi He; [constructor|]. inversion Hi as [|? ? Hp Hr]; subst.
  cbn [container_encode] in He. inv He. constructor; [|eapply IH; eauto].
  match goal with Hm : payload_marshal p = Ok ?d, Hc : (65535 <? 4 + len ?d) = false |- _ =>
    apply N.ltb_ge in Hc; apply (img_enc_dom_payload p d Hp Hm); lia end.
Qed.

Lemma parse_header_img b h pb : parse_header b = Ok (h, pb) -> dom_header h /\ h_next h < 256.
Proof.
  unfold parse_header. intros H. inv H. injection H as <- <-. unfold dom_header.
  cbn [h_ispi h_rspi h_major h_minor h_exch h_flags h_mid h_next]. bounds.
  repeat split; try assumption.
  - apply N.div_lt_upper_bound; lia.
  - apply N.mod_lt. lia.
Qed.

(* C12, image lemma: whatever the decoder accepts and the encoder can re-encode lies in the round-trip domain *)
Theorem decode_image b m b' : decode b = Ok m -> encode m = Ok b' -> dom_msg m /\ sk_consistent (m_payloads m).
Proof.
  unfold decode. intros Hd He.
  destruct (parse_header b) as [[h pb]| | |] eqn:Ph; cbn [bind] in Hd; try discriminate.
  destruct (decode_payloads (h_next h) pb) as [ps| | |] eqn:Dp; cbn [bind] in Hd; try discriminate.
  injection Hd as <-. destruct (parse_header_img _ _ _ Ph) as [Hh Hn].
  destruct (container_decode_img _ _ _ _ Hn Dp) as [Hi Hc].
  unfold encode in He. cbn [m_hdr m_payloads] in He.
  destruct (container_encode ps) as [pbytes| | |] eqn:Ce; cbn [bind] in He; try discriminate.
  pose proof (container_encode_img _ _ Hi Ce) as Hdp.
  split; [|exact Hc]. unfold dom_msg. cbn [m_hdr m_payloads]. split; [exact Hh|]. split; [exact Hdp|].
  rewrite (container_encode_canon _ Hdp) in Ce. injection Ce as <-.
  unfold header_marshal in He. destruct (4294967295 <? 28 + len (wenc_chain (sk_last ps) (map (canon_payload eap_bytes) ps))) eqn:E; [discriminate|].
  apply N.ltb_ge in E. lia.
Qed.
