(* C18: the frame argument behind "independent SAs and messages can be processed concurrently".
   Memory is a map from locations to values; a thread is a sequence of atomic commands, each with a read footprint, a
   write footprint and a transition that (a) changes nothing outside its write footprint and (b) depends on nothing
   outside its footprints.  A schedule is ANY list of (thread id, command): every interleaving of any number of
   threads of any lengths.  If no command of a thread writes into the footprint of another thread then
   - no two commands of different threads conflict (no data race at this level of abstraction), and
   - every thread computes, on its own locations, exactly what it computes when run alone from the same memory.
   The Go memory model, the scheduler and the internals of crypto/*, math/big, crypto/rand are not modelled. *)
From Coq Require Import List Arith Bool Lia.
Import ListNotations.

Section Frame.
  Variable loc val : Type.
  Definition mem := loc -> val.

  Record cmd := mkCmd {
    fp_r : loc -> bool;            (* locations the command may read *)
    fp_w : loc -> bool;            (* locations the command may write *)
    run : mem -> mem
  }.
  Definition fp (c : cmd) (l : loc) : bool := fp_r c l || fp_w c l.

  (* a command respects its declared footprints *)
  Definition well_framed (c : cmd) : Prop :=
    (forall m l, fp_w c l = false -> run c m l = m l) /\
    (forall m m', (forall l, fp c l = true -> m l = m' l) -> forall l, fp_w c l = true -> run c m l = run c m' l).

  Definition tid := nat.
  Definition sched := list (tid * cmd).
  Fixpoint exec (cs : list cmd) (m : mem) : mem :=
    match cs with [] => m | c :: r => exec r (run c m) end.
  Definition proj (i : tid) (s : sched) : list cmd := map snd (filter (fun x => Nat.eqb (fst x) i) s).
  Definition exec_sched (s : sched) (m : mem) : mem := exec (map snd s) m.

  (* F i: the locations thread i works on (its own SA object, messages, buffers, and the globals it reads) *)
  Variable F : tid -> loc -> Prop.
  Definition confined (s : sched) : Prop := forall i c, In (i, c) s -> well_framed c /\ forall l, fp c l = true -> F i l.
  (* no thread writes a location another thread works on *)
  Definition non_interfering (s : sched) : Prop :=
    forall i j c, In (j, c) s -> i <> j -> forall l, fp_w c l = true -> ~ F i l.

  Definition agree_on (P : loc -> Prop) (m m' : mem) : Prop := forall l, P l -> m l = m' l.

  Lemma run_frame c (P : loc -> Prop) m m' :
    well_framed c -> (forall l, fp c l = true -> P l) -> agree_on P m m' -> agree_on P (run c m) (run c m').
  Proof.
    intros [Hw Hd] Hsub Ha l Hl. destruct (fp_w c l) eqn:E.
    - apply Hd; [|exact E]. intros l' Hl'. apply Ha. now apply Hsub.
    - rewrite !Hw by assumption. now apply Ha.
  Qed.

  Lemma exec_frame cs (P : loc -> Prop) : forall m m',
    (forall c, In c cs -> well_framed c /\ forall l, fp c l = true -> P l) ->
    agree_on P m m' -> agree_on P (exec cs m) (exec cs m').
  Proof.
    induction cs as [|c r IH]; intros m m' Hc Ha; [exact Ha|].
    cbn [exec]. apply IH; [intros c' Hin; apply Hc; now right|].
    destruct (Hc c (or_introl eq_refl)) as [Hwf Hsub]. now apply run_frame.
  Qed.

  Lemma in_proj i c s : In c (proj i s) -> In (i, c) s.
  Proof.
    unfold proj. rewrite in_map_iff. intros [[j c'] [E Hin]]. cbn in E. subst c'.
    apply filter_In in Hin. destruct Hin as [Hin Hj]. cbn in Hj. apply Nat.eqb_eq in Hj. now subst j.
  Qed.

  (* every interleaving: thread i ends, on its own locations, exactly as when it runs alone *)
  Theorem thread_local_result_is_schedule_independent s : forall m i,
    confined s -> non_interfering s ->
    agree_on (F i) (exec_sched s m) (exec (proj i s) m).
  Proof.
    induction s as [|[j c] s IH]; intros m i Hc Hn; [intros l _; reflexivity|].
    assert (Hc' : confined s) by (intros i' c' Hin; apply Hc; now right).
    assert (Hn' : non_interfering s) by (intros i' j' c' Hin; apply (Hn i' j' c'); now right).
    unfold exec_sched, proj in *. cbn [map snd filter fst exec].
    destruct (Nat.eqb j i) eqn:E.
    - cbn [map snd exec]. apply IH; assumption.
    - apply Nat.eqb_neq in E.
      intros l Hl. rewrite (IH (run c m) i Hc' Hn' l Hl).
      (* the foreign command c changed nothing thread i works on *)
      apply (exec_frame _ (F i)); [|  | exact Hl].
      + intros c' Hin. apply Hc. right. now apply in_proj.
      + intros l' Hl'. destruct (Hc j c (or_introl eq_refl)) as [[Hw _] _].
        apply Hw. destruct (fp_w c l') eqn:Ew; [|reflexivity].
        exfalso. apply (Hn i j c (or_introl eq_refl) (fun H => E (eq_sym H)) l' Ew Hl').
  Qed.

  (* no two commands of different threads conflict: a location written by one is not touched by the other *)
  Definition conflict (c d : cmd) : Prop := exists l, (fp_w c l = true /\ fp d l = true) \/ (fp_w d l = true /\ fp c l = true).
  Theorem race_free s :
    confined s -> non_interfering s ->
    forall i j c d, In (i, c) s -> In (j, d) s -> i <> j -> ~ conflict c d.
  Proof.
    intros Hc Hn i j c d Hi Hj Hij [l [[Hw Hf]|[Hw Hf]]].
    - apply (Hn j i c Hi (fun H => Hij (eq_sym H)) l Hw). now apply (Hc j d Hj).
    - apply (Hn i j d Hj Hij l Hw). now apply (Hc i c Hi).
  Qed.
End Frame.

(* The library instance.  Locations are globals (the algorithm registries, the two random-number bounds) or cells of
   objects owned by one thread.  What the source facts establish (gen/SrcAgree.v: no package-level variable is written,
   address-taken for writing or mutated through a method outside init; registry singletons have no method that
   assigns a receiver field) is hypothesis no_global_writes; what the property assumes ("share no message and no SA key
   object"; read-only sharing of an input slice allowed) is hypothesis owned_or_readonly. *)
Section Library.
  Variable loc val : Type.
  Variable is_global : loc -> bool.
  Variable owner : loc -> tid -> Prop.          (* non-global location l belongs to thread i *)
  Variable read_shared : loc -> Prop.           (* non-global locations every thread may read but nobody writes *)

  Definition FL (i : tid) (l : loc) : Prop := is_global l = true \/ owner l i \/ read_shared l.

  Theorem library_threads_do_not_interfere (s : sched loc val) :
    (forall i c, In (i, c) s -> well_framed loc val c /\ forall l, fp loc val c l = true -> FL i l) ->
    (* source facts *)
    (forall i c l, In (i, c) s -> fp_w loc val c l = true -> is_global l = false) ->
    (* the property's premise *)
    (forall i c l, In (i, c) s -> fp_w loc val c l = true -> owner l i /\ ~ read_shared l /\ forall j, j <> i -> ~ owner l j) ->
    forall m i, agree_on loc val (FL i) (exec_sched loc val s m) (exec loc val (proj loc val i s) m).
  Proof.
    intros Hc Hg Ho m i. apply thread_local_result_is_schedule_independent; [exact Hc|].
    intros i' j c Hin Hij l Hw [Hgl|[Hown|Hsh]].
    - rewrite (Hg j c l Hin Hw) in Hgl. discriminate.
    - destruct (Ho j c l Hin Hw) as (_ & _ & Hex). exact (Hex i' Hij Hown).
    - destruct (Ho j c l Hin Hw) as (_ & Hns & _). exact (Hns Hsh).
  Qed.
End Library.
