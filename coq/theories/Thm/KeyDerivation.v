(* C07 / C08: IKE SA and Child SA key derivation (Impl/Security.v) against RFC 7296 2.13, 2.14, 2.17 (Spec/PrfPlus.v). *)
From IKE Require Import Lib.Base Lib.BaseLemmas Prim.Hmac Spec.PrfPlus Thm.PrfPlusLemmas Impl.Security Thm.PrfPlusObj.

Lemma skipn_skipn {A} (l : list A) a b : skipn a (skipn b l) = skipn (b + a) l.
Proof.
  revert l; induction b as [|b IH]; intros l; [reflexivity|].
  destruct l; [now rewrite !skipn_nil|]. cbn [skipn Nat.add]. apply IH.
Qed.

Section K.
  Variable digest : halg -> bytes -> bytes.
  Hypothesis digest_len : forall a x, length (digest a x) = hlen a.

  Definition prf_fn (p : prf_alg) : bytes -> bytes -> bytes := hm digest (prf_hash p).

  Lemma prf_plus_len p K s n L : (L <= hlen (prf_hash p) * n)%nat -> length (prf_plus (prf_fn p) K s n L) = L.
  Proof.
    intros H. unfold prf_plus, prf_fn. rewrite firstn_length.
    change (stream (hm digest (prf_hash p)) K s n) with (st digest (prf_hash p) K s n). rewrite st_len by assumption. lia.
  Qed.

  (* cutting a key stream: upto / from chains are the slices *)
  Lemma cut_ok (ks : bytes) a n :
    (a + n <= length ks)%nat ->
    upto (skipn a ks) n = Ok (slice a (a + n) ks) /\ from (skipn a ks) n = Ok (skipn (a + n) ks).
  Proof.
    intros H. split.
    - rewrite upto_ok by (rewrite skipn_length; lia). unfold slice. do 2 f_equal. lia.
    - rewrite from_ok by (rewrite skipn_length; lia). now rewrite skipn_skipn.
  Qed.

  Theorem ikesa_keys_correct e i p nonce secret si sr :
    nonce <> [] -> secret <> [] ->
    let ld := prf_keylen p in let la := integ_keylen i in let le := encr_keylen e in
    let total := (ld + la + la + le + le + ld + ld)%nat in
    let skeyseed := prf_fn p nonce secret in
    let ks := prf_plus (prf_fn p) skeyseed (nonce ++ be64 si ++ be64 sr) total total in
    generate_key_for_ikesa digest e i p nonce secret si sr =
      Ok (sa_of_keys e i p
            (slice 0 ld ks) (slice ld (ld + la) ks) (slice (ld + la) (ld + la + la) ks)
            (slice (ld + la + la) (ld + la + la + le) ks) (slice (ld + la + la + le) (ld + la + la + le + le) ks)
            (slice (ld + la + la + le + le) (ld + la + la + le + le + ld) ks)
            (slice (ld + la + la + le + le + ld) total ks)).
  Proof.
    intros Hn Hs ld la le total skeyseed ks. unfold generate_key_for_ikesa.
    destruct nonce as [|n0 nonce]; [congruence|]. destruct secret as [|s0 secret]; [congruence|].
    cbn [length]. change (S (length nonce) =? 0)%nat with false. change (S (length secret) =? 0)%nat with false. cbv iota.
    fold ld la le total.
    assert (SK : prf_once digest p (n0 :: nonce) (s0 :: secret) = skeyseed) by reflexivity.
    rewrite SK.
    pose proof (hlen_pos (prf_hash p)) as Hp.
    destruct (prf_plus_obj_correct digest digest_len (ho_new (prf_hash p) skeyseed)
                (concat_nonce_spi (n0 :: nonce) si sr) total total) as (o' & R & _); [cbn [h_alg ho_new]; nia|].
    cbn [h_alg h_key ho_new] in R. rewrite R. fold (prf_fn p). unfold concat_nonce_spi. fold ks.
    assert (L : length ks = total) by (apply prf_plus_len; nia).
    change ks with (skipn 0 ks) at 1 2.
    destruct (cut_ok ks 0 ld) as [U1 F1]; [lia|]. rewrite U1, F1. cbn [bind].
    destruct (cut_ok ks (0 + ld) la) as [U2 F2]; [lia|]. rewrite U2, F2. cbn [bind].
    destruct (cut_ok ks (0 + ld + la) la) as [U3 F3]; [lia|]. rewrite U3, F3. cbn [bind].
    destruct (cut_ok ks (0 + ld + la + la) le) as [U4 F4]; [lia|]. rewrite U4, F4. cbn [bind].
    destruct (cut_ok ks (0 + ld + la + la + le) le) as [U5 F5]; [lia|]. rewrite U5, F5. cbn [bind].
    destruct (cut_ok ks (0 + ld + la + la + le + le) ld) as [U6 F6]; [lia|]. rewrite U6, F6. cbn [bind].
    destruct (cut_ok ks (0 + ld + la + la + le + le + ld) ld) as [U7 _]; [lia|]. rewrite U7. cbn [bind].
    unfold new_crypto.
    assert (SL : forall a b, (a <= b)%nat -> (b <= total)%nat -> length (slice a b ks) = (b - a)%nat).
    { intros a b Hab Hb. unfold slice. rewrite firstn_length, skipn_length. lia. }
    rewrite !SL by lia.
    replace (0 + ld + la + la + le - (0 + ld + la + la))%nat with le by lia.
    replace (0 + ld + la + la + le + le - (0 + ld + la + la + le))%nat with le by lia.
    rewrite Nat.eqb_refl. cbn [negb bind].
    unfold sa_of_keys. cbn [Nat.add]. replace (ld + la + la + le + le + ld + ld)%nat with total by reflexivity.
    reflexivity.
  Qed.

  Theorem ikesa_empty_refused e i p nonce secret si sr :
    nonce = [] \/ secret = [] -> generate_key_for_ikesa digest e i p nonce secret si sr = Err.
  Proof.
    intros [-> | ->]; unfold generate_key_for_ikesa; cbn [length]; [reflexivity|].
    destruct (length nonce =? 0)%nat; reflexivity.
  Qed.

  (* two parties holding the same inputs build identical SAs: the derivation is a function *)
  (* ---------- Child SA ---------- *)
  Definition child_total (e : encr_alg) (i : option integ_alg) : nat :=
    ((encr_keylen e + match i with Some a => integ_keylen a | None => 0 end) * 2)%nat.

  Theorem childsa_keys_correct sa e i nonce :
    let le := encr_keylen e in
    let li := match i with Some a => integ_keylen a | None => 0%nat end in
    let total := child_total e i in
    let ks := prf_plus (hm digest (h_alg (sa_prf_d sa))) (h_key (sa_prf_d sa)) nonce total total in
    exists o',
      generate_key_for_childsa digest sa e i nonce =
        (Ok (slice 0 le ks, slice le (le + li) ks, slice (le + li) (le + li + le) ks, slice (le + li + le) total ks),
         set_prf_d sa o')
      /\ same_key (sa_prf_d sa) o'.
  Proof.
    intros le li total ks. unfold generate_key_for_childsa. fold le li. 
    change ((le + li) * 2)%nat with total.
    pose proof (hlen_pos (h_alg (sa_prf_d sa))) as Hp.
    destruct (prf_plus_obj_correct digest digest_len (sa_prf_d sa) nonce total total) as (o' & R & SKK); [nia|].
    rewrite R. fold ks. exists o'. split; [|exact SKK].
    assert (L : length ks = total).
    { unfold ks, prf_plus. rewrite firstn_length.
      change (stream (hm digest (h_alg (sa_prf_d sa))) (h_key (sa_prf_d sa)) nonce total) with (st digest (h_alg (sa_prf_d sa)) (h_key (sa_prf_d sa)) nonce total).
      rewrite st_len by assumption. nia. }
    assert (T2 : total = (le + li + le + li)%nat) by (unfold total, child_total; fold le li; lia).
    change ks with (skipn 0 ks) at 1 2.
    destruct (cut_ok ks 0 le) as [U1 F1]; [lia|]. rewrite U1, F1. cbn [bind].
    destruct (cut_ok ks (0 + le) li) as [U2 F2]; [lia|]. rewrite U2, F2. cbn [bind].
    destruct (cut_ok ks (0 + le + li) le) as [U3 F3]; [lia|]. rewrite U3, F3. cbn [bind].
    destruct (cut_ok ks (0 + le + li + le) li) as [U4 _]; [lia|]. rewrite U4. cbn [bind].
    cbn [Nat.add]. replace (le + li + le + li)%nat with total by lia. reflexivity.
  Qed.

  (* histories: any sequence of derivations on one IKE SA object *)
  Definition derivation := (encr_alg * option integ_alg * bytes)%type.
  Definition derive_step (sa : ikesa) (d : derivation) : ikesa :=
    let '(e, i, nonce) := d in snd (generate_key_for_childsa digest sa e i nonce).

  Lemma derive_step_same_key sa d : same_key (sa_prf_d sa) (sa_prf_d (derive_step sa d)).
  Proof.
    destruct d as [[e i] nonce]. unfold derive_step.
    destruct (childsa_keys_correct sa e i nonce) as (o' & R & SKK). rewrite R. exact SKK.
  Qed.

  Lemma history_same_key sa h : same_key (sa_prf_d sa) (sa_prf_d (fold_left derive_step h sa)).
  Proof.
    revert sa; induction h as [|d h IH]; intros sa; [split; reflexivity|].
    cbn [fold_left]. destruct (derive_step_same_key sa d) as [A K]. destruct (IH (derive_step sa d)) as [A' K'].
    split; congruence.
  Qed.

  (* every Child SA derived from an IKE SA - the first or the hundredth - receives the keys of prf+(SK_d, Ni|Nr),
     i.e. the keys a freshly constructed copy of the IKE SA gives *)
  Theorem child_keys_after_any_history sa h e i nonce :
    fst (generate_key_for_childsa digest (fold_left derive_step h sa) e i nonce) =
    fst (generate_key_for_childsa digest sa e i nonce).
  Proof.
    destruct (history_same_key sa h) as [A K].
    destruct (childsa_keys_correct (fold_left derive_step h sa) e i nonce) as (o1 & R1 & _).
    destruct (childsa_keys_correct sa e i nonce) as (o2 & R2 & _).
    rewrite R1, R2. cbn [fst]. now rewrite A, K.
  Qed.
End K.
