(* C04 on the Impl model: every decoder returns a value or an error - never Fault (an access outside
   [0,len]: a panic with exact capacity, an over-read otherwise), never OutOfFuel (the loop bound
   len+1 suffices: work is bounded by the input length). *)
From IKE Require Import Lib.Base Lib.BaseLemmas Thm.Tactics Impl.Msg Impl.Eap Impl.Payloads Impl.Message.
Local Open Scope N_scope.

Definition safe {A} (r : res A) : Prop := r <> Fault /\ r <> OutOfFuel.

Lemma safe_ok {A} (v : A) : safe (Ok v). Proof. split; discriminate. Qed.
Lemma safe_err {A} : safe (@Err A). Proof. split; discriminate. Qed.
Lemma safe_bind {A B} (r : res A) (f : A -> res B) :
  safe r -> (forall v, r = Ok v -> safe (f v)) -> safe (bind r f).
Proof. intros [H1 H2] Hf. destruct r; cbn; try (split; congruence). now apply Hf. Qed.
Lemma safe_map {A B} (g : A -> B) (r : res A) : safe r -> safe (res_map g r).
Proof. intros H. unfold res_map. apply safe_bind; [exact H|]. intros; apply safe_ok. Qed.
Global Hint Resolve safe_ok safe_err : safe.

(* one step of symbolic execution: a guarded accessor becomes Ok of a fresh value *)
Ltac acc_on t :=
  lazymatch t with
  | idx ?b ?i =>
    let x := fresh "x" in let Hx := fresh "Hx" in
    destruct (idx_ok b i) as (x & -> & Hx); [len_norm; lia|]; cbn [bind]
  | u16at ?b ?i =>
    let x := fresh "x" in let Hx := fresh "Hx" in
    destruct (u16at_ok b i) as (x & -> & Hx); [len_norm; lia|]; cbn [bind]
  | u32at ?b ?i =>
    let x := fresh "x" in let Hx := fresh "Hx" in
    destruct (u32at_ok b i) as (x & -> & Hx); [len_norm; lia|]; cbn [bind]
  | u64at ?b ?i =>
    let x := fresh "x" in let Hx := fresh "Hx" in
    destruct (u64at_ok b i) as (x & -> & Hx); [len_norm; lia|]; cbn [bind]
  | sub ?b ?i ?j =>
    let s := fresh "s" in let Hs := fresh "Hs" in
    destruct (sub_not_fault b i j) as (s & -> & Hs); [len_norm; lia | len_norm; lia|]; cbn [bind]
  | from ?b ?i =>
    let s := fresh "s" in let Hs := fresh "Hs" in
    destruct (from_not_fault b i) as (s & -> & Hs); [len_norm; lia|]; cbn [bind]
  | upto ?b ?i =>
    let s := fresh "s" in let Hs := fresh "Hs" in
    destruct (upto_not_fault b i) as (s & -> & Hs); [len_norm; lia|]; cbn [bind]
  end.
(* the accessor in head position of the computation *)
Ltac acc_step :=
  match goal with
  | |- safe (bind ?t _) => acc_on t
  | |- safe ?t => acc_on t
  end.
Ltac if_step :=
  match goal with
  | |- safe (if ?c then _ else _) => let E := fresh "E" in destruct c eqn:E; try solve [auto with safe]
  | |- safe (bind (if ?c then _ else _) _) => let E := fresh "E" in destruct c eqn:E; cbn [bind]; try solve [auto with safe]
  end.
Ltac sym_exec := repeat first [acc_step | if_step]; auto with safe.

(* ---------- fixed-header payloads ---------- *)
Lemma ke_safe b : safe (ke_unmarshal b).
Proof. unfold ke_unmarshal. sym_exec. Qed.
Lemma t3_safe b : safe (t3_unmarshal b).
Proof. unfold t3_unmarshal. sym_exec. Qed.
Lemma t0_safe b : safe (t0_unmarshal b).
Proof. unfold t0_unmarshal. sym_exec. Qed.
Lemma notify_safe b : safe (notify_unmarshal b).
Proof. unfold notify_unmarshal. sym_exec. Qed.

(* ---------- Delete ---------- *)
Lemma words32_safe fuel : forall b, (length b < fuel)%nat -> (length b mod 4 = 0)%nat -> safe (words32 fuel b).
Proof.
  induction fuel as [|f IH]; intros b Hf Hm; [lia|].
  cbn [words32]. if_step.
  assert (4 <= length b)%nat by (pose proof (Nat.div_mod (length b) 4); lia).
  acc_step. acc_step. apply safe_bind; [|intros; apply safe_ok].
  apply IH; [lia|]. rewrite Hs. replace (length b) with ((length b - 4) + 1 * 4)%nat in Hm by lia.
  rewrite Nat.mod_add in Hm by lia. exact Hm.
Qed.

Lemma delete_safe b : safe (delete_unmarshal b).
Proof.
  unfold delete_unmarshal. if_step. if_step. acc_step. acc_step. if_step. acc_step. acc_step. if_step.
  apply safe_bind; [|intros; apply safe_ok].
  apply words32_safe; [lia|]. apply negb_false_iff in E2. now apply Nat.eqb_eq in E2.
Qed.

(* ---------- traffic selectors ---------- *)
Lemma selectors_safe n : forall b, safe (dec_selectors n b).
Proof.
  induction n as [|n IH]; intros b; [apply safe_ok|].
  cbn [dec_selectors]. if_step. acc_step. if_step. acc_step. if_step. if_step.
  destruct (x =? 7) eqn:X7; repeat acc_step; (apply safe_bind; [apply IH|intros; apply safe_ok]).
Qed.

Lemma ts_safe b : safe (ts_unmarshal b).
Proof. unfold ts_unmarshal. if_step. if_step. acc_step. acc_step. apply selectors_safe. Qed.

(* ---------- configuration ---------- *)
Lemma cpattrs_safe fuel : forall b, (length b < fuel)%nat -> safe (dec_cpattrs fuel b).
Proof.
  induction fuel as [|f IH]; intros b Hf; [lia|].
  cbn [dec_cpattrs]. if_step. if_step. acc_step. if_step. acc_step. acc_step. acc_step. acc_step.
  apply safe_bind; [apply IH; lia|intros; apply safe_ok].
Qed.

Lemma cp_safe b : safe (cp_unmarshal b).
Proof.
  unfold cp_unmarshal. if_step. if_step. acc_step. acc_step.
  apply safe_bind; [apply cpattrs_safe; lia|intros; apply safe_ok].
Qed.

(* ---------- Security Association ---------- *)
Lemma dec_transform_safe td tl : (8 <= length td)%nat -> (nat_of tl <= length td)%nat -> tl < 65536 -> safe (dec_transform td tl).
Proof.
  intros H8 Hl Ht. unfold dec_transform. acc_step. acc_step. if_step. if_step.
  assert (12 <= length td)%nat by (lia).
  acc_step. acc_step. if_step.
  - acc_step. if_step. apply negb_false_iff in E2. apply N.eqb_eq in E2.
    acc_step. apply safe_ok.
  - acc_step. apply safe_ok.
Qed.

Lemma transforms_safe fuel : forall td, (length td < fuel)%nat -> safe (dec_transforms fuel td).
Proof.
  induction fuel as [|f IH]; intros td Hf; [lia|].
  cbn [dec_transforms]. if_step. if_step. acc_step. if_step. if_step.
  apply safe_bind; [apply dec_transform_safe; lia|]. intros t _.
  acc_step. apply safe_bind; [|intros; apply safe_ok].
  apply IH. lia.
Qed.

Lemma proposals_safe fuel : forall b, (length b < fuel)%nat -> safe (dec_proposals fuel b).
Proof.
  induction fuel as [|f IH]; intros b Hf; [lia|].
  cbn [dec_proposals]. if_step. if_step. acc_step. if_step. if_step. acc_step. acc_step. acc_step.
  apply safe_bind.
  - if_step. if_step. acc_step. apply safe_ok.
  - intros spi _. if_step. acc_step.
    apply safe_bind; [apply transforms_safe; lia|]. intros ts _.
    acc_step. apply safe_bind; [apply IH; lia|intros; apply safe_ok].
Qed.

Lemma sa_safe b : safe (sa_unmarshal b).
Proof. unfold sa_unmarshal. apply proposals_safe. lia. Qed.

(* ---------- EAP ---------- *)
Lemma simple_safe ty b : safe (simple_unmarshal ty b).
Proof. unfold simple_unmarshal. if_step. acc_step. if_step. acc_step. apply safe_ok. Qed.

Lemma expanded_safe b : safe (expanded_unmarshal b).
Proof. unfold expanded_unmarshal. if_step. if_step. acc_step. acc_step. acc_step. apply safe_ok. Qed.

Lemma take_safe {A} n b (f : bytes * bytes -> res A) :
  (forall v r, length r = (length b - n)%nat -> safe (f (v, r))) -> safe (bind (take n b) f).
Proof.
  intros H. unfold take. destruct (length b <? n)%nat eqn:E; cbn [bind]; [apply safe_err|].
  apply H. rewrite skipn_length. reflexivity.
Qed.

Lemma aka_dec_attr_safe t l b : safe (aka_dec_attr t l b).
Proof.
  unfold aka_dec_attr.
  repeat first [ if_step | apply take_safe; intros ].
  all: auto with safe.
Qed.

Lemma aka_dec_attr_len t l b a r : aka_dec_attr t l b = Ok (a, r) -> (length r <= length b)%nat.
Proof.
  unfold aka_dec_attr, take.
  repeat match goal with
  | |- context[if ?c then _ else _] => destruct c eqn:?; cbn [bind]; try discriminate
  end; intros Hq; injection Hq as <- <-; rewrite ?skipn_length; lia.
Qed.

Lemma aka_attrs_safe fuel : forall b acc, (length b < fuel)%nat -> safe (aka_dec_attrs fuel b acc).
Proof.
  induction fuel as [|f IH]; intros b acc Hf; [lia|].
  cbn [aka_dec_attrs]. destruct b as [|t [|l rest]]; try apply safe_ok.
  apply safe_bind; [apply aka_dec_attr_safe|]. intros [a r] Hr.
  apply IH. apply aka_dec_attr_len in Hr. cbn [length] in Hf. lia.
Qed.

Lemma aka_safe b : safe (aka_unmarshal b).
Proof.
  unfold aka_unmarshal. if_step. acc_step. if_step. acc_step. acc_step. acc_step.
  apply safe_bind; [apply aka_attrs_safe; lia|intros; apply safe_ok].
Qed.

Lemma eap_safe b : safe (eap_unmarshal b).
Proof.
  unfold eap_unmarshal. if_step. if_step. acc_step. if_step. if_step.
  assert (length b = nat_of x) by (apply negb_false_iff in E2; apply N.eqb_eq in E2; unfold len in *; lia).
  acc_step. acc_step. if_step.
  assert (4 < length b)%nat by (lia).
  acc_step. acc_step.
  apply safe_bind; [|intros; apply safe_ok].
  repeat if_step; try apply safe_map; auto using simple_safe, aka_safe, expanded_safe with safe.
Qed.

(* ---------- dispatch, chain, header, message ---------- *)
Lemma payload_unmarshal_safe ty nxt body : safe (payload_unmarshal ty nxt body).
Proof.
  unfold payload_unmarshal.
  repeat if_step; try apply safe_map;
    auto using sa_safe, ke_safe, notify_safe, delete_safe, ts_safe, cp_safe, eap_safe with safe.
  all: try (apply safe_bind; [apply t3_safe || apply t0_safe | intros [t d] _; apply safe_ok]).
Qed.

Lemma container_safe fuel : forall nxt b, (length b < fuel)%nat -> safe (container_decode fuel nxt b).
Proof.
  induction fuel as [|f IH]; intros nxt b Hf; [lia|].
  cbn [container_decode]. if_step. if_step. acc_step. if_step. if_step. acc_step. acc_step.
  if_step.
  - acc_step. apply safe_bind; [apply payload_unmarshal_safe|]. intros p _.
    if_step. acc_step. apply safe_bind; [apply IH; lia|intros; apply safe_ok].
  - if_step. acc_step. apply IH. lia.
Qed.

Lemma decode_payloads_safe nxt b : safe (decode_payloads nxt b).
Proof. unfold decode_payloads. apply container_safe. lia. Qed.

Lemma parse_header_safe b : safe (parse_header b).
Proof. unfold parse_header. sym_exec. Qed.

Lemma parse_header_rest b h pb : parse_header b = Ok (h, pb) -> pb = skipn 28 b /\ (28 <= length b)%nat.
Proof.
  unfold parse_header. destruct (length b <? 28)%nat eqn:E; [discriminate|].
  destruct (u32at_ok b 24) as (t & -> & _); [lia|]. cbn [bind].
  destruct (t <? 28); [discriminate|].
  destruct (u64at_ok b 0) as (a & -> & _); [lia|]. destruct (u64at_ok b 8) as (c & -> & _); [lia|].
  destruct (idx_ok b 16) as (x16 & -> & _); [lia|]. destruct (idx_ok b 17) as (x17 & -> & _); [lia|].
  destruct (idx_ok b 18) as (x18 & -> & _); [lia|]. destruct (idx_ok b 19) as (x19 & -> & _); [lia|].
  destruct (u32at_ok b 20) as (m & -> & _); [lia|]. cbn [bind]. rewrite from_ok by lia. cbn [bind].
  intros Hq. injection Hq as <- <-. split; [reflexivity|lia].
Qed.

Theorem decode_safe b : safe (decode b).
Proof.
  unfold decode. apply safe_bind; [apply parse_header_safe|]. intros [h pb] _.
  apply safe_bind; [apply decode_payloads_safe|intros; apply safe_ok].
Qed.
