(* C04 / C02(d): unprotection (Impl.Ike.decode_decrypt) of ANY byte string, with any key set, role and header option,
   is a value or an error - never a crash. *)
From IKE Require Import Lib.Base Lib.BaseLemmas Thm.Tactics Prim.Hmac Prim.Cbc Impl.Msg Impl.Eap Impl.Payloads Impl.Message
     Impl.Security Impl.Ike Thm.NoFault Thm.PrfPlusObj Thm.CbcThm.
Local Open Scope N_scope.

Definition sk_bounded (n : nat) (p : payload) : Prop :=
  match p with PSK _ d => (length d <= n)%nat | _ => True end.

(* peel a monadic computation until its Ok value is visible *)
Ltac peel_ok :=
  repeat match goal with
  | |- Ok _ = Ok _ -> _ => let H := fresh in intros H; injection H as <-
  | |- Err = Ok _ -> _ => discriminate
  | |- Fault = Ok _ -> _ => discriminate
  | |- OutOfFuel = Ok _ -> _ => discriminate
  | |- (if ?c then _ else _) = Ok _ -> _ => destruct c
  | |- bind ?r _ = Ok _ -> _ => destruct r as [?| | |]; cbn [bind]
  | |- res_map _ ?r = Ok _ -> _ => unfold res_map
  | |- (let '(_, _) := ?x in _) = Ok _ -> _ => destruct x
  | |- match ?x with (_, _) => _ end = Ok _ -> _ => destruct x
  end.

Lemma payload_unmarshal_sk ty nxt body p : payload_unmarshal ty nxt body = Ok p -> sk_bounded (length body) p.
Proof.
  unfold payload_unmarshal, ke_unmarshal, notify_unmarshal, delete_unmarshal, cp_unmarshal.
  peel_ok; cbn; auto; lia.
Qed.

Lemma container_sk fuel : forall nxt b ps, container_decode fuel nxt b = Ok ps -> Forall (sk_bounded (length b)) ps.
Proof.
  induction fuel as [|f IH]; intros nxt b ps; [discriminate|].
  cbn [container_decode].
  destruct (length b =? 0)%nat; [intros [= <-]; constructor|].
  destruct (length b <? 4)%nat; [discriminate|].
  destruct (u16at b 2) as [pl| | |]; cbn [bind]; try discriminate.
  destruct (pl <? 4); [discriminate|]. destruct (length b <? N.to_nat pl)%nat eqn:El; [discriminate|].
  destruct (idx b 1) as [b1| | |]; cbn [bind]; try discriminate.
  destruct (idx b 0) as [b0| | |]; cbn [bind]; try discriminate.
  assert (Mono : forall n m ps, (n <= m)%nat -> Forall (sk_bounded n) ps -> Forall (sk_bounded m) ps).
  { intros n m l Hnm Hl. eapply Forall_impl; [|exact Hl]. intros [] ; cbn; auto. intros; lia. }
  destruct (supported nxt).
  - destruct (sub b 4 (N.to_nat pl)) as [body| | |] eqn:Sb; cbn [bind]; try discriminate.
    destruct (payload_unmarshal nxt b0 body) as [p| | |] eqn:Pu; cbn [bind]; try discriminate.
    destruct ((nxt =? 46) && (N.to_nat pl <? length b)%nat); [discriminate|].
    destruct (from b (N.to_nat pl)) as [rest| | |] eqn:Fr; cbn [bind]; try discriminate.
    destruct (container_decode f b0 rest) as [ps'| | |] eqn:Cd; cbn [bind]; try discriminate.
    intros [= <-]. constructor.
    + apply payload_unmarshal_sk in Pu.
      destruct (sub_cases b 4 (N.to_nat pl)) as [F|(s & Hs & Ls & _)]; [congruence|]. rewrite Sb in Hs. injection Hs as <-.
      destruct p; cbn in *; auto. lia.
    + apply IH in Cd. unfold from in Fr. destruct (N.to_nat pl <=? length b)%nat; [|discriminate]. injection Fr as <-.
      eapply Mono; [|exact Cd]. rewrite skipn_length. lia.
  - destruct (b1 / 128 =? 0); [|discriminate].
    destruct (from b (N.to_nat pl)) as [rest| | |] eqn:Fr; cbn [bind]; try discriminate.
    intros Cd. apply IH in Cd. unfold from in Fr. destruct (N.to_nat pl <=? length b)%nat; [|discriminate]. injection Fr as <-.
    eapply Mono; [|exact Cd]. rewrite skipn_length. lia.
Qed.

Lemma last_sk_shape l : forall acc,
  (match acc with Some (_, d) => True | None => True end) ->
  last_sk l acc = Err \/ (exists nx d, last_sk l acc = Ok (Some (nx, d)) /\ (In (PSK nx d) l \/ acc = Some (nx, d))) \/ (l = [] /\ acc = None /\ last_sk l acc = Ok None).
Proof.
  induction l as [|p l IH]; intros acc _.
  - destruct acc as [[nx d]|]; cbn; [right; left; eauto|right; right; auto].
  - destruct p; cbn [last_sk]; try (now left).
    destruct (IH (Some (next, d)) I) as [E|[(nx & dd & E & Hin)|(El & Ea & _)]]; [now left| |discriminate].
    right; left. exists nx, dd. split; [exact E|]. left. destruct Hin as [Hin|Heq]; [now right|injection Heq as <- <-; now left].
Qed.

Section SK.
  Variable digest : halg -> bytes -> bytes.
  Variable aes_enc aes_dec : bytes -> bytes -> bytes.
  Hypothesis digest_len : forall a x, length (digest a x) = hlen a.
  Hypothesis blk : block_hyps aes_enc aes_dec.

  Lemma integ_out_le i : (integ_outlen i <= hlen (integ_hash i))%nat.
  Proof. destruct i; cbn; lia. Qed.

  (* the SA's integrity objects hash with the SA's integrity algorithm (as GenerateKeyForIKESA builds them) *)
  Definition sa_wf (sa : ikesa) : Prop :=
    h_alg (sa_integ_i sa) = integ_hash (sa_integ sa) /\ h_alg (sa_integ_r sa) = integ_hash (sa_integ sa).

  Lemma calc_integrity_ok sa role data :
    sa_wf sa -> exists cs, fst (calculate_integrity digest sa role data) = Ok cs /\ length cs = integ_outlen (sa_integ sa)
                           /\ sa_wf (snd (calculate_integrity digest sa role data)).
  Proof.
    intros [Wi Wr]. unfold calculate_integrity. cbn [fst snd].
    set (o := if role then sa_integ_i sa else sa_integ_r sa).
    assert (Ha : h_alg o = integ_hash (sa_integ sa)) by (unfold o; destruct role; assumption).
    unfold ho_sum, ho_write, ho_reset. cbn [h_alg h_key h_buf app].
    pose proof (integ_out_le (sa_integ sa)).
    rewrite upto_ok by (rewrite hm_len by assumption; rewrite Ha; lia).
    eexists. split; [reflexivity|]. split.
    - rewrite firstn_length, hm_len by assumption. rewrite Ha. lia.
    - destruct role; split; cbn; assumption.
  Qed.

  Lemma decrypt_msg_safe raw m k role :
    sa_wf k -> first_is_sk (m_payloads m) = true -> Forall (sk_bounded (length raw)) (m_payloads m) ->
    safe (fst (fst (decrypt_msg digest aes_dec raw m k role))).
  Proof.
    intros Hwf Fs Bd. unfold decrypt_msg.
    destruct (last_sk_shape (m_payloads m) None I) as [E|[(nx & ed & E & Hin)|(El & _ & _)]].
    - rewrite E. cbn [fst]. apply safe_err.
    - rewrite E. destruct Hin as [Hin|Hq]; [|discriminate].
      assert (Hed : (length ed <= length raw)%nat).
      { rewrite Forall_forall in Bd. apply (Bd _ Hin). }
      set (icv := integ_outlen (sa_integ k)).
      destruct (length ed <? icv)%nat eqn:E1; [cbn [fst]; apply safe_err|].
      rewrite from_ok by lia.
      destruct (length raw <? icv)%nat eqn:E2; [lia|]. rewrite upto_ok by lia.
      destruct (calc_integrity_ok k (negb role) (firstn (length raw - icv) raw) Hwf) as (cs & Hc & Lc & _).
      destruct (calculate_integrity digest k (negb role) (firstn (length raw - icv) raw)) as [rc k'] eqn:Ci.
      cbn [fst] in Hc. subst rc.
      cbv iota beta.
      match goal with |- context[if negb ?c then _ else _] => destruct c eqn:Cmp end; cbn [negb]; [|cbn [fst]; apply safe_err].
      rewrite upto_ok by lia.
      destruct (aes_decrypt_no_fault aes_enc aes_dec blk (if role then sa_encr_r k else sa_encr_i k) (firstn (length ed - icv) ed)) as [Nf Nu].
      destruct (aes_decrypt aes_dec _ _) as [plain| | |]; cbn [fst]; try (split; congruence); try apply safe_err.
      pose proof (decode_payloads_safe nx plain) as [D1 D2].
      destruct (decode_payloads nx plain); cbn [fst]; try (split; congruence); auto with safe.
    - rewrite El in Fs. discriminate.
  Qed.

  Theorem decode_decrypt_safe raw hdr sa role :
    (forall k, sa = Some k -> sa_wf k) ->
    safe (fst (fst (decode_decrypt digest aes_dec raw hdr sa role))).
  Proof.
    intros Hwf. unfold decode_decrypt.
    set (parsed := match hdr with None => decode raw | Some h => _ end).
    assert (Sp : safe parsed).
    { unfold parsed. destruct hdr as [h|]; [|apply decode_safe].
      if_step. acc_step. apply safe_bind; [apply decode_payloads_safe|intros; apply safe_ok]. }
    assert (Bd : forall m, parsed = Ok m -> Forall (sk_bounded (length raw)) (m_payloads m)).
    { intros m Hm. unfold parsed in Hm. destruct hdr as [h|].
      - destruct (length raw <? 28)%nat eqn:E; [discriminate|].
        rewrite from_ok in Hm by lia. cbn [bind] in Hm.
        destruct (decode_payloads (h_next h) (skipn 28 raw)) as [ps| | |] eqn:Dp; cbn [bind] in Hm; try discriminate.
        injection Hm as <-. cbn [m_payloads]. apply container_sk in Dp.
        eapply Forall_impl; [|exact Dp]. intros []; cbn; auto. rewrite skipn_length. lia.
      - unfold decode in Hm. destruct (parse_header raw) as [[h pb]| | |] eqn:Ph; cbn [bind] in Hm; try discriminate.
        destruct (decode_payloads (h_next h) pb) as [ps| | |] eqn:Dp; cbn [bind] in Hm; try discriminate.
        injection Hm as <-. cbn [m_payloads]. apply parse_header_rest in Ph. destruct Ph as [-> _].
        apply container_sk in Dp. eapply Forall_impl; [|exact Dp]. intros []; cbn; auto. rewrite skipn_length. lia. }
    destruct parsed as [m| | |] eqn:Pm; cbn [fst]; try (destruct Sp; split; congruence); try apply safe_err.
    specialize (Bd m eq_refl).
    destruct (length (m_payloads m) =? 0)%nat; [destruct (h_next (m_hdr m) =? 46); cbn; auto with safe|].
    destruct (first_is_sk (m_payloads m)) eqn:Fs; [|cbn; apply safe_ok].
    destruct sa as [k|]; [|cbn; apply safe_err].
    pose proof (decrypt_msg_safe raw m k role (Hwf k eq_refl) Fs Bd) as Sd.
    destruct (decrypt_msg digest aes_dec raw m k role) as [[r k'] calls]. exact Sd.
  Qed.
End SK.
