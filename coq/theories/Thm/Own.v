(* C20: ownership.  A heap of byte arrays; a slice is a window (array, offset, length) into one of them.  A decoded
   message is a collection of slices; if none of them lives in the input buffer's array (every field was produced by a
   copy: gen/SrcAgree.v establishes that from the source for every Unmarshal / Decode / ParseHeader, the documented
   exception IKEHeader.PayloadBytes aside) then no sequence of writes to the input buffer changes what the message
   reads - and symmetrically for the buffer returned by Encode with respect to the message. *)
From Coq Require Import List Arith Bool Lia.
From Coq Require Import Init.Byte.
Import ListNotations.

Definition arr := nat.
Definition heap := arr -> list byte.
Record slice := mkSlice { s_arr : arr; s_off : nat; s_len : nat }.

Definition read (h : heap) (s : slice) : list byte := firstn (s_len s) (skipn (s_off s) (h (s_arr s))).

(* one store  a[i] = v  (out of range: no effect, the Go program would have panicked) *)
Fixpoint set_nth (l : list byte) (i : nat) (v : byte) : list byte :=
  match l, i with
  | [], _ => []
  | _ :: r, O => v :: r
  | x :: r, S k => x :: set_nth r k v
  end.
Definition store (h : heap) (a : arr) (i : nat) (v : byte) : heap :=
  fun a' => if Nat.eqb a' a then set_nth (h a') i v else h a'.

(* any history of writes into array a: overwriting, reusing the receive buffer, ... *)
Definition writes := list (nat * byte).
Definition scribble (a : arr) (ws : writes) (h : heap) : heap :=
  fold_left (fun h w => store h a (fst w) (snd w)) ws h.

Definition fresh_wrt (a : arr) (s : slice) : Prop := s_arr s <> a.

Lemma store_other h a i v s : fresh_wrt a s -> read (store h a i v) s = read h s.
Proof. unfold fresh_wrt, read, store. intros H. destruct (Nat.eqb (s_arr s) a) eqn:E; [apply Nat.eqb_eq in E; contradiction|reflexivity]. Qed.

Theorem fresh_slices_survive_any_writes a ws : forall h fields,
  Forall (fresh_wrt a) fields -> map (read (scribble a ws h)) fields = map (read h) fields.
Proof.
  induction ws as [|[i v] ws IH]; intros h fields Hf; [reflexivity|].
  unfold scribble in *. cbn [fold_left fst snd]. rewrite IH by assumption.
  apply map_ext_in. intros s Hs. apply store_other. rewrite Forall_forall in Hf. now apply Hf.
Qed.

(* a view, by contrast, is changed by a suitable write: the documented exception behaves differently *)
Theorem a_view_does_not_survive :
  exists h a s ws, ~ fresh_wrt a s /\ read (scribble a ws h) s <> read h s.
Proof.
  exists (fun _ => [x00; x00]), 0, (mkSlice 0 1 1), [(1, xff)]. split; [intros H; now apply H|]. vm_compute. discriminate.
Qed.
