From IKE Require Import Lib.Base Lib.BaseLemmas Spec.PrfPlus.

Section L.
  Variable prf : bytes -> bytes -> bytes.

  Lemma blocks_T K Sd n i :
    blocks prf K Sd n (S i) (T prf K Sd i) = map (T prf K Sd) (seq (S i) n).
  Proof.
    revert i. induction n as [|n IH]; intros i; [reflexivity|].
    cbn [blocks seq map]. f_equal. change (prf K (T prf K Sd i ++ Sd ++ [n2b (N.of_nat (S i))])) with (T prf K Sd (S i)).
    apply IH.
  Qed.

  (* the stream is T1 | ... | Tn with T as the RFC defines it *)
  Lemma stream_T K Sd n : stream prf K Sd n = concat (map (T prf K Sd) (seq 1 n)).
  Proof. unfold stream. now rewrite <- (blocks_T K Sd n 0). Qed.

  Lemma stream_S K Sd n : stream prf K Sd (S n) = stream prf K Sd n ++ T prf K Sd (S n).
  Proof.
    rewrite !stream_T, seq_S, map_app, concat_app. cbn [map concat Nat.add]. now rewrite app_nil_r.
  Qed.

  Lemma stream_len K Sd n h : (forall k d, length (prf k d) = h) -> length (stream prf K Sd n) = (h * n)%nat.
  Proof.
    intros H. induction n as [|n IH]; [cbn; lia|].
    rewrite stream_S, app_length, IH. cbn [T]. rewrite H. lia.
  Qed.
End L.
