(* lib.PrfPlus on a shared stateful hash object (Impl.Security.prf_plus_obj) computes prf+ of RFC 7296 2.13
   (Spec.PrfPlus), whatever the object's buffer held before, and leaves the object's key unchanged. *)
From IKE Require Import Lib.Base Lib.BaseLemmas Prim.Hmac Spec.PrfPlus Thm.PrfPlusLemmas Impl.Security.

Section P.
  Variable digest : halg -> bytes -> bytes.
  Hypothesis digest_len : forall a x, length (digest a x) = hlen a.

  Lemma hm_len a k m : length (hm digest a k m) = hlen a.
  Proof. unfold hm, hmac. apply digest_len. Qed.

  Lemma hlen_pos a : (0 < hlen a)%nat.
  Proof. destruct a; cbn; lia. Qed.

  Definition st (a : halg) (K s : bytes) (k : nat) : bytes := stream (hm digest a) K s k.

  Lemma st_len a K s k : length (st a K s k) = (hlen a * k)%nat.
  Proof. unfold st. apply stream_len. intros; apply hm_len. Qed.

  Lemma T_len a K s k : length (T (hm digest a) K s (S k)) = hlen a.
  Proof. cbn [T]. apply hm_len. Qed.

  (* the object after any number of rounds: same algorithm and key *)
  Definition same_key (o o' : hobj) : Prop := h_alg o' = h_alg o /\ h_key o' = h_key o.

  Lemma loop_correct fuel : forall o s slen k,
    (slen <= fuel + k)%nat ->
    exists n o',
      prf_plus_loop digest fuel o s slen (S k) (st (h_alg o) (h_key o) s k) (T (hm digest (h_alg o)) (h_key o) s k)
        = (Ok (firstn slen (st (h_alg o) (h_key o) s n)), o')
      /\ same_key o o' /\ (slen <= hlen (h_alg o) * n)%nat /\ (k <= n)%nat.
  Proof.
    induction fuel as [|f IH]; intros o s slen k Hf.
    - (* no fuel: then slen <= k <= h*k, the loop test succeeds *)
      cbn [prf_plus_loop]. rewrite st_len.
      pose proof (hlen_pos (h_alg o)).
      destruct (slen <=? hlen (h_alg o) * k)%nat eqn:E; [|nia].
      exists k, o. rewrite upto_ok by (rewrite st_len; lia). repeat split; auto; lia.
    - cbn [prf_plus_loop]. rewrite st_len.
      destruct (slen <=? hlen (h_alg o) * k)%nat eqn:E.
      + exists k, o. rewrite upto_ok by (rewrite st_len; lia). repeat split; auto; lia.
      + set (o1 := ho_write (ho_reset o) _).
        assert (K1 : h_alg o1 = h_alg o /\ h_key o1 = h_key o) by (split; reflexivity).
        destruct K1 as [Ka Kk].
        assert (S1 : ho_sum digest o1 (st (h_alg o) (h_key o) s k) = st (h_alg o) (h_key o) s (S k)).
        { unfold ho_sum, o1, ho_write, ho_reset. cbn [h_alg h_key h_buf app].
          unfold st. rewrite stream_S. cbn [T]. reflexivity. }
        rewrite S1.
        assert (B1 : skipn (length (st (h_alg o) (h_key o) s (S k)) - ho_size o1) (st (h_alg o) (h_key o) s (S k))
                     = T (hm digest (h_alg o)) (h_key o) s (S k)).
        { unfold st at 2. rewrite stream_S. fold (st (h_alg o) (h_key o) s k).
          apply skipn_app_len. rewrite !st_len. unfold ho_size. rewrite Ka. lia. }
        rewrite B1.
        destruct (IH o1 s slen (S k)) as (n & o' & R & [SA SK] & Hn & Hk); [lia|].
        rewrite ?Ka, ?Kk in R. rewrite ?Ka in Hn. exists n, o'. rewrite R.
        split; [reflexivity|]. split; [split; [now rewrite SA | now rewrite SK]|]. split; lia.
  Qed.

  (* streams are prefixes of longer streams *)
  Lemma st_prefix a K s k n : (k <= n)%nat -> exists r, st a K s n = st a K s k ++ r.
  Proof.
    induction 1 as [|n H [r IH]]; [exists []; now rewrite app_nil_r|].
    unfold st in *. rewrite stream_S, IH. eexists. now rewrite <- app_assoc.
  Qed.

  Lemma firstn_st a K s L k n :
    (L <= hlen a * k)%nat -> (k <= n)%nat -> firstn L (st a K s n) = firstn L (st a K s k).
  Proof.
    intros HL Hk. destruct (st_prefix a K s k n Hk) as [r ->].
    rewrite firstn_app. replace (L - length (st a K s k))%nat with 0%nat by (rewrite st_len; lia).
    cbn. apply app_nil_r.
  Qed.

  (* main statement: for every block count n that covers slen octets *)
  Theorem prf_plus_obj_correct o s slen n :
    (slen <= hlen (h_alg o) * n)%nat ->
    exists o', prf_plus_obj digest o s slen
               = (Ok (prf_plus (hm digest (h_alg o)) (h_key o) s n slen), o') /\ same_key o o'.
  Proof.
    intros Hn. unfold prf_plus_obj.
    destruct (loop_correct slen o s slen 0) as (m & o' & R & SKK & Hm & _); [lia|].
    change (st (h_alg o) (h_key o) s 0) with (@nil byte) in R.
    change (T (hm digest (h_alg o)) (h_key o) s 0) with (@nil byte) in R.
    exists o'. split; [|exact SKK]. rewrite R. f_equal. f_equal. unfold prf_plus. fold (st (h_alg o) (h_key o) s n).
    destruct (Nat.le_ge_cases m n) as [H|H].
    - symmetry. now apply firstn_st.
    - now apply firstn_st.
  Qed.

  (* the buffer content of the object is irrelevant: two objects with the same key give the same stream *)
  Corollary prf_plus_obj_state_independent o1 o2 s slen :
    h_alg o1 = h_alg o2 -> h_key o1 = h_key o2 ->
    fst (prf_plus_obj digest o1 s slen) = fst (prf_plus_obj digest o2 s slen).
  Proof.
    intros Ha Hk.
    destruct (prf_plus_obj_correct o1 s slen slen) as (o1' & R1 & _); [pose proof (hlen_pos (h_alg o1)); nia|].
    destruct (prf_plus_obj_correct o2 s slen slen) as (o2' & R2 & _); [pose proof (hlen_pos (h_alg o2)); nia|].
    rewrite R1, R2. cbn. now rewrite Ha, Hk.
  Qed.
End P.
