(* Decoding what the RFC-written encoder of Spec/Wire.v emits, for every setting of the sender's liberties:
   per-structure lemmas  impl_decoder (wenc_structure x) = Ok (erase x). *)
From IKE Require Import Lib.Base Lib.BaseLemmas Thm.Tactics Thm.ConsLemmas Impl.Msg Impl.Eap Impl.Payloads Impl.Message Spec.Wire.
Local Open Scope N_scope.

(* normal form of an encoding: explicit conses for the fixed part *)
Ltac consify := cbn [app be16 be32 be64 wenc_body wenc_attr concat map].

Lemma notify_rt proto nt spi d :
  proto < 256 -> nt < 65536 -> len spi <= 255 ->
  notify_unmarshal (wenc_body (WNotify proto nt spi d)) = Ok (PNotify proto nt spi d).
Proof.
  intros Hp Hn Hs. unfold notify_unmarshal. consify. cbn [length].
  decide_cmp. step. len_norm. decide_cmp.
  step. rewrite sub_0_app by reflexivity. cbn [bind].
  rewrite from_app by reflexivity. reflexivity.
Qed.

Lemma ke_rt g res d :
  g < 65536 -> length res = 2%nat -> d <> [] ->
  ke_unmarshal (wenc_body (WKE g res d)) = Ok (PKE g d).
Proof.
  intros Hg Hr Hd. destruct res as [|r0 [|r1 [|? ?]]]; try discriminate. destruct d as [|d0 d]; [congruence|].
  unfold ke_unmarshal. consify. cbn [length]. decide_cmp. step. reflexivity.
Qed.

Lemma t3_rt t res d :
  t < 256 -> length res = 3%nat -> d <> [] ->
  t3_unmarshal ([n2b t] ++ res ++ d) = Ok (t, d).
Proof.
  intros Ht Hr Hd. destruct res as [|r0 [|r1 [|r2 [|? ?]]]]; try discriminate. destruct d as [|d0 d]; [congruence|].
  unfold t3_unmarshal. consify. cbn [length]. decide_cmp. step. reflexivity.
Qed.

Lemma t0_rt t d :
  t < 256 -> d <> [] -> t0_unmarshal ([n2b t] ++ d) = Ok (t, d).
Proof.
  intros Ht Hd. destruct d as [|d0 d]; [congruence|].
  unfold t0_unmarshal. consify. cbn [length]. decide_cmp. step. reflexivity.
Qed.

(* ---- Delete: SPI size 4 (or no SPIs) ---- *)
Lemma words32_rt (spis : list bytes) : forall fuel,
  Forall (fun s => length s = 4%nat) spis -> (length (concat spis) < fuel)%nat ->
  words32 fuel (concat spis) = Ok (map be_val spis).
Proof.
  induction spis as [|s spis IH]; intros fuel Hs Hf.
  - destruct fuel; [cbn in Hf; lia|]. reflexivity.
  - inversion Hs as [|? ? H4 Hs']; subst. destruct s as [|a [|b [|c [|d [|? ?]]]]]; try discriminate.
    destruct fuel as [|f]; [lia|]. cbn [concat app words32 length].
    decide_cmp. step. rewrite IH; [reflexivity|assumption|cbn [concat app length] in Hf; lia].
Qed.

Lemma delete_rt proto sz spis :
  proto < 256 -> len spis < 65536 -> (spis = [] /\ sz < 256 \/ sz = 4) -> Forall (fun s => length s = N.to_nat sz) spis ->
  delete_unmarshal (wenc_body (WDelete proto sz spis)) = Ok (PDelete proto sz (len spis) (map be_val spis)).
Proof.
  intros Hp Hn Hsz Hs. unfold delete_unmarshal. consify. cbn [length].
  assert (L4 : Forall (fun s => length s = 4%nat) spis).
  { destruct Hsz as [[-> _]| ->]; [constructor|exact Hs]. }
  assert (LC : length (concat spis) = (4 * length spis)%nat).
  { clear - L4. induction L4 as [|s l H _ IH]; [reflexivity|]. cbn [concat length]. rewrite app_length, IH, H. lia. }
  assert (Hz : sz < 256) by (destruct Hsz as [[_ H]| ->]; lia).
  decide_cmp. step.
  assert (Hlen : (len (n2b proto :: n2b sz :: n2b (len spis / 256) :: n2b (len spis) :: concat spis) <? 4 + sz * len spis) = false).
  { apply N.ltb_ge. unfold len. cbn [length]. rewrite LC.
    destruct Hsz as [[-> _]| ->]; cbn [length]; lia. }
  rewrite Hlen. step. rewrite LC.
  replace ((4 * length spis) mod 4 =? 0)%nat with true by (symmetry; apply Nat.eqb_eq; rewrite Nat.mul_comm; apply Nat.mod_mul; lia).
  cbn [negb]. rewrite words32_rt; [reflexivity | exact L4 | lia].
Qed.

(* ---- traffic selectors ---- *)
Definition wf_selector (s : selector) : Prop :=
  ts_proto s < 256 /\ ts_sport s < 65536 /\ ts_eport s < 65536 /\
  ((ts_type s = 7 /\ length (ts_saddr s) = 4%nat /\ length (ts_eaddr s) = 4%nat) \/
   (ts_type s = 8 /\ length (ts_saddr s) = 16%nat /\ length (ts_eaddr s) = 16%nat)).

Lemma selectors_rt sels : forall rest,
  Forall wf_selector sels ->
  dec_selectors (length sels) (concat (map wenc_selector sels) ++ rest) = Ok sels.
Proof.
  induction sels as [|s sels IH]; intros rest Hw; [reflexivity|].
  inversion Hw as [|? ? Hs Hw']; subst. destruct Hs as (Hp & Hsp & Hep & Hty).
  cbn [length map concat dec_selectors]. rewrite <- app_assoc.
  specialize (IH rest Hw'). set (tl := concat (map wenc_selector sels) ++ rest) in *.
  destruct s as [ty proto sp ep sa ea]. cbn [ts_type ts_proto ts_sport ts_eport ts_saddr ts_eaddr] in *.
  unfold wenc_selector. cbn [ts_type ts_proto ts_sport ts_eport ts_saddr ts_eaddr].
  destruct Hty as [(-> & Ls & Le) | (-> & Ls & Le)].
  - destruct sa as [|a0 [|a1 [|a2 [|a3 [|? ?]]]]]; try discriminate.
    destruct ea as [|e0 [|e1 [|e2 [|e3 [|? ?]]]]]; try discriminate.
    change (8 + len [a0; a1; a2; a3] + len [e0; e1; e2; e3]) with 16.
    consify. cbn [length].
    decide_cmp. step. change (7 =? 7) with true. cbn [orb negb]. step.
    change (N.of_nat 16) with 16. decide_cmp. step.
    change (sub (a0 :: a1 :: a2 :: a3 :: e0 :: e1 :: e2 :: e3 :: tl) 0 4) with (Ok [a0; a1; a2; a3]). cbn [bind]. step.
    change (sub (e0 :: e1 :: e2 :: e3 :: tl) 0 4) with (Ok [e0; e1; e2; e3]). cbn [bind]. step.
    rewrite IH. reflexivity.
  - destruct sa as [|a0 [|a1 [|a2 [|a3 [|a4 [|a5 [|a6 [|a7 [|a8 [|a9 [|a10 [|a11 [|a12 [|a13 [|a14 [|a15 [|? ?]]]]]]]]]]]]]]]]]; try discriminate.
    destruct ea as [|e0 [|e1 [|e2 [|e3 [|e4 [|e5 [|e6 [|e7 [|e8 [|e9 [|e10 [|e11 [|e12 [|e13 [|e14 [|e15 [|? ?]]]]]]]]]]]]]]]]]; try discriminate.
    match goal with |- context[be16 ?n] => change n with 40 end.
    consify. cbn [length].
    decide_cmp. step. change (8 =? 7) with false. change (8 =? 8) with true. cbn [orb negb]. step.
    change (N.of_nat 40) with 40. decide_cmp. step.
    match goal with |- context[sub ?l 0 16] => change (sub l 0 16) with (Ok [a0; a1; a2; a3; a4; a5; a6; a7; a8; a9; a10; a11; a12; a13; a14; a15]) end.
    cbn [bind]. step.
    match goal with |- context[sub ?l 0 16] => change (sub l 0 16) with (Ok [e0; e1; e2; e3; e4; e5; e6; e7; e8; e9; e10; e11; e12; e13; e14; e15]) end.
    cbn [bind]. step.
    rewrite IH. reflexivity.
Qed.

(* ---- configuration attributes ---- *)
Definition wf_wcpattr (a : wcpattr) : Prop := wca_r a < 2 /\ wca_type a < 32768 /\ len (wca_value a) < 65536.

Lemma cpattrs_rt attrs : forall fuel,
  Forall wf_wcpattr attrs -> (length (concat (map wenc_cpattr attrs)) < fuel)%nat ->
  dec_cpattrs fuel (concat (map wenc_cpattr attrs)) = Ok (map (fun a => mkCpAttr (wca_type a) (wca_value a)) attrs).
Proof.
  induction attrs as [|a attrs IH]; intros fuel Hw Hf.
  - destruct fuel; [cbn in Hf; lia|]. reflexivity.
  - inversion Hw as [|? ? Ha Hw']; subst. destruct Ha as (Hr & Ht & Hl).
    destruct fuel as [|f]; [lia|]. cbn [map concat] in *.
    set (tl := concat (map wenc_cpattr attrs)) in *.
    destruct a as [r ty v]. cbn [wca_r wca_type wca_value] in *. unfold wenc_cpattr in *. cbn [wca_r wca_type wca_value] in *.
    rewrite <- ?app_assoc in *. consify. cbn [dec_cpattrs length]. len_norm.
    decide_cmp. step. len_norm. decide_cmp. step.
    rewrite upto_app by reflexivity. cbn [bind]. rewrite from_app by reflexivity. cbn [bind].
    rewrite IH; [|assumption|lia]. cbn [bind map]. do 2 f_equal. f_equal. 
    assert (r = 0 \/ r = 1) as [-> | ->] by lia; [rewrite N.mul_0_l, N.add_0_l; apply N.mod_small; lia|].
    replace (1 * 32768 + ty) with (ty + 1 * 32768) by lia. rewrite N.mod_add by lia. apply N.mod_small; lia.
Qed.

Lemma cp_rt ct res attrs :
  ct < 256 -> length res = 3%nat -> attrs <> [] -> Forall wf_wcpattr attrs ->
  cp_unmarshal (wenc_body (WCP ct res attrs)) = Ok (PCP ct (map (fun a => mkCpAttr (wca_type a) (wca_value a)) attrs)).
Proof.
  intros Hc Hr Hne Hw. destruct res as [|r0 [|r1 [|r2 [|? ?]]]]; try discriminate.
  unfold cp_unmarshal. consify. cbn [length].
  assert (0 < length (concat (map wenc_cpattr attrs)))%nat.
  { destruct attrs as [|a ?]; [congruence|]. cbn [map concat]. unfold wenc_cpattr. len_norm. lia. }
  decide_cmp. step. rewrite cpattrs_rt; [reflexivity|assumption|lia].
Qed.

(* ---- SA: attributes, transforms, proposals ---- *)
Definition wf_wattrs (l : list wattr) : Prop :=
  match l with
  | [] => True
  | [WTV t v] => t < 32768 /\ v < 65536
  | [WTLV t v] => t < 32768 /\ len v < 65524
  | _ => False            (* this library reads one attribute per transform *)
  end.
Definition wf_wtransform (t : wtransform) : Prop :=
  wt_res1 t < 256 /\ wt_type t < 256 /\ wt_res2 t < 256 /\ wt_id t < 65536 /\ wf_wattrs (wt_attrs t).

Definition attrs_len (t : wtransform) : N := len (concat (map wenc_attr (wt_attrs t))).

Lemma attrs_len_bound t : wf_wtransform t -> 8 + attrs_len t < 65536.
Proof.
  intros (_ & _ & _ & _ & Ha). unfold attrs_len. destruct (wt_attrs t) as [|[at' av|at' v] [|? ?]]; cbn in Ha; try tauto;
    cbn [map concat wenc_attr]; unfold len in *; len_norm; lia.
Qed.

Lemma dec_transform_rt more t rest :
  wf_wtransform t ->
  dec_transform (wenc_transform more t ++ rest) (8 + attrs_len t) = Ok (erase_transform t).
Proof.
  intros (H1 & Hty & H2 & Hid & Ha). unfold dec_transform, wenc_transform, erase_transform, attrs_len.
  destruct t as [r1 ty r2 id attrs]. cbn [wt_res1 wt_type wt_res2 wt_id wt_attrs] in *.
  destruct attrs as [|[at' av|at' v] [|? ?]]; cbn in Ha; try tauto.
  - cbn [map concat]. change (len []) with 0. consify. step. decide_cmp. reflexivity.
  - destruct Ha as [Hat Hav]. cbn [map concat wenc_attr]. rewrite app_nil_r.
    change (len (be16 (32768 + at') ++ be16 av)) with 4. consify. step. decide_cmp. step.
    assert (B8 : (32768 + at') / 256 / 128 = 1) by lia.
    assert (B8' : (32768 + at') / 256 < 256) by lia.
    rewrite ?B8. replace ((32768 + at') mod 32768) with at' by lia. reflexivity.
  - destruct Ha as [Hat Hv]. cbn [map concat wenc_attr]. rewrite app_nil_r.
    replace (len (be16 at' ++ be16 (len v) ++ v)) with (4 + len v) by (unfold len; len_norm; lia).
    consify. rewrite <- ?app_assoc. consify. step. decide_cmp. step.
    assert (B8 : at' / 256 / 128 = 0) by lia. rewrite B8.
    replace ((12 + len v) mod 65536) with (12 + len v) by lia.
    replace (N.to_nat (12 + len v)) with (12 + length v)%nat by (unfold len; lia).
    step. rewrite sub_0_app by reflexivity. cbn [bind].
    replace (at' mod 32768) with at' by lia. reflexivity.
Qed.

Lemma wenc_transform_length more t : length (wenc_transform more t) = N.to_nat (8 + attrs_len t).
Proof. unfold wenc_transform, attrs_len. len_norm. unfold len. lia. Qed.

Lemma wenc_list_nil {A} (f : bool -> A -> bytes) (l : list A) :
  (forall m x, (0 < length (f m x))%nat) -> wenc_list f l = [] -> l = [].
Proof. intros Hf. destruct l as [|x r]; [reflexivity|]. cbn [wenc_list]. intros H. apply app_eq_nil in H. destruct H as [H _].
  specialize (Hf (match r with [] => false | _ => true end) x). rewrite H in Hf. cbn in Hf. lia. Qed.

Lemma transforms_rt ts : forall fuel,
  Forall wf_wtransform ts -> (length (wenc_list wenc_transform ts) < fuel)%nat ->
  dec_transforms fuel (wenc_list wenc_transform ts) = Ok (map erase_transform ts).
Proof.
  induction ts as [|t ts IH]; intros fuel Hw Hf.
  - destruct fuel; [cbn in Hf; lia|]. reflexivity.
  - inversion Hw as [|? ? Ht Hw']; subst. destruct fuel as [|f]; [lia|].
    cbn [wenc_list map] in *. set (more := match ts with [] => false | _ => true end) in *.
    set (tl := wenc_list wenc_transform ts) in *.
    pose proof (attrs_len_bound t Ht) as Hb. pose proof (wenc_transform_length more t) as Hl.
    cbn [dec_transforms]. rewrite app_length in *.
    assert (Hu : u16at (wenc_transform more t ++ tl) 2 = Ok (8 + attrs_len t)).
    { unfold wenc_transform. fold (attrs_len t). consify. rewrite <- ?app_assoc. consify. step.
      reflexivity. }
    destruct (length (wenc_transform more t) + length tl =? 0)%nat eqn:E0; [lia|].
    destruct (length (wenc_transform more t) + length tl <? 8)%nat eqn:E1; [lia|].
    rewrite Hu. cbn [bind]. decide_cmp.
    rewrite dec_transform_rt by assumption. cbn [bind].
    rewrite from_app by (symmetry; exact Hl). cbn [bind].
    rewrite IH; [reflexivity|assumption|lia].
Qed.

Definition wf_wproposal (p : wproposal) : Prop :=
  wp_res p < 256 /\ wp_num p < 256 /\ wp_proto p < 256 /\ len (wp_spi p) <= 255 /\ len (wp_transforms p) <= 255 /\
  Forall wf_wtransform (wp_transforms p) /\ 8 + len (wp_spi p) + len (wenc_list wenc_transform (wp_transforms p)) < 65536.

Lemma proposals_rt ps : forall fuel,
  Forall wf_wproposal ps -> (length (wenc_list wenc_proposal ps) < fuel)%nat ->
  dec_proposals fuel (wenc_list wenc_proposal ps) = Ok (map erase_proposal ps).
Proof.
  induction ps as [|p ps IH]; intros fuel Hw Hf.
  - destruct fuel; [cbn in Hf; lia|]. reflexivity.
  - inversion Hw as [|? ? Hp Hw']; subst. destruct fuel as [|f]; [lia|].
    destruct Hp as (Hr & Hn & Hpr & Hs & Hc & Ht & Hl).
    cbn [wenc_list map] in *. set (more := match ps with [] => false | _ => true end) in *.
    set (tl := wenc_list wenc_proposal ps) in *.
    destruct p as [res num proto spi ts]. cbn [wp_res wp_num wp_proto wp_spi wp_transforms] in *.
    set (td := wenc_list wenc_transform ts) in *.
    assert (Lp : length (wenc_proposal more (mkWP res num proto spi ts)) = (8 + (length spi + length td))%nat).
    { unfold wenc_proposal. cbn [wp_res wp_num wp_proto wp_spi wp_transforms]. fold td. len_norm. lia. }
    rewrite app_length, Lp in Hf.
    unfold wenc_proposal. cbn [wp_res wp_num wp_proto wp_spi wp_transforms]. fold td.
    rewrite <- ?app_assoc. consify. cbn [dec_proposals length]. rewrite <- ?app_assoc. len_norm.
    decide_cmp. step. len_norm. decide_cmp. step.
    assert (Hspi : sub (spi ++ td ++ tl) 0 (length spi) = Ok spi) by (apply sub_0_app; reflexivity).
    assert (Htr : dec_transforms (S (length td)) td = Ok (map erase_transform ts)) by (apply transforms_rt; [assumption|unfold td; lia]).
    destruct (0 <? len spi) eqn:Es.
    + len_norm. decide_cmp. rewrite Hspi. cbn [bind]. decide_cmp.
      replace (N.to_nat (8 + len spi + len td)) with (8 + (length spi + length td))%nat by (unfold len; lia).
      step. rewrite (sub_at spi td tl) by (reflexivity || lia). cbn [bind].
      rewrite Htr. cbn [bind].
      step. rewrite app_assoc. rewrite from_app by (rewrite app_length; lia). cbn [bind].
      rewrite IH; [|assumption|lia]. decide_cmp. reflexivity.
    + assert (spi = []) by (destruct spi; [reflexivity|unfold len in Es; cbn [length] in Es; lia]). subst spi.
      cbn [bind]. decide_cmp. cbn [app length Nat.add].
      replace (N.to_nat (8 + len (@nil byte) + len td)) with (8 + length td)%nat by (unfold len; cbn [length]; lia).
      change (N.to_nat (len (@nil byte))) with 0%nat. cbn [Nat.add].
      step. rewrite sub_0_app by reflexivity. cbn [bind].
      rewrite Htr. cbn [bind].
      step. rewrite from_app by reflexivity. cbn [bind].
      rewrite IH; [|assumption|cbn [app length] in Hf; lia]. decide_cmp. reflexivity.
Qed.

(* ---- payload bodies, dispatch ---- *)
Definition eap_of (pkt : bytes) : option eap := match eap_unmarshal pkt with Ok e => Some e | _ => None end.

Definition wf_wbody (b : wbody) : Prop :=
  match b with
  | WSA props => Forall wf_wproposal props
  | WKE g res d => g < 65536 /\ length res = 2%nat /\ d <> []
  | WID _ t res d | WAUTH t res d => t < 256 /\ length res = 3%nat /\ d <> []
  | WCERT e d | WCERTREQ e d => e < 256 /\ d <> []
  | WNonce _ | WVendor _ | WSK _ | WEAP _ => True
  | WNotify proto nt spi _ => proto < 256 /\ nt < 65536 /\ len spi <= 255
  | WDelete proto sz spis =>
    proto < 256 /\ len spis < 65536 /\ (spis = [] /\ sz < 256 \/ sz = 4) /\ Forall (fun s => length s = N.to_nat sz) spis
  | WTS _ res sels => length res = 3%nat /\ len sels <= 255 /\ Forall wf_selector sels
  | WCP ct res attrs => ct < 256 /\ length res = 3%nat /\ attrs <> [] /\ Forall wf_wcpattr attrs
  | WOther ty _ => supported ty = false /\ ty < 256
  end.

Lemma ts_rt i res sels :
  length res = 3%nat -> len sels <= 255 -> Forall wf_selector sels ->
  ts_unmarshal (wenc_body (WTS i res sels)) = Ok sels.
Proof.
  intros Hr Hn Hw. destruct res as [|r0 [|r1 [|r2 [|? ?]]]]; try discriminate.
  unfold ts_unmarshal. consify. cbn [length]. decide_cmp. step.
  rewrite <- (app_nil_r (concat (map wenc_selector sels))). now apply selectors_rt.
Qed.

Lemma payload_rt b nxt p :
  wf_wbody b -> supported (wtype b) = true -> erase_body eap_of nxt b = Some (Some p) ->
  payload_unmarshal (wtype b) nxt (wenc_body b) = Ok p.
Proof.
  intros Hw Hs He. unfold payload_unmarshal.
  destruct b as [props|g res d|i t res d|e d|e d|m res d|d|proto nt spi d|proto sz spis|d|i res sels|d|ct res attrs|pkt|ty d];
    cbn [wtype erase_body] in *; try destruct i; cbn [wtype] in *;
    repeat match goal with H : Some (Some _) = Some (Some _) |- _ => injection H as <- end.
  - change (33 =? 33) with true. cbv iota. unfold sa_unmarshal, res_map.
    change (wenc_body (WSA props)) with (wenc_list wenc_proposal props).
    rewrite proposals_rt; [reflexivity|exact Hw|lia].
  - change (34 =? 33) with false. change (34 =? 34) with true. cbv iota. destruct Hw as (? & ? & ?). now apply ke_rt.
  - change (35 =? 33) with false; change (35 =? 34) with false; change (35 =? 35) with true. cbv iota.
    destruct Hw as (? & ? & ?). change (wenc_body (WID true t res d)) with ([n2b t] ++ res ++ d). now rewrite t3_rt.
  - change (36 =? 33) with false; change (36 =? 34) with false; change (36 =? 35) with false; change (36 =? 36) with true. cbv iota.
    destruct Hw as (? & ? & ?). change (wenc_body (WID false t res d)) with ([n2b t] ++ res ++ d). now rewrite t3_rt.
  - change (37 =? 33) with false; change (37 =? 34) with false; change (37 =? 35) with false; change (37 =? 36) with false;
      change (37 =? 37) with true. cbv iota.
    destruct Hw as (? & ?). change (wenc_body (WCERT e d)) with ([n2b e] ++ d). now rewrite t0_rt.
  - change (38 =? 33) with false; change (38 =? 34) with false; change (38 =? 35) with false; change (38 =? 36) with false;
      change (38 =? 37) with false; change (38 =? 38) with true. cbv iota.
    destruct Hw as (? & ?). change (wenc_body (WCERTREQ e d)) with ([n2b e] ++ d). now rewrite t0_rt.
  - change (39 =? 33) with false; change (39 =? 34) with false; change (39 =? 35) with false; change (39 =? 36) with false;
      change (39 =? 37) with false; change (39 =? 38) with false; change (39 =? 39) with true. cbv iota.
    destruct Hw as (? & ? & ?). change (wenc_body (WAUTH m res d)) with ([n2b m] ++ res ++ d). now rewrite t3_rt.
  - reflexivity.
  - destruct Hw as (? & ? & ?). now apply notify_rt.
  - destruct Hw as (? & ? & ? & ?). now apply delete_rt.
  - reflexivity.
  - destruct Hw as (? & ? & ?). unfold res_map. cbn [N.eqb]. 
    change (44 =? 33) with false; change (44 =? 34) with false; change (44 =? 35) with false; change (44 =? 36) with false;
      change (44 =? 37) with false; change (44 =? 38) with false; change (44 =? 39) with false; change (44 =? 40) with false;
      change (44 =? 41) with false; change (44 =? 42) with false; change (44 =? 43) with false; change (44 =? 44) with true. cbv iota.
    now rewrite ts_rt.
  - destruct Hw as (? & ? & ?). unfold res_map.
    change (45 =? 33) with false; change (45 =? 34) with false; change (45 =? 35) with false; change (45 =? 36) with false;
      change (45 =? 37) with false; change (45 =? 38) with false; change (45 =? 39) with false; change (45 =? 40) with false;
      change (45 =? 41) with false; change (45 =? 42) with false; change (45 =? 43) with false; change (45 =? 44) with false;
      change (45 =? 45) with true. cbv iota.
    now rewrite ts_rt.
  - reflexivity.
  - destruct Hw as (? & ? & ? & ?).
    change (47 =? 33) with false; change (47 =? 34) with false; change (47 =? 35) with false; change (47 =? 36) with false;
      change (47 =? 37) with false; change (47 =? 38) with false; change (47 =? 39) with false; change (47 =? 40) with false;
      change (47 =? 41) with false; change (47 =? 42) with false; change (47 =? 43) with false; change (47 =? 44) with false;
      change (47 =? 45) with false; change (47 =? 46) with false; change (47 =? 47) with true. cbv iota.
    now apply cp_rt.
  - unfold eap_of in He. cbn [wenc_body].
    change (48 =? 33) with false; change (48 =? 34) with false; change (48 =? 35) with false; change (48 =? 36) with false;
      change (48 =? 37) with false; change (48 =? 38) with false; change (48 =? 39) with false; change (48 =? 40) with false;
      change (48 =? 41) with false; change (48 =? 42) with false; change (48 =? 43) with false; change (48 =? 44) with false;
      change (48 =? 45) with false; change (48 =? 46) with false; change (48 =? 47) with false; change (48 =? 48) with true. cbv iota.
    unfold res_map. destruct (eap_unmarshal pkt); try discriminate. injection He as <-. reflexivity.
  - discriminate.
Qed.

(* ---- payload chain ---- *)
Definition wf_wpayload (p : wpayload) : Prop :=
  wpl_res p < 128 /\ wf_wbody (wpl_body p) /\ 4 + len (wenc_body (wpl_body p)) < 65536 /\
  (supported (wtype (wpl_body p)) = false -> wpl_critical p = false).

Lemma wtype_lt b : wf_wbody b -> wtype b < 256.
Proof. destruct b; cbn; try lia; try (destruct initiator; lia). Qed.

Definition chain_next (last : N) (r : list wpayload) : N :=
  match r with q :: _ => wtype (wpl_body q) | [] => last end.

Lemma wenc_chain_cons last p r :
  wenc_chain last (p :: r) = wenc_payload (chain_next last r) p ++ wenc_chain last r.
Proof. reflexivity. Qed.

Lemma chain_next_lt last r : last < 256 -> Forall wf_wpayload r -> chain_next last r < 256.
Proof. intros Hl Hw. destruct r as [|q r]; [exact Hl|]. inversion Hw as [|? ? (_ & Hb & _) _]; subst. now apply wtype_lt. Qed.

(* RFC 7296 3.14: an Encrypted payload is the last payload of the chain *)
Definition is_wsk (p : wpayload) : bool := match wpl_body p with WSK _ => true | _ => false end.
Fixpoint sk_is_last (l : list wpayload) : Prop :=
  match l with
  | [] => True
  | p :: r => (is_wsk p = true -> r = []) /\ sk_is_last r
  end.

Lemma wtype_46 b : wf_wbody b -> wtype b = 46 -> exists d, b = WSK d.
Proof.
  destruct b; cbn; try discriminate; try (destruct initiator; discriminate); intros Hw H; [eexists; reflexivity|].
  destruct Hw as [Hs _]. subst ty. discriminate.
Qed.

Lemma chain_rt l : forall fuel last first ps,
  last < 256 -> Forall wf_wpayload l -> sk_is_last l -> erase_chain eap_of last l = Some ps ->
  (length (wenc_chain last l) < fuel)%nat -> first = chain_next last l ->
  container_decode fuel first (wenc_chain last l) = Ok ps.
Proof.
  induction l as [|p r IH]; intros fuel last first ps Hlast Hw Hskl He Hf Hfirst.
  - destruct fuel; [cbn in Hf; lia|]. cbn in He. injection He as <-. reflexivity.
  - inversion Hw as [|? ? Hp Hw']; subst. destruct fuel as [|f]; [lia|].
    destruct Hp as (Hres & Hb & Hl & Hcrit). destruct Hskl as [Hsk1 Hskr].
    pose proof (chain_next_lt last r Hlast Hw') as Hn.
    rewrite wenc_chain_cons in *. set (next := chain_next last r) in *.
    set (tl := wenc_chain last r) in *.
    cbn [erase_chain] in He. fold (chain_next last r) in He. fold next in He.
    assert (Lp : length (wenc_payload next p) = (4 + length (wenc_body (wpl_body p)))%nat).
    { unfold wenc_payload. len_norm. lia. }
    rewrite app_length, Lp in Hf.
    unfold wenc_payload. set (body := wenc_body (wpl_body p)) in *.
    rewrite <- ?app_assoc. consify. cbn [container_decode length chain_next]. len_norm.
    decide_cmp. step. len_norm. decide_cmp.
    replace (N.to_nat (4 + len body)) with (4 + length body)%nat by (unfold len; lia).
    step.
    assert (Hfl : ((if wpl_critical p then 128 else 0) + wpl_res p) / 128 = if wpl_critical p then 1 else 0)
      by (destruct (wpl_critical p); lia).
    destruct (supported (wtype (wpl_body p))) eqn:Sup.
    + rewrite sub_0_app by reflexivity. cbn [bind].
      destruct (erase_body eap_of next (wpl_body p)) as [[x|]|] eqn:Eb; try discriminate.
      2:{ destruct (wpl_body p); cbn in Eb, Sup; try discriminate; try (destruct initiator; discriminate).
          - destruct (eap_of packet); discriminate.
          - destruct Hb as [Hb _]. rewrite Hb in Sup. discriminate. }
      destruct (erase_chain eap_of last r) as [xs|] eqn:Er; try discriminate. injection He as <-.
      unfold body. rewrite (payload_rt _ next x Hb Sup Eb). cbn [bind].
      assert (Hnosk : (wtype (wpl_body p) =? 46) && (4 + length (wenc_body (wpl_body p)) <? 4 + (length (wenc_body (wpl_body p)) + length tl))%nat = false).
      { destruct (wtype (wpl_body p) =? 46) eqn:E46; [|reflexivity]. apply N.eqb_eq in E46.
        destruct (wtype_46 _ Hb E46) as [d Ed]. assert (r = []) by (apply Hsk1; unfold is_wsk; now rewrite Ed). subst r.
        unfold tl. cbn [wenc_chain length andb]. apply Nat.ltb_ge. lia. }
      cbn [Nat.add] in Hnosk. rewrite Hnosk.
      decide_cmp. rewrite from_app by reflexivity. cbn [bind]. unfold tl.
      rewrite (IH f last next xs); try assumption; try reflexivity. fold tl. lia.
    + rewrite (Hcrit eq_refl) in *. rewrite b2n_n2b_small by lia. rewrite Hfl. change (0 =? 0) with true. cbv iota.
      rewrite from_app by reflexivity. cbn [bind].
      destruct (erase_body eap_of next (wpl_body p)) as [[x|]|] eqn:Eb; try discriminate.
      * exfalso. destruct (wpl_body p); cbn in Eb, Sup; try discriminate; try (destruct initiator; discriminate).
      * destruct (erase_chain eap_of last r) as [xs|] eqn:Er; try discriminate. injection He as <-.
        unfold tl. decide_cmp. apply (IH f last next xs); try assumption; try reflexivity. fold tl. lia.
Qed.

(* ---- header and message ---- *)
Definition wf_wheader (h : wheader) : Prop :=
  wh_ispi h < 18446744073709551616 /\ wh_rspi h < 18446744073709551616 /\ wh_major h < 16 /\ wh_minor h < 16 /\
  wh_exch h < 256 /\ wh_flags h < 256 /\ wh_mid h < 4294967296.

Definition wf_wmsg (m : wmsg) : Prop :=
  wf_wheader (wm_hdr m) /\ Forall wf_wpayload (wm_payloads m) /\ sk_is_last (wm_payloads m) /\ wm_sk_next m < 256 /\
  28 + len (wenc_chain (wm_sk_next m) (wm_payloads m)) < 4294967296.

Definition erase_hdr (h : wheader) (first : N) : header :=
  mkHeader (wh_ispi h) (wh_rspi h) (wh_major h) (wh_minor h) (wh_exch h) (wh_flags h) (wh_mid h) first.

Lemma version_octet_split major minor : major < 16 -> minor < 16 ->
  (major * 16 + minor) / 16 = major /\ (major * 16 + minor) mod 16 = minor /\ major * 16 + minor < 256.
Proof. intros. repeat split; lia. Qed.

Lemma be_val_be64' n : n < 18446744073709551616 ->
  be_val [n2b (n / 4294967296 / 16777216); n2b (n / 4294967296 / 65536); n2b (n / 4294967296 / 256); n2b (n / 4294967296);
          n2b (n / 16777216); n2b (n / 65536); n2b (n / 256); n2b n] = n.
Proof. intros H. change (be_val (be64 n) = n). now apply be64_val. Qed.

Theorem decode_wenc m ps :
  wf_wmsg m -> erase_chain eap_of (wm_sk_next m) (wm_payloads m) = Some ps ->
  decode (wenc m) = Ok (mkMsg (erase_hdr (wm_hdr m) (wfirst (wm_payloads m))) ps).
Proof.
  intros (Hh & Hp & Hskl & Hsk & Htot) He. destruct Hh as (H1 & H2 & H3 & H4 & H5 & H6 & H7).
  unfold decode, wenc, wenc_header.
  set (c := wenc_chain (wm_sk_next m) (wm_payloads m)) in *.
  assert (Hfirst : wfirst (wm_payloads m) < 256).
  { unfold wfirst. destruct (wm_payloads m) as [|q r]; [lia|]. inversion Hp as [|? ? (_ & Hb & _) _]; subst. now apply wtype_lt. }
  destruct (wm_hdr m) as [ispi rspi major minor exch flags mid] eqn:Eh. cbn [wh_ispi wh_rspi wh_major wh_minor wh_exch wh_flags wh_mid] in *.
  destruct (version_octet_split major minor H3 H4) as (V1 & V2 & V3).
  unfold parse_header. rewrite <- ?app_assoc. consify. cbn [length]. decide_cmp.
  step. decide_cmp. rewrite !be_val_be64' by lia. cbn [bind].
  rewrite V1, V2. cbn [h_next erase_hdr wh_ispi wh_rspi wh_major wh_minor wh_exch wh_flags wh_mid].
  unfold decode_payloads, c.
  destruct (wm_payloads m) as [|q r] eqn:Epl.
  - cbn in He. injection He as <-. reflexivity.
  - rewrite (chain_rt (q :: r) _ (wm_sk_next m) (wfirst (q :: r)) ps); try assumption; try lia; reflexivity.
Qed.
