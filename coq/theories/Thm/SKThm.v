(* C01 / C06 / C02: the SK protection layer (Impl/Ike.v) *)
From IKE Require Import Lib.Base Lib.BaseLemmas Thm.Tactics Thm.ConsLemmas Thm.BitLemmas Prim.Hmac Prim.Cbc
     Impl.Msg Impl.Eap Impl.Payloads Impl.Message Impl.Security Impl.Ike Spec.Wire
     Thm.EapRT Thm.RoundTrip Thm.EncodeSpec Thm.PrfPlusObj Thm.CbcThm Thm.NoFaultSK.
Local Open Scope N_scope.

(* ---------- the encoding of a message that consists of one Encrypted payload ---------- *)
Definition sk_prefix (h : header) (nxt : N) (dlen : N) : bytes :=
  be64 (h_ispi h) ++ be64 (h_rspi h)
  ++ [n2b 46; n2b (h_major h * 16 + h_minor h); n2b (h_exch h); n2b (h_flags h)]
  ++ be32 (h_mid h) ++ be32 (28 + (4 + dlen)) ++ [n2b nxt; x00] ++ be16 (4 + dlen).

Lemma encode_sk h nxt d :
  dom_header h -> d <> [] -> 4 + len d < 65536 ->
  encode (mkMsg h [PSK nxt d]) = Ok (sk_prefix h nxt (len d) ++ d).
Proof.
  intros (H1 & H2 & H3 & H4 & H5 & H6 & H7) Hd Hl. unfold encode. cbn [m_payloads m_hdr container_encode payload_marshal first_type ptype].
  destruct d as [|d0 d]; [congruence|]. cbn [length]. decide_cmp. cbn [bind next_of].
  replace (65535 <? 4 + len (d0 :: d)) with false by (symmetry; apply N.ltb_ge; lia). cbn [bind].
  unfold header_marshal, sk_prefix. cbn [set_next h_ispi h_rspi h_major h_minor h_exch h_flags h_mid h_next].
  rewrite app_nil_r.
  replace (len ([n2b nxt; x00] ++ be16 (4 + len (d0 :: d)) ++ d0 :: d)) with (4 + len (d0 :: d)) by (unfold len; len_norm; lia).
  replace (4294967295 <? 28 + (4 + len (d0 :: d))) with false by (symmetry; apply N.ltb_ge; lia).
  unfold version_octet. rewrite version_octet_add by assumption. now rewrite <- ?app_assoc.
Qed.

Lemma sk_prefix_length h nxt dl : length (sk_prefix h nxt dl) = 32%nat.
Proof. reflexivity. Qed.

(* key-equivalence of SA objects: everything equal except the buffers of the stateful hash objects *)
Definition hobj_eqk (o o' : hobj) : Prop := h_alg o = h_alg o' /\ h_key o = h_key o'.
Definition sa_eqk (a b : ikesa) : Prop :=
  sa_encr a = sa_encr b /\ sa_integ a = sa_integ b /\ sa_prf a = sa_prf b /\
  hobj_eqk (sa_prf_d a) (sa_prf_d b) /\ hobj_eqk (sa_integ_i a) (sa_integ_i b) /\ hobj_eqk (sa_integ_r a) (sa_integ_r b) /\
  hobj_eqk (sa_prf_i a) (sa_prf_i b) /\ hobj_eqk (sa_prf_r a) (sa_prf_r b) /\
  sa_encr_i a = sa_encr_i b /\ sa_encr_r a = sa_encr_r b /\
  sk_d a = sk_d b /\ sk_ai a = sk_ai b /\ sk_ar a = sk_ar b /\ sk_ei a = sk_ei b /\ sk_er a = sk_er b /\ sk_pi a = sk_pi b /\ sk_pr a = sk_pr b.

Lemma sa_eqk_refl a : sa_eqk a a.
Proof. unfold sa_eqk, hobj_eqk. repeat split; reflexivity. Qed.
Lemma sa_eqk_sym a b : sa_eqk a b -> sa_eqk b a.
Proof. unfold sa_eqk, hobj_eqk. intuition congruence. Qed.
Lemma sa_eqk_trans a b c : sa_eqk a b -> sa_eqk b c -> sa_eqk a c.
Proof. unfold sa_eqk, hobj_eqk. intuition congruence. Qed.

Section SK.
  Variable digest : halg -> bytes -> bytes.
  Variable aes_enc aes_dec : bytes -> bytes -> bytes.
  Hypothesis digest_len : forall a x, length (digest a x) = hlen a.
  Hypothesis blk : block_hyps aes_enc aes_dec.

  (* the truncated MAC of the sender's direction *)
  Definition integ_obj (sa : ikesa) (role : bool) : hobj := if role then sa_integ_i sa else sa_integ_r sa.
  Definition mac (sa : ikesa) (role : bool) (data : bytes) : bytes :=
    firstn (integ_outlen (sa_integ sa)) (hm digest (h_alg (integ_obj sa role)) (h_key (integ_obj sa role)) data).

  Lemma calc_integrity_value sa role data :
    sa_wf sa ->
    fst (calculate_integrity digest sa role data) = Ok (mac sa role data) /\
    sa_eqk sa (snd (calculate_integrity digest sa role data)) /\ sa_wf (snd (calculate_integrity digest sa role data)).
  Proof.
    intros [Wi Wr]. unfold calculate_integrity, mac, integ_obj. cbn [fst snd].
    set (o := if role then sa_integ_i sa else sa_integ_r sa).
    assert (Ha : h_alg o = integ_hash (sa_integ sa)) by (unfold o; destruct role; assumption).
    unfold ho_sum, ho_write, ho_reset. cbn [h_alg h_key h_buf app].
    pose proof (integ_out_le (sa_integ sa)).
    rewrite upto_ok by (rewrite hm_len by assumption; rewrite Ha; lia).
    split; [reflexivity|]. split.
    - destruct role; unfold sa_eqk, hobj_eqk, set_integ_i, set_integ_r; cbn; repeat split; reflexivity.
    - destruct role; split; cbn; assumption.
  Qed.

  Lemma mac_eqk a b role data : sa_eqk a b -> mac a role data = mac b role data.
  Proof.
    intros (_ & Hi & _ & _ & [A1 K1] & [A2 K2] & _). unfold mac, integ_obj. rewrite Hi.
    destruct role; congruence.
  Qed.

  Lemma mac_length sa role data : sa_wf sa -> length (mac sa role data) = integ_outlen (sa_integ sa).
  Proof.
    intros [Wi Wr]. unfold mac. rewrite firstn_length, hm_len by assumption.
    pose proof (integ_out_le (sa_integ sa)). unfold integ_obj. destruct role; [rewrite Wi|rewrite Wr]; lia.
  Qed.

  Definition send_key (sa : ikesa) (role : bool) : bytes := if role then sa_encr_i sa else sa_encr_r sa.

  (* ---------- protection: the octets produced (RFC 7296 3.14) ---------- *)
  Theorem protect_spec sa role m s b sa' s' :
    sa_wf sa -> dom_header (m_hdr m) ->
    encode_encrypt digest aes_enc m (Some sa) role s = (Ok b, sa', s') ->
    exists plain ct,
      container_encode (m_payloads m) = Ok plain /\
      aes_encrypt aes_enc (send_key sa role) plain s = (Ok ct, s') /\
      let nxt := first_type (m_payloads m) in
      let icv := integ_outlen (sa_integ sa) in
      let covered := sk_prefix (m_hdr m) nxt (len ct + N.of_nat icv) ++ ct in
      b = covered ++ mac sa role covered /\
      4 + (len ct + N.of_nat icv) < 65536 /\
      exists k', sa' = Some k' /\ sa_eqk sa k' /\ sa_wf k'.
  Proof.
    intros Hwf Hh. unfold encode_encrypt, encrypt_msg.
    destruct (container_encode (m_payloads m)) as [plain| | |] eqn:Ec; try (intros Hq; discriminate Hq).
    fold (send_key sa role).
    destruct (aes_encrypt aes_enc (send_key sa role) plain s) as [[ct| | |] s1] eqn:Ea; try (intros Hq; discriminate Hq).
    set (icv := integ_outlen (sa_integ sa)). set (nxt := first_type (m_payloads m)).
    destruct (aes_encrypt_spec aes_enc aes_dec blk _ _ _ _ _ Ea) as (padr & iv & _ & _ & Liv & _ & _ & Lct & _ & _ & _).
    assert (Hne : ct ++ zeros icv <> []) by (destruct ct; [cbn in Lct; lia|discriminate]).
    destruct (N.ltb_spec (4 + len (ct ++ zeros icv)) 65536) as [Hfit|Hbig].
    2:{ (* too large for the 16-bit payload length: encode fails *)
        unfold encode at 1. cbn [m_payloads m_hdr container_encode payload_marshal].
        destruct (ct ++ zeros icv) eqn:Ez; [congruence|]. cbn [length]. decide_cmp. cbn [bind].
        replace (65535 <? 4 + len (b0 :: l)) with true by (symmetry; apply N.ltb_lt; lia). intros Hq; discriminate Hq. }
    rewrite (encode_sk (m_hdr m) nxt (ct ++ zeros icv) Hh Hne Hfit).
    assert (Lz : len (ct ++ zeros icv) = len ct + N.of_nat icv) by (unfold len; len_norm; lia).
    rewrite Lz in *.
    set (P := sk_prefix (m_hdr m) nxt (len ct + N.of_nat icv)).
    rewrite upto_ok by (len_norm; lia).
    assert (Hcov : firstn (length (P ++ ct ++ zeros icv) - icv) (P ++ ct ++ zeros icv) = P ++ ct).
    { rewrite app_assoc. apply firstn_app_len. len_norm. lia. }
    rewrite Hcov.
    destruct (calc_integrity_value sa role (P ++ ct) Hwf) as (Hv & Heq & Hwf').
    destruct (calculate_integrity digest sa role (P ++ ct)) as [rc k'] eqn:Ci. cbn [fst snd] in *. subst rc.
    assert (Hne2 : ct ++ mac sa role (P ++ ct) <> []) by (destruct ct; [cbn in Lct; lia|discriminate]).
    assert (Lm : len (ct ++ mac sa role (P ++ ct)) = len ct + N.of_nat icv).
    { unfold len. rewrite app_length, mac_length by assumption. fold icv. lia. }
    assert (Hh46 : dom_header (set_next (m_hdr m) 46)) by (destruct (m_hdr m); exact Hh).
    rewrite (encode_sk (set_next (m_hdr m) 46) nxt _ Hh46 Hne2) by (rewrite Lm; lia).
    rewrite Lm. intros Hq. injection Hq as <- <- <-.
    exists plain, ct. split; [reflexivity|]. split; [exact Ea|]. cbv zeta. fold icv nxt.
    replace (sk_prefix (set_next (m_hdr m) 46) nxt (len ct + N.of_nat icv)) with P by (destruct (m_hdr m); reflexivity).
    split; [now rewrite <- app_assoc|]. split; [lia|]. exists k'. auto.
  Qed.

  (* protection succeeds on the whole domain whenever the random source delivers and the SK payload fits *)
  Lemma draw_app r : forall s2, draw (length r) (map (@Some byte) r ++ s2) = (Ok r, s2).
  Proof. induction r as [|x r IH]; intros s2; cbn [draw length map app]; [reflexivity|]. now rewrite IH. Qed.

  Theorem protect_succeeds sa role m padr iv s2 :
    sa_wf sa -> dom_msg m ->
    let plain := wenc_chain (sk_last (m_payloads m)) (map (canon_payload eap_bytes) (m_payloads m)) in
    length padr = pad_of plain -> length iv = 16%nat ->
    4 + (N.of_nat (16 + length plain + pad_of plain) + N.of_nat (integ_outlen (sa_integ sa))) < 65536 ->
    exists b sa',
      encode_encrypt digest aes_enc m (Some sa) role (map (@Some byte) padr ++ map (@Some byte) iv ++ s2) = (Ok b, sa', s2).
  Proof.
    intros Hwf (Hh & Hp & Htot) plain Lp Liv Hfit. unfold encode_encrypt, encrypt_msg.
    rewrite (container_encode_canon _ Hp). fold plain. fold (send_key sa role).
    assert (Ea : exists ct, aes_encrypt aes_enc (send_key sa role) plain (map (@Some byte) padr ++ map (@Some byte) iv ++ s2) = (Ok ct, s2)).
    { unfold aes_encrypt, pkcs7_padding. fold (pad_of plain). rewrite <- Lp. rewrite draw_app. rewrite <- Liv. rewrite draw_app. eauto. }
    destruct Ea as [ct Ea]. rewrite Ea.
    set (icv := integ_outlen (sa_integ sa)) in *. set (nxt := first_type (m_payloads m)).
    destruct (aes_encrypt_spec aes_enc aes_dec blk _ _ _ _ _ Ea) as (padr' & iv' & _ & _ & _ & _ & _ & Lct & _ & _ & _).
    assert (Hne : ct ++ zeros icv <> []) by (destruct ct; [cbn in Lct; lia|discriminate]).
    assert (Lz : len (ct ++ zeros icv) = len ct + N.of_nat icv) by (unfold len; len_norm; lia).
    assert (Hf2 : 4 + (len ct + N.of_nat icv) < 65536) by (unfold len; rewrite Lct; lia).
    rewrite (encode_sk (m_hdr m) nxt (ct ++ zeros icv) Hh Hne) by (rewrite Lz; exact Hf2).
    rewrite Lz.
    set (P := sk_prefix (m_hdr m) nxt (len ct + N.of_nat icv)).
    rewrite upto_ok by (len_norm; lia).
    assert (Hcov : firstn (length (P ++ ct ++ zeros icv) - icv) (P ++ ct ++ zeros icv) = P ++ ct).
    { rewrite app_assoc. apply firstn_app_len. len_norm. lia. }
    rewrite Hcov.
    destruct (calc_integrity_value sa role (P ++ ct) Hwf) as (Hv & Heq & Hwf').
    destruct (calculate_integrity digest sa role (P ++ ct)) as [rc k'] eqn:Ci. cbn [fst snd] in *. subst rc.
    assert (Hne2 : ct ++ mac sa role (P ++ ct) <> []) by (destruct ct; [cbn in Lct; lia|discriminate]).
    assert (Lm : len (ct ++ mac sa role (P ++ ct)) = len ct + N.of_nat icv).
    { unfold len. rewrite app_length, mac_length by assumption. fold icv. lia. }
    assert (Hh46 : dom_header (set_next (m_hdr m) 46)) by (destruct (m_hdr m); exact Hh).
    rewrite (encode_sk (set_next (m_hdr m) 46) nxt _ Hh46 Hne2) by (rewrite Lm; lia).
    eauto.
  Qed.

  (* ---------- unprotection: acceptance implies a valid tag; nothing reaches the cipher before that ---------- *)
  Lemma container_decode_last_sk fuel : forall nxt b ps nx ed,
    container_decode fuel nxt b = Ok ps -> last_sk ps None = Ok (Some (nx, ed)) ->
    exists pre, b = pre ++ ed.
  Proof.
    induction fuel as [|f IH]; intros nxt b ps nx ed; [discriminate|].
    cbn [container_decode].
    destruct (length b =? 0)%nat; [intros [= <-]; discriminate|].
    destruct (length b <? 4)%nat; [discriminate|].
    destruct (u16at b 2) as [pl| | |]; cbn [bind]; try discriminate.
    destruct (pl <? 4); [discriminate|]. destruct (length b <? N.to_nat pl)%nat eqn:El; [discriminate|].
    destruct (idx b 1) as [b1| | |]; cbn [bind]; try discriminate.
    destruct (idx b 0) as [b0| | |]; cbn [bind]; try discriminate.
    destruct (supported nxt) eqn:Sup.
    - destruct (sub b 4 (N.to_nat pl)) as [body| | |] eqn:Sb; cbn [bind]; try discriminate.
      destruct (payload_unmarshal nxt b0 body) as [p| | |] eqn:Pu; cbn [bind]; try discriminate.
      destruct ((nxt =? 46) && (N.to_nat pl <? length b)%nat) eqn:Esk; [discriminate|].
      destruct (from b (N.to_nat pl)) as [rest| | |] eqn:Fr; cbn [bind]; try discriminate.
      destruct (container_decode f b0 rest) as [ps'| | |] eqn:Cd; cbn [bind]; try discriminate.
      intros [= <-] Hl.
      unfold from in Fr. destruct (N.to_nat pl <=? length b)%nat eqn:Ele; [|discriminate]. injection Fr as <-.
      destruct ps' as [|q ps''].
      + (* p is the last payload: it is the SK payload and its body is the tail of b *)
        destruct p; cbn [last_sk] in Hl; try discriminate. injection Hl as <- <-.
        assert (nxt = 46).
        { unfold payload_unmarshal in Pu.
          repeat match type of Pu with (if ?c then _ else _) = _ => destruct c eqn:? end;
            try (apply N.eqb_eq; assumption); try discriminate;
            unfold res_map in Pu;
            repeat match type of Pu with bind ?r _ = _ => destruct r as [[]| | |]; cbn [bind] in Pu end; try discriminate;
            try (apply N.eqb_eq; assumption).
          all: try (unfold ke_unmarshal, notify_unmarshal, delete_unmarshal, cp_unmarshal in Pu).
          all: exfalso; revert Pu; peel_ok; discriminate. }
        subst nxt. change (46 =? 46) with true in Esk. cbn [andb] in Esk. apply Nat.ltb_ge in Esk.
        assert (N.to_nat pl = length b) by (apply Nat.leb_le in Ele; lia).
        unfold payload_unmarshal in Pu. change (46 =? 33) with false in Pu; change (46 =? 34) with false in Pu;
          change (46 =? 35) with false in Pu; change (46 =? 36) with false in Pu; change (46 =? 37) with false in Pu;
          change (46 =? 38) with false in Pu; change (46 =? 39) with false in Pu; change (46 =? 40) with false in Pu;
          change (46 =? 41) with false in Pu; change (46 =? 42) with false in Pu; change (46 =? 43) with false in Pu;
          change (46 =? 44) with false in Pu; change (46 =? 45) with false in Pu; change (46 =? 46) with true in Pu.
        cbv iota in Pu. injection Pu as <- <-.
        unfold sub in Sb. destruct ((4 <=? N.to_nat pl) && (N.to_nat pl <=? length b))%nat; [|discriminate]. injection Sb as <-.
        exists (firstn 4 b). rewrite H. rewrite (firstn_all2 (n := length b - 4)) by (rewrite skipn_length; lia). now rewrite firstn_skipn.
      + assert (Hl' : last_sk (q :: ps'') None = Ok (Some (nx, ed))).
        { destruct p; cbn [last_sk] in Hl; try discriminate; try exact Hl. }
        destruct (IH _ _ _ _ _ Cd Hl') as [pre Hpre].
        exists (firstn (N.to_nat pl) b ++ pre). rewrite <- app_assoc, <- Hpre. now rewrite firstn_skipn.
    - destruct (b1 / 128 =? 0); [|discriminate].
      destruct (from b (N.to_nat pl)) as [rest| | |] eqn:Fr; cbn [bind]; try discriminate.
      intros Cd Hl. unfold from in Fr. destruct (N.to_nat pl <=? length b)%nat; [|discriminate]. injection Fr as <-.
      destruct (IH _ _ _ _ _ Cd Hl) as [pre Hpre].
      exists (firstn (N.to_nat pl) b ++ pre). rewrite <- app_assoc, <- Hpre. now rewrite firstn_skipn.
  Qed.

  Definition recv_key (sa : ikesa) (role : bool) : bytes := if role then sa_encr_r sa else sa_encr_i sa.

  (* what decrypt_msg does, as one characterisation *)
  Lemma decrypt_msg_char raw m k role :
    sa_wf k ->
    let icv := integ_outlen (sa_integ k) in
    match last_sk (m_payloads m) None with
    | Ok (Some (nx, ed)) =>
      if (length ed <? icv)%nat || (length raw <? icv)%nat then
        (length raw <? icv)%nat = false -> decrypt_msg digest aes_dec raw m k role = (Err, k, [])
      else
        let tag := skipn (length ed - icv) ed in
        let covered := firstn (length raw - icv) raw in
        exists k', sa_eqk k k' /\ sa_wf k' /\
        if list_eq_dec Byte.byte_eq_dec tag (mac k (negb role) covered) then
          decrypt_msg digest aes_dec raw m k role =
            (match aes_decrypt aes_dec (recv_key k role) (firstn (length ed - icv) ed) with
             | Ok plain => match decode_payloads nx plain with
                           | Ok ps => Ok (mkMsg (m_hdr m) ps) | Err => Err | Fault => Fault | OutOfFuel => OutOfFuel end
             | Err => Err | Fault => Fault | OutOfFuel => OutOfFuel end, k', [CDec (negb role)])
        else decrypt_msg digest aes_dec raw m k role = (Err, k', [])
    | _ => True
    end.
  Proof.
    intros Hwf icv. unfold decrypt_msg. fold icv.
    destruct (last_sk (m_payloads m) None) as [[[nx ed]|]| | |]; try exact I.
    destruct (length ed <? icv)%nat eqn:E1; cbn [orb].
    - intros _. reflexivity.
    - destruct (length raw <? icv)%nat eqn:E2; [intros Hq; discriminate Hq|].
      rewrite from_ok by lia. rewrite upto_ok by lia.
      destruct (calc_integrity_value k (negb role) (firstn (length raw - icv) raw) Hwf) as (Hv & Heq & Hwf').
      destruct (calculate_integrity digest k (negb role) (firstn (length raw - icv) raw)) as [rc k'] eqn:Ci.
      cbn [fst snd] in *. subst rc. exists k'. split; [exact Heq|]. split; [exact Hwf'|].
      destruct (list_eq_dec Byte.byte_eq_dec (skipn (length ed - icv) ed) (mac k (negb role) (firstn (length raw - icv) raw))) as [Heqt|Hne]; cbn [negb].
      + rewrite upto_ok by lia. fold (recv_key k role).
        destruct (aes_decrypt aes_dec (recv_key k role) (firstn (length ed - icv) ed)); try reflexivity.
        destruct (decode_payloads nx a); reflexivity.
      + reflexivity.
  Qed.

  Lemma skipn_suffix (pre ed : bytes) n : (n <= length ed)%nat ->
    skipn (length (pre ++ ed) - n) (pre ++ ed) = skipn (length ed - n) ed.
  Proof.
    intros H. rewrite app_length. replace (length pre + length ed - n)%nat with (length pre + (length ed - n))%nat by lia.
    rewrite skipn_app. rewrite skipn_all2 by lia. replace (length pre + (length ed - n) - length pre)%nat with (length ed - n)%nat by lia.
    reflexivity.
  Qed.

  Definition parsed_of (raw : bytes) (hdr : option header) : res msg :=
    match hdr with
    | None => decode raw
    | Some h =>
      if (length raw <? 28)%nat then Err else
      let* pb := from raw 28 in let* ps := decode_payloads (h_next h) pb in Ok (mkMsg h ps)
    end.

  Lemma parsed_suffix raw hdr m nx ed :
    parsed_of raw hdr = Ok m -> last_sk (m_payloads m) None = Ok (Some (nx, ed)) -> exists pre, raw = pre ++ ed.
  Proof.
    unfold parsed_of. destruct hdr as [h|].
    - destruct (length raw <? 28)%nat eqn:E; [discriminate|]. rewrite from_ok by lia. cbn [bind].
      destruct (decode_payloads (h_next h) (skipn 28 raw)) as [ps| | |] eqn:Dp; cbn [bind]; try discriminate.
      intros [= <-] Hl. cbn [m_payloads] in Hl. destruct (container_decode_last_sk _ _ _ _ _ _ Dp Hl) as [pre Hp].
      exists (firstn 28 raw ++ pre). rewrite <- app_assoc, <- Hp. now rewrite firstn_skipn.
    - unfold decode. destruct (parse_header raw) as [[h pb]| | |] eqn:Ph; cbn [bind]; try discriminate.
      destruct (decode_payloads (h_next h) pb) as [ps| | |] eqn:Dp; cbn [bind]; try discriminate.
      intros [= <-] Hl. cbn [m_payloads] in Hl. apply Thm.NoFault.parse_header_rest in Ph. destruct Ph as [-> _].
      destruct (container_decode_last_sk _ _ _ _ _ _ Dp Hl) as [pre Hp].
      exists (firstn 28 raw ++ pre). rewrite <- app_assoc, <- Hp. now rewrite firstn_skipn.
  Qed.

  Definition valid_tagged (k : ikesa) (role : bool) (raw : bytes) : Prop :=
    let icv := integ_outlen (sa_integ k) in
    (icv <= length raw)%nat /\
    raw = firstn (length raw - icv) raw ++ mac k role (firstn (length raw - icv) raw).

  (* C02 (a)+(c): whenever the cipher is invoked - a fortiori whenever an SK message is accepted - the datagram
     carries a valid tag under the PEER direction's integrity key over everything before the tag *)
  Theorem cipher_called_only_after_valid_tag raw hdr k role :
    sa_wf k ->
    let '(r, _, calls) := decode_decrypt digest aes_dec raw hdr (Some k) role in
    calls = [] \/ (calls = [CDec (negb role)] /\ valid_tagged k (negb role) raw).
  Proof.
    intros Hwf. unfold decode_decrypt. fold (parsed_of raw hdr).
    destruct (parsed_of raw hdr) as [m| | |] eqn:Pm; try (now left).
    destruct (length (m_payloads m) =? 0)%nat; [destruct (h_next (m_hdr m) =? 46); now left|].
    destruct (first_is_sk (m_payloads m)) eqn:Fs; [|now left].
    pose proof (decrypt_msg_char raw m k role Hwf) as Hc. cbv zeta in Hc.
    destruct (last_sk (m_payloads m) None) as [[[nx ed]|]| | |] eqn:Ls.
    - destruct (parsed_suffix raw hdr m nx ed Pm Ls) as [pre Hpre].
      set (icv := integ_outlen (sa_integ k)) in *.
      destruct ((length ed <? icv)%nat || (length raw <? icv)%nat) eqn:Esh.
      + assert (E2 : (length raw <? icv)%nat = false \/ (length raw <? icv)%nat = true) by (destruct (length raw <? icv)%nat; auto).
        destruct E2 as [E2|E2].
        * rewrite (Hc E2). now left.
        * (* raw shorter than the tag although it contains ed: impossible when ed is long enough; the short-ed branch returns first *)
          unfold decrypt_msg. rewrite Ls. fold icv.
          destruct (length ed <? icv)%nat eqn:E1; [now left|]. exfalso. rewrite Hpre, app_length in E2. lia.
      + apply orb_false_iff in Esh. destruct Esh as [E1 E2].
        destruct Hc as (k' & _ & _ & Hc).
        destruct (list_eq_dec Byte.byte_eq_dec (skipn (length ed - icv) ed) (mac k (negb role) (firstn (length raw - icv) raw))) as [Ht|Hn].
        * rewrite Hc. right. split; [reflexivity|]. unfold valid_tagged. fold icv. split; [lia|].
          rewrite <- Ht. assert (Hs : skipn (length ed - icv) ed = skipn (length raw - icv) raw) by (rewrite Hpre; symmetry; apply skipn_suffix; lia).
          rewrite Hs. symmetry. apply firstn_skipn.
        * rewrite Hc. now left.
    - (* no SK payload found although the first payload is SK: impossible *)
      exfalso. destruct (m_payloads m) as [|p ps]; [discriminate|]. destruct p; try discriminate.
      cbn [last_sk] in Ls. destruct (last_sk_shape ps (Some (next, d)) I) as [E|[(nx & dd & E & _)|(_ & Ea & _)]]; congruence.
    - unfold decrypt_msg. rewrite Ls. now left.
    - unfold decrypt_msg. rewrite Ls. now left.
    - unfold decrypt_msg. rewrite Ls. now left.
  Qed.

  (* a datagram whose first payload is not SK is handled as an unprotected datagram: no key is applied, no cipher call
     (a header announcing SK without any payload is refused) *)
  Theorem non_sk_is_plain raw hdr sa role m0 :
    parsed_of raw hdr = Ok m0 -> first_is_sk (m_payloads m0) = false ->
    decode_decrypt digest aes_dec raw hdr sa role =
      (if (length (m_payloads m0) =? 0)%nat && (h_next (m_hdr m0) =? 46) then Err else Ok m0, sa, []).
  Proof.
    intros Pm Fs. unfold decode_decrypt. fold (parsed_of raw hdr). rewrite Pm, Fs.
    destruct (length (m_payloads m0) =? 0)%nat; [destruct (h_next (m_hdr m0) =? 46)|]; reflexivity.
  Qed.

  (* without keys: the plain decoder, except that SK-first datagrams are refused *)
  Theorem no_key_is_plain_decode raw role :
    decode_decrypt digest aes_dec raw None None role =
      match decode raw with
      | Ok m => (if (length (m_payloads m) =? 0)%nat then (if h_next (m_hdr m) =? 46 then Err else Ok m)
                 else if first_is_sk (m_payloads m) then Err else Ok m, None, [])
      | Err => (Err, None, []) | Fault => (Fault, None, []) | OutOfFuel => (OutOfFuel, None, [])
      end.
  Proof.
    unfold decode_decrypt. destruct (decode raw) as [m| | |]; try reflexivity.
    destruct (length (m_payloads m) =? 0)%nat; [destruct (h_next (m_hdr m) =? 46); reflexivity|].
    destruct (first_is_sk (m_payloads m)); reflexivity.
  Qed.

  (* ---------- C01: protect, then unprotect in the opposite role with a key-equivalent SA ---------- *)
  Lemma container_roundtrip ps plain :
    Forall dom_payload ps -> sk_consistent ps -> container_encode ps = Ok plain ->
    decode_payloads (first_type ps) plain = Ok (map norm_payload ps).
  Proof.
    intros Hp Hc He. rewrite (container_encode_canon ps Hp) in He. injection He as <-.
    unfold decode_payloads. destruct ps as [|p r]; [reflexivity|].
    apply (chain_rt (map (canon_payload eap_bytes) (p :: r)) _ (sk_last (p :: r))).
    - now apply sk_last_lt.
    - rewrite Forall_map. eapply Forall_impl; [|exact Hp]. apply canon_payload_wf.
    - now apply sk_consistent_canon.
    - now apply erase_canon_chain.
    - lia.
    - cbn. now rewrite wtype_canon.
  Qed.

  Lemma ptype_lt p : ptype p < 256. Proof. destruct p; cbn; lia. Qed.
  Lemma first_type_lt ps : first_type ps < 256.
  Proof. destruct ps as [|p r]; cbn; [lia|apply ptype_lt]. Qed.

  (* the receiver's side for ANY datagram of the s3.14 layout whose ciphertext decrypts to the encoded payloads:
     used for the library's own output (protect_unprotect) and for reference-built datagrams (C06) *)
  Lemma tagged_accepted sa sa2 role m plain ct :
    sa_wf sa -> sa_wf sa2 -> sa_eqk sa sa2 -> dom_msg m -> sk_consistent (m_payloads m) ->
    container_encode (m_payloads m) = Ok plain ->
    aes_decrypt aes_dec (send_key sa role) ct = Ok plain -> ct <> [] ->
    let nxt := first_type (m_payloads m) in
    let icv := integ_outlen (sa_integ sa) in
    4 + (len ct + N.of_nat icv) < 65536 ->
    let covered := sk_prefix (m_hdr m) nxt (len ct + N.of_nat icv) ++ ct in
    let b := covered ++ mac sa role covered in
    let expect := mkMsg (set_next (m_hdr m) 46) (map norm_payload (m_payloads m)) in
    forall hdr, (hdr = None \/ exists pb, parse_header b = Ok (set_next (m_hdr m) 46, pb) /\ hdr = Some (set_next (m_hdr m) 46)) ->
    exists k2',
      decode_decrypt digest aes_dec b hdr (Some sa2) (negb role) = (Ok expect, Some k2', [CDec role]) /\ sa_eqk sa2 k2'.
  Proof.
    intros Hwf Hwf2 Heq (Hh & Hp & Htot) Hc Ece Hdec Hct0 nxt icv Hfit covered b0 expect hdr Hhdr.
    set (P := sk_prefix (m_hdr m) nxt (len ct + N.of_nat icv)) in *.
    set (tag := mac sa role (P ++ ct)) in *.
    remember b0 as b eqn:Hb. unfold b0, covered in Hb. fold tag in Hb. clear b0.
    assert (Ltag : length tag = icv) by (apply mac_length; assumption).
    assert (Hne : ct ++ tag <> []) by (destruct ct; [congruence|discriminate]).
    assert (Ld : len (ct ++ tag) = len ct + N.of_nat icv) by (unfold len; rewrite app_length, Ltag; lia).
    (* b is the plain encoding of the one-payload message [SK] *)
    set (msk := mkMsg (m_hdr m) [PSK nxt (ct ++ tag)]).
    assert (Eb : encode msk = Ok b).
    { unfold msk. rewrite (encode_sk (m_hdr m) nxt (ct ++ tag) Hh Hne) by (rewrite Ld; lia).
      rewrite Ld. fold P. rewrite Hb. now rewrite <- app_assoc. }
    assert (Dmsk : dom_msg msk).
    { unfold dom_msg, msk. cbn [m_hdr m_payloads]. split; [exact Hh|]. split.
      - constructor; [|constructor]. split.
        + cbn. split; [apply first_type_lt|exact Hne].
        + cbn [canon_body wenc_body]. rewrite Ld. lia.
      - cbn [map sk_last wenc_chain]. unfold wenc_payload, canon_payload. cbn [wpl_body canon_body wenc_body wpl_critical wpl_res].
        unfold len in *. len_norm. lia. }
    destruct (codec_roundtrip msk Dmsk) as (b' & Eb' & Db); [cbn; auto|].
    rewrite Eb in Eb'. injection Eb' as <-.
    assert (Nm : norm_msg msk = mkMsg (set_next (m_hdr m) 46) [PSK nxt (ct ++ tag)]) by reflexivity.
    rewrite Nm in Db.
    (* the parsed form is the same with or without a pre-parsed header *)
    assert (Pp : parsed_of b hdr = Ok (mkMsg (set_next (m_hdr m) 46) [PSK nxt (ct ++ tag)])).
    { destruct Hhdr as [-> | (pb & Hph & ->)]; [exact Db|].
      unfold parsed_of. destruct (Thm.NoFault.parse_header_rest _ _ _ Hph) as [Hpb Hlen].
      replace (length b <? 28)%nat with false by (symmetry; apply Nat.ltb_ge; lia).
      rewrite from_ok by lia. cbn [bind]. rewrite <- Hpb.
      unfold decode in Db. rewrite Hph in Db. cbn [bind] in Db.
      destruct (decode_payloads (h_next (set_next (m_hdr m) 46)) pb); cbn [bind] in *; try discriminate.
      injection Db as ->. reflexivity. }
    unfold decode_decrypt. fold (parsed_of b hdr). rewrite Pp. cbn [m_payloads length first_is_sk m_hdr].
    change (1 =? 0)%nat with false. cbv iota.
    pose proof (decrypt_msg_char b (mkMsg (set_next (m_hdr m) 46) [PSK nxt (ct ++ tag)]) sa2 (negb role) Hwf2) as Hch.
    cbv zeta in Hch. cbn [m_payloads last_sk m_hdr] in Hch.
    assert (Hi : integ_outlen (sa_integ sa2) = icv) by (destruct Heq as (_ & Hi & _); now rewrite <- Hi).
    rewrite Hi in Hch.
    assert (Lb : length b = (32 + length ct + icv)%nat) by (rewrite Hb; rewrite !app_length, Ltag; unfold P; rewrite sk_prefix_length; lia).
    replace ((length (ct ++ tag) <? icv)%nat || (length b <? icv)%nat) with false in Hch
      by (symmetry; apply orb_false_iff; split; apply Nat.ltb_ge; rewrite ?app_length; lia).
    destruct Hch as (k2' & Hk2 & _ & Hch).
    assert (Htag : skipn (length (ct ++ tag) - icv) (ct ++ tag) = tag).
    { rewrite app_length, Ltag. replace (length ct + icv - icv)%nat with (length ct) by lia. now apply skipn_app_len. }
    assert (Hcov : firstn (length b - icv) b = P ++ ct).
    { rewrite Hb. rewrite app_length, Ltag. replace (length (P ++ ct) + icv - icv)%nat with (length (P ++ ct)) by lia. now apply firstn_app_len. }
    rewrite Htag, Hcov in Hch. rewrite negb_involutive in Hch.
    rewrite <- (mac_eqk sa sa2 role (P ++ ct) Heq) in Hch. fold tag in Hch.
    destruct (list_eq_dec Byte.byte_eq_dec tag tag) as [_|Hn]; [|congruence].
    rewrite Hch.
    assert (Hkey : recv_key sa2 (negb role) = send_key sa role).
    { destruct Heq as (_ & _ & _ & _ & _ & _ & _ & _ & Ei & Er & _). unfold recv_key, send_key. destruct role; cbn; congruence. }
    rewrite Hkey.
    assert (Hct : firstn (length (ct ++ tag) - icv) (ct ++ tag) = ct).
    { rewrite app_length, Ltag. replace (length ct + icv - icv)%nat with (length ct) by lia. now apply firstn_app_len. }
    rewrite Hct, Hdec.
    fold nxt. unfold nxt. rewrite (container_roundtrip (m_payloads m) plain Hp Hc Ece).
    exists k2'. split; [reflexivity|exact Hk2].
  Qed.

  Theorem protect_unprotect sa sa2 role m s b sa' s' :
    sa_wf sa -> sa_wf sa2 -> sa_eqk sa sa2 -> dom_msg m -> sk_consistent (m_payloads m) ->
    encode_encrypt digest aes_enc m (Some sa) role s = (Ok b, sa', s') ->
    let expect := mkMsg (set_next (m_hdr m) 46) (map norm_payload (m_payloads m)) in
    (* the receiver may or may not have parsed the header beforehand *)
    forall hdr, (hdr = None \/ exists pb, parse_header b = Ok (set_next (m_hdr m) 46, pb) /\ hdr = Some (set_next (m_hdr m) 46)) ->
    exists k2',
      decode_decrypt digest aes_dec b hdr (Some sa2) (negb role) = (Ok expect, Some k2', [CDec role]) /\ sa_eqk sa2 k2'.
  Proof.
    intros Hwf Hwf2 Heq Hd Hc Hpe expect hdr Hhdr.
    destruct (protect_spec sa role m s b sa' s' Hwf (proj1 Hd) Hpe) as (plain & ct & Ece & Eae & Hb & Hfit & _).
    cbv zeta in Hb.
    destruct (aes_encrypt_spec aes_enc aes_dec blk _ _ _ _ _ Eae) as (padr & iv & _ & _ & _ & _ & _ & Lct & _ & _ & Hdec).
    assert (Hct0 : ct <> []) by (destruct ct; [cbn in Lct; lia|discriminate]).
    subst b. exact (tagged_accepted sa sa2 role m plain ct Hwf Hwf2 Heq Hd Hc Ece Hdec Hct0 Hfit hdr Hhdr).
  Qed.

  (* ---------- C06: a datagram built by an independent sender with any legal padding is accepted ---------- *)
  Theorem reference_accepted sa sa2 role m plain iv pad :
    sa_wf sa -> sa_wf sa2 -> sa_eqk sa sa2 -> dom_msg m -> sk_consistent (m_payloads m) ->
    container_encode (m_payloads m) = Ok plain ->
    length iv = 16%nat -> (length pad <= 255)%nat -> ((length plain + length pad + 1) mod 16 = 0)%nat ->
    let padded := plain ++ pad ++ [n2b (N.of_nat (length pad))] in
    let ct := iv ++ cbc_enc (aes_enc (send_key sa role)) (length padded / 16) iv padded in
    let nxt := first_type (m_payloads m) in
    let icv := integ_outlen (sa_integ sa) in
    4 + (len ct + N.of_nat icv) < 65536 ->
    let covered := sk_prefix (m_hdr m) nxt (len ct + N.of_nat icv) ++ ct in
    let b := covered ++ mac sa role covered in
    forall hdr, (hdr = None \/ exists pb, parse_header b = Ok (set_next (m_hdr m) 46, pb) /\ hdr = Some (set_next (m_hdr m) 46)) ->
    exists k2',
      decode_decrypt digest aes_dec b hdr (Some sa2) (negb role) =
        (Ok (mkMsg (set_next (m_hdr m) 46) (map norm_payload (m_payloads m))), Some k2', [CDec role]) /\ sa_eqk sa2 k2'.
  Proof.
    intros Hwf Hwf2 Heq Hd Hc Ece Liv Lpad M16 padded ct nxt icv Hfit covered b hdr Hhdr.
    assert (Hdec : aes_decrypt aes_dec (send_key sa role) ct = Ok plain)
      by (apply (aes_decrypt_any_padding aes_enc aes_dec blk); assumption).
    assert (Hct0 : ct <> []) by (unfold ct; destruct iv; [discriminate Liv|discriminate]).
    exact (tagged_accepted sa sa2 role m plain ct Hwf Hwf2 Heq Hd Hc Ece Hdec Hct0 Hfit hdr Hhdr).
  Qed.

  (* ---------- C02: every way an unprotection can end ---------- *)
  Lemma decrypt_msg_nocall raw m k role r k' :
    decrypt_msg digest aes_dec raw m k role = (r, k', []) -> forall m', r <> Ok m'.
  Proof.
    unfold decrypt_msg.
    repeat (match goal with |- context [match ?x with _ => _ end] => destruct x eqn:? end);
      intros Hq m' ->; inversion Hq.
  Qed.

  Theorem unprotect_outcomes raw hdr k role :
    sa_wf k ->
    let '(r, _, calls) := decode_decrypt digest aes_dec raw hdr (Some k) role in
    (* refused, or not an SK datagram and handled as an unprotected one: no cipher call, no key applied *)
    (calls = [] /\ (r = Err \/ exists m0, parsed_of raw hdr = Ok m0 /\ first_is_sk (m_payloads m0) = false /\ r = Ok m0))
    (* or the checksum over the received octets was valid under the peer direction's key, then one cipher call *)
    \/ (calls = [CDec (negb role)] /\ valid_tagged k (negb role) raw /\ Thm.NoFault.safe r).
  Proof.
    intros Hwf.
    pose proof (decode_decrypt_safe digest aes_enc aes_dec digest_len blk raw hdr (Some k) role) as Sf.
    pose proof (cipher_called_only_after_valid_tag raw hdr k role Hwf) as Hc.
    unfold decode_decrypt in *. fold (parsed_of raw hdr) in *.
    assert (Sf' := Sf (fun k0 Hk => ltac:(injection Hk as <-; exact Hwf))). clear Sf.
    destruct (parsed_of raw hdr) as [m| | |] eqn:Pm; cbn [fst] in Sf'.
    - destruct (length (m_payloads m) =? 0)%nat eqn:E0.
      + destruct (h_next (m_hdr m) =? 46); left; (split; [reflexivity|]); [now left|].
        right. exists m. split; [reflexivity|]. split; [|reflexivity].
        destruct (m_payloads m); [reflexivity|discriminate E0].
      + destruct (first_is_sk (m_payloads m)) eqn:Fs.
        * destruct (decrypt_msg digest aes_dec raw m k role) as [[r k'] calls] eqn:Dm. cbn [fst] in Sf'.
          destruct Hc as [Hc|[Hc Hv]].
          -- subst calls. left. split; [reflexivity|]. left.
             pose proof (decrypt_msg_nocall _ _ _ _ _ _ Dm) as Hn. destruct Sf' as [S1 S2].
             destruct r; [exfalso; eapply Hn; reflexivity|reflexivity|congruence|congruence].
          -- right. auto.
        * left. split; [reflexivity|]. right. exists m. auto.
    - left. split; [reflexivity|]. now left.
    - destruct Sf' as [S1 _]. congruence.
    - destruct Sf' as [_ S2]. congruence.
  Qed.

  (* split a datagram at the checksum *)
  Lemma valid_tagged_split k role c t :
    length t = integ_outlen (sa_integ k) -> valid_tagged k role (c ++ t) -> t = mac k role c.
  Proof.
    intros Lt (_ & Hv). rewrite app_length, Lt in Hv.
    replace (length c + integ_outlen (sa_integ k) - integ_outlen (sa_integ k))%nat with (length c) in Hv by lia.
    rewrite firstn_app_len in Hv by reflexivity. now apply app_inv_head in Hv.
  Qed.

  (* any datagram c ++ t whose last icv octets are not the MAC of the rest: the cipher is never called, and the
     datagram is refused unless it no longer presents an Encrypted payload *)
  Theorem bad_tag_refused raw hdr k role c t :
    sa_wf k -> raw = c ++ t -> length t = integ_outlen (sa_integ k) -> t <> mac k (negb role) c ->
    let '(r, _, calls) := decode_decrypt digest aes_dec raw hdr (Some k) role in
    calls = [] /\ (r = Err \/ exists m0, parsed_of raw hdr = Ok m0 /\ first_is_sk (m_payloads m0) = false /\ r = Ok m0).
  Proof.
    intros Hwf -> Lt Hne. pose proof (unprotect_outcomes (c ++ t) hdr k role Hwf) as Ho.
    destruct (decode_decrypt digest aes_dec (c ++ t) hdr (Some k) role) as [[r k'] calls].
    destruct Ho as [Ho|(_ & Hv & _)]; [exact Ho|]. exfalso. apply Hne. now apply valid_tagged_split.
  Qed.

  (* shorter than a checksum: never reaches the cipher *)
  Theorem too_short_refused raw hdr k role :
    sa_wf k -> (length raw < integ_outlen (sa_integ k))%nat ->
    let '(r, _, calls) := decode_decrypt digest aes_dec raw hdr (Some k) role in
    calls = [] /\ (r = Err \/ exists m0, parsed_of raw hdr = Ok m0 /\ first_is_sk (m_payloads m0) = false /\ r = Ok m0).
  Proof.
    intros Hwf Hs. pose proof (unprotect_outcomes raw hdr k role Hwf) as Ho.
    destruct (decode_decrypt digest aes_dec raw hdr (Some k) role) as [[r k'] calls].
    destruct Ho as [Ho|(_ & (Hv & _) & _)]; [exact Ho|]. lia.
  Qed.

  (* a genuine message c ++ mac sa role c presented to ANY key set k as receiver role r2: the cipher is reached only
     if the receiver's expected MAC coincides with the sender's - for the peer role and the same keys that is
     the accepted case (C01); for the sender's own role (reflection) or for other keys it is an HMAC coincidence *)
  Theorem genuine_under_other_keys sa role c hdr k r2 :
    sa_wf k -> integ_outlen (sa_integ k) = integ_outlen (sa_integ sa) -> sa_wf sa ->
    let b := c ++ mac sa role c in
    let '(r, _, calls) := decode_decrypt digest aes_dec b hdr (Some k) r2 in
    mac sa role c = mac k (negb r2) c \/
    (calls = [] /\ (r = Err \/ exists m0, parsed_of b hdr = Ok m0 /\ first_is_sk (m_payloads m0) = false /\ r = Ok m0)).
  Proof.
    intros Hwf Hi Hwfs b.
    destruct (list_eq_dec Byte.byte_eq_dec (mac sa role c) (mac k (negb r2) c)) as [He|Hne]; [destruct (decode_decrypt _ _ _ _ _ _) as [[? ?] ?]; now left|].
    pose proof (bad_tag_refused b hdr k r2 c (mac sa role c) Hwf eq_refl) as Hb.
    rewrite mac_length in Hb by assumption. specialize (Hb (eq_sym Hi) Hne).
    destruct (decode_decrypt digest aes_dec b hdr (Some k) r2) as [[r k'] calls]. now right.
  Qed.
End SK.
