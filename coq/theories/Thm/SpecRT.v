(* The two halves of the independent RFC 7296 codec of Spec/ agree with each other: the strict parser Spec/WireParse.v
   recovers every field - reserved ones included - of every well-formed syntax tree from the octets Spec/Wire.v emits:
   wparse (wenc w) = Some w.  (The implementation is related to wenc by C05's theorems; this file is about the Spec
   alone: the harness uses wparse as the independent decoder of the implementation's output.) *)
From IKE Require Import Lib.Base Lib.BaseLemmas Thm.Tactics Thm.ConsLemmas Thm.BitLemmas Impl.Msg Impl.Payloads Impl.Message
     Spec.Wire Spec.WireParse Thm.EapRT Thm.RoundTrip Thm.EncodeSpec.
Local Open Scope N_scope.

(* ---------- the token readers ---------- *)
Lemma tk_app (a b : bytes) n : n = length a -> tk n (a ++ b) = Some (a, b).
Proof.
  intros ->. unfold tk. rewrite app_length. replace (length a + length b <? length a)%nat with false by (symmetry; apply Nat.ltb_ge; lia).
  now rewrite firstn_app_len, skipn_app_len.
Qed.

Lemma tk16_be16 v r : v < 65536 -> tk16 (be16 v ++ r) = Some (v, r).
Proof. intros H. unfold tk16, be16. rewrite tk_app by reflexivity. cbn [obind]. now rewrite be_val_be16. Qed.

Lemma tk32_be32 v r : v < 4294967296 -> tk32 (be32 v ++ r) = Some (v, r).
Proof. intros H. unfold tk32, be32. rewrite tk_app by reflexivity. cbn [obind]. now rewrite be_val_be32. Qed.

Lemma tk1_cons x r : tk1 (x :: r) = Some (b2n x, r).
Proof. reflexivity. Qed.

Lemma tk64_be64 v r : v < 18446744073709551616 -> tk64 (be64 v ++ r) = Some (v, r).
Proof.
  intros H. unfold tk64.
  change (be64 v ++ r) with ([n2b (v / 4294967296 / 16777216); n2b (v / 4294967296 / 65536); n2b (v / 4294967296 / 256); n2b (v / 4294967296);
                              n2b (v / 16777216); n2b (v / 65536); n2b (v / 256); n2b v] ++ r).
  rewrite tk_app by reflexivity. cbn [obind]. now rewrite be_val_be64'.
Qed.

Lemma tk1_n2b v r : v < 256 -> tk1 (n2b v :: r) = Some (v, r).
Proof. intros H. cbn [tk1]. now rewrite b2n_n2b_small. Qed.

(* ---------- attributes ---------- *)
Definition wf_wattr (a : wattr) : Prop :=
  match a with WTV t v => t < 32768 /\ v < 65536 | WTLV t v => t < 32768 /\ len v < 65536 end.

Lemma parse_attrs_rt l : forall fuel, Forall wf_wattr l -> (length l < fuel)%nat ->
  parse_attrs fuel (concat (map wenc_attr l)) = Some l.
Proof.
  induction l as [|a r IH]; intros fuel Hw Hf; (destruct fuel as [|f]; [cbn in Hf; lia|]); [reflexivity|].
  inversion Hw as [|? ? Ha Hr]; subst. cbn [map concat]. cbn [length] in Hf.
  destruct a as [t v|t v]; cbn [wenc_attr wf_wattr] in *; destruct Ha as [Ht Hv].
  - rewrite <- !app_assoc. cbn [parse_attrs]. unfold be16 at 1. cbn [app]. fold (be16 (32768 + t)).
    change (n2b ((32768 + t) / 256) :: n2b (32768 + t) :: be16 v ++ concat (map wenc_attr r)) with (be16 (32768 + t) ++ be16 v ++ concat (map wenc_attr r)).
    rewrite tk16_be16 by lia. cbn [obind]. rewrite tk16_be16 by lia. cbn [obind].
    replace (32768 <=? 32768 + t) with true by (symmetry; apply N.leb_le; lia).
    rewrite IH by (auto; lia). cbn [obind]. do 3 f_equal. lia.
  - rewrite <- !app_assoc. cbn [parse_attrs]. unfold be16 at 1. cbn [app].
    change (n2b (t / 256) :: n2b t :: be16 (len v) ++ v ++ concat (map wenc_attr r)) with (be16 t ++ be16 (len v) ++ v ++ concat (map wenc_attr r)).
    rewrite tk16_be16 by lia. cbn [obind]. rewrite tk16_be16 by lia. cbn [obind].
    replace (32768 <=? t) with false by (symmetry; apply N.leb_gt; lia).
    rewrite tk_app by (unfold len; lia). cbn [obind]. rewrite IH by (auto; lia). reflexivity.
Qed.

Lemma attrs_count_le l : (length l <= length (concat (map wenc_attr l)))%nat.
Proof.
  induction l as [|a r IH]; [cbn; lia|]. cbn [map concat length]. rewrite app_length.
  destruct a; cbn [wenc_attr]; rewrite ?app_length; cbn [be16 length]; lia.
Qed.

(* ---------- transforms ---------- *)
Definition swf_transform (t : wtransform) : Prop :=
  wt_res1 t < 256 /\ wt_type t < 256 /\ wt_res2 t < 256 /\ wt_id t < 65536 /\ Forall wf_wattr (wt_attrs t) /\
  8 + len (concat (map wenc_attr (wt_attrs t))) < 65536.

Lemma wenc_list_nil {A} (f : bool -> A -> bytes) l : (forall m x, f m x <> []) -> (wenc_list f l = [] <-> l = []).
Proof.
  intros Hf. destruct l as [|x r]; [tauto|]. cbn [wenc_list]. split; [|discriminate].
  intros H. apply app_eq_nil in H. destruct H as [H _]. now apply Hf in H.
Qed.

Lemma wenc_transform_ne m t : wenc_transform m t <> [].
Proof. unfold wenc_transform. discriminate. Qed.

Lemma more_marker {A} (r : list A) (enc : bytes) x y :
  (enc = [] <-> r = []) ->
  (if (match r with [] => false | _ => true end) then x else y) = (match enc with [] => y | _ => x end : byte).
Proof. intros H. destruct r, enc; try reflexivity; exfalso; [destruct H as [_ H]; discriminate (H eq_refl)|destruct H as [H _]; discriminate (H eq_refl)]. Qed.

Lemma parse_transforms_rt l : forall fuel, Forall swf_transform l -> (length l < fuel)%nat ->
  parse_transforms fuel (wenc_list wenc_transform l) = Some l.
Proof.
  induction l as [|t r IH]; intros fuel Hw Hf; (destruct fuel as [|f]; [cbn in Hf; lia|]); [reflexivity|].
  inversion Hw as [|? ? Ht Hr]; subst. destruct Ht as (H1 & H2 & H3 & H4 & Ha & Hl). cbn [length] in Hf.
  cbn [wenc_list]. unfold wenc_transform at 1.
  set (a := concat (map wenc_attr (wt_attrs t))) in *. set (rest := wenc_list wenc_transform r) in *.
  set (mk := if match r with [] => false | _ => true end then x03 else x00).
  rewrite <- !app_assoc. cbn [app parse_transforms]. cbn [tk1 obind].
  rewrite b2n_n2b_small by lia. rewrite tk16_be16 by lia. cbn [obind].
  replace (8 <=? 8 + len a) with true by (symmetry; apply N.leb_le; lia). cbn [oguard obind].
  change (n2b (wt_type t) :: n2b (wt_res2 t) :: be16 (wt_id t) ++ a ++ rest)
    with (([n2b (wt_type t); n2b (wt_res2 t)] ++ be16 (wt_id t) ++ a) ++ rest).
  rewrite tk_app by (unfold len; len_norm; lia). cbn [obind].
  assert (Hmk : (b2n mk =? match rest with [] => 0 | _ => 3 end) = true).
  { unfold mk. destruct r as [|t2 r2]; [reflexivity|]. unfold rest. cbn [wenc_list]. unfold wenc_transform at 1. reflexivity. }
  rewrite Hmk. cbn [oguard obind app tk1]. rewrite !b2n_n2b_small by lia. cbn [obind].
  rewrite tk16_be16 by lia. cbn [obind].
  unfold a. rewrite parse_attrs_rt by (auto; pose proof (attrs_count_le (wt_attrs t)); lia).
  cbn [obind]. rewrite IH by (auto; lia). cbn [obind]. destruct t; reflexivity.
Qed.

(* ---------- proposals ---------- *)
Definition swf_proposal (p : wproposal) : Prop :=
  wp_res p < 256 /\ wp_num p < 256 /\ wp_proto p < 256 /\ len (wp_spi p) <= 255 /\ len (wp_transforms p) <= 255 /\
  Forall swf_transform (wp_transforms p) /\ 8 + len (wp_spi p) + len (wenc_list wenc_transform (wp_transforms p)) < 65536.

Lemma list_count_le {A} (f : bool -> A -> bytes) l : (forall m x, f m x <> []) -> (length l <= length (wenc_list f l))%nat.
Proof.
  intros Hf. induction l as [|x r IH]; [cbn; lia|]. cbn [wenc_list length]. rewrite app_length.
  specialize (Hf (match r with [] => false | _ => true end) x). destruct (f _ x); [congruence|cbn [length]; lia].
Qed.

Lemma wenc_proposal_ne m p : wenc_proposal m p <> [].
Proof. unfold wenc_proposal. discriminate. Qed.

Lemma parse_proposals_rt l : forall fuel, Forall swf_proposal l -> (length l < fuel)%nat ->
  parse_proposals fuel (wenc_list wenc_proposal l) = Some l.
Proof.
  induction l as [|p r IH]; intros fuel Hw Hf; (destruct fuel as [|f]; [cbn in Hf; lia|]); [reflexivity|].
  inversion Hw as [|? ? Hp Hr]; subst. destruct Hp as (H1 & H2 & H3 & H4 & H5 & Ht & Hl). cbn [length] in Hf.
  cbn [wenc_list]. unfold wenc_proposal at 1.
  set (td := wenc_list wenc_transform (wp_transforms p)) in *. set (rest := wenc_list wenc_proposal r) in *.
  set (mk := if match r with [] => false | _ => true end then x02 else x00).
  rewrite <- !app_assoc. cbn [app parse_proposals]. cbn [tk1 obind].
  rewrite b2n_n2b_small by lia. rewrite tk16_be16 by lia. cbn [obind].
  replace (8 <=? 8 + len (wp_spi p) + len td) with true by (symmetry; apply N.leb_le; lia). cbn [oguard obind].
  replace (n2b (wp_num p) :: n2b (wp_proto p) :: n2b (len (wp_spi p)) :: n2b (len (wp_transforms p)) :: wp_spi p ++ td ++ rest)
    with (([n2b (wp_num p); n2b (wp_proto p); n2b (len (wp_spi p)); n2b (len (wp_transforms p))] ++ wp_spi p ++ td) ++ rest)
    by (cbn [app]; now rewrite <- app_assoc).
  rewrite tk_app by (unfold len; len_norm; lia). cbn [obind].
  assert (Hmk : (b2n mk =? match rest with [] => 0 | _ => 2 end) = true).
  { unfold mk. destruct r as [|p2 r2]; [reflexivity|]. unfold rest. cbn [wenc_list]. unfold wenc_proposal at 1. reflexivity. }
  rewrite Hmk. cbn [oguard obind app tk1]. rewrite !b2n_n2b_small by lia. cbn [obind].
  rewrite tk_app by (unfold len; lia). cbn [obind].
  unfold td. rewrite parse_transforms_rt by (auto; pose proof (list_count_le wenc_transform (wp_transforms p) wenc_transform_ne); lia).
  cbn [obind]. rewrite N.eqb_refl. cbn [oguard obind]. rewrite IH by (auto; lia). cbn [obind]. destruct p; reflexivity.
Qed.

(* ---------- selectors, configuration attributes, delete SPIs ---------- *)
Lemma parse_selectors_rt l : forall rest, Forall wf_selector l ->
  parse_selectors (length l) (concat (map wenc_selector l) ++ rest) = Some (l, rest).
Proof.
  induction l as [|s r IH]; intros rest Hw; [reflexivity|].
  inversion Hw as [|? ? Hs Hr]; subst. destruct Hs as (Hp & Hsp & Hep & Hty).
  cbn [length map concat parse_selectors]. unfold wenc_selector at 1.
  assert (Hl : exists al, length (ts_saddr s) = al /\ length (ts_eaddr s) = al /\ (al = 4 \/ al = 16)%nat /\ ts_type s < 256).
  { destruct Hty as [(Ht & L1 & L2)|(Ht & L1 & L2)]; [exists 4%nat|exists 16%nat]; rewrite Ht; repeat split; auto; lia. }
  destruct Hl as (al & L1 & L2 & Hal & Ht).
  rewrite <- !app_assoc. cbn [app tk1 obind]. rewrite !b2n_n2b_small by lia.
  rewrite tk16_be16 by (unfold len; lia). cbn [obind].
  rewrite tk16_be16 by lia. cbn [obind]. rewrite tk16_be16 by lia. cbn [obind].
  set (l := 8 + len (ts_saddr s) + len (ts_eaddr s)).
  assert (El : l = 8 + 2 * N.of_nat al) by (unfold l, len; lia).
  replace ((8 <=? l) && ((l - 8) mod 2 =? 0)) with true
    by (symmetry; apply andb_true_iff; split; [apply N.leb_le; lia|apply N.eqb_eq; rewrite El; replace (8 + 2 * N.of_nat al - 8) with (N.of_nat al * 2) by lia; apply N.mod_mul; lia]).
  cbn [oguard obind].
  replace (N.to_nat ((l - 8) / 2)) with al by (rewrite El; replace (8 + 2 * N.of_nat al - 8) with (N.of_nat al * 2) by lia; rewrite N.div_mul by lia; lia).
  rewrite tk_app by (symmetry; exact L1). cbn [obind]. rewrite tk_app by (symmetry; exact L2). cbn [obind].
  rewrite IH by assumption. cbn [obind]. destruct s; reflexivity.
Qed.

Lemma parse_cpattrs_rt l : forall fuel, Forall wf_wcpattr l -> (length l < fuel)%nat ->
  parse_cpattrs fuel (concat (map wenc_cpattr l)) = Some l.
Proof.
  induction l as [|a r IH]; intros fuel Hw Hf; (destruct fuel as [|f]; [cbn in Hf; lia|]); [reflexivity|].
  inversion Hw as [|? ? Ha Hr]; subst. destruct Ha as (H1 & H2 & H3). cbn [length] in Hf.
  cbn [map concat]. unfold wenc_cpattr at 1. rewrite <- !app_assoc. cbn [parse_cpattrs].
  unfold be16 at 1. cbn [app].
  change (n2b ((wca_r a * 32768 + wca_type a) / 256) :: n2b (wca_r a * 32768 + wca_type a) :: be16 (len (wca_value a)) ++ wca_value a ++ concat (map wenc_cpattr r))
    with (be16 (wca_r a * 32768 + wca_type a) ++ be16 (len (wca_value a)) ++ wca_value a ++ concat (map wenc_cpattr r)).
  rewrite tk16_be16 by lia. cbn [obind]. rewrite tk16_be16 by lia. cbn [obind].
  rewrite tk_app by (unfold len; lia). cbn [obind]. rewrite IH by (auto; lia). cbn [obind].
  replace ((wca_r a * 32768 + wca_type a) / 32768) with (wca_r a) by lia.
  replace ((wca_r a * 32768 + wca_type a) mod 32768) with (wca_type a) by lia.
  destruct a; reflexivity.
Qed.

Lemma cpattrs_count_le l : (length l <= length (concat (map wenc_cpattr l)))%nat.
Proof.
  induction l as [|a r IH]; [cbn; lia|]. cbn [map concat length]. rewrite app_length.
  assert (1 <= length (wenc_cpattr a))%nat by (unfold wenc_cpattr; rewrite app_length; cbn [be16 length]; lia). lia.
Qed.

Lemma parse_chunks_rt l sz : Forall (fun s => length s = sz) l -> parse_chunks (length l) sz (concat l) = Some l.
Proof.
  induction l as [|x r IH]; intros Hw; [reflexivity|]. inversion Hw as [|? ? Hx Hr]; subst.
  cbn [length concat parse_chunks]. rewrite tk_app by reflexivity. cbn [obind]. now rewrite IH.
Qed.

(* ---------- payload bodies ---------- *)
Definition swf_body (b : wbody) : Prop :=
  match b with
  | WSA props => Forall swf_proposal props
  | WKE g res _ => g < 65536 /\ length res = 2%nat
  | WID _ t res _ | WAUTH t res _ => t < 256 /\ length res = 3%nat
  | WCERT e _ | WCERTREQ e _ => e < 256
  | WNonce _ | WVendor _ | WSK _ | WEAP _ => True
  | WNotify proto nt spi _ => proto < 256 /\ nt < 65536 /\ len spi <= 255
  | WDelete proto sz spis => proto < 256 /\ sz < 256 /\ len spis < 65536 /\ Forall (fun s => length s = N.to_nat sz) spis
  | WTS _ res sels => length res = 3%nat /\ len sels <= 255 /\ Forall wf_selector sels
  | WCP ct res attrs => ct < 256 /\ length res = 3%nat /\ Forall wf_wcpattr attrs
  | WOther ty _ => supported ty = false
  end.

Lemma parse_body_rt b : swf_body b -> parse_body (wtype b) (wenc_body b) = Some b.
Proof.
  destruct b as [props|g res d|ini t res d|e d|e d|m res d|d|proto nt spi d|proto sz spis|d|ini res sels|d|ct res attrs|pkt|ty d];
    cbn [swf_body wtype wenc_body]; intros Hw.
  - unfold parse_body. change (33 =? 33) with true. cbv iota.
    rewrite parse_proposals_rt by (auto; pose proof (list_count_le wenc_proposal props wenc_proposal_ne); lia). reflexivity.
  - destruct Hw as [Hg Lr]. unfold parse_body. change (34 =? 33) with false. change (34 =? 34) with true. cbv iota.
    rewrite tk16_be16 by lia. cbn [obind]. rewrite tk_app by (symmetry; exact Lr). reflexivity.
  - destruct Hw as [Ht Lr]. destruct ini; unfold parse_body; cbn [wtype].
    + change (35 =? 33) with false. change (35 =? 34) with false. change ((35 =? 35) || (35 =? 36)) with true. cbv iota.
      cbn [app tk1 obind]. rewrite b2n_n2b_small by lia. rewrite tk_app by (symmetry; exact Lr). reflexivity.
    + change (36 =? 33) with false. change (36 =? 34) with false. change ((36 =? 35) || (36 =? 36)) with true. cbv iota.
      cbn [app tk1 obind]. rewrite b2n_n2b_small by lia. rewrite tk_app by (symmetry; exact Lr). reflexivity.
  - unfold parse_body. change (37 =? 33) with false. change (37 =? 34) with false. change ((37 =? 35) || (37 =? 36)) with false.
    change (37 =? 37) with true. cbv iota. cbn [app tk1 obind]. now rewrite b2n_n2b_small by lia.
  - unfold parse_body. change (38 =? 33) with false. change (38 =? 34) with false. change ((38 =? 35) || (38 =? 36)) with false.
    change (38 =? 37) with false. change (38 =? 38) with true. cbv iota. cbn [app tk1 obind]. now rewrite b2n_n2b_small by lia.
  - destruct Hw as [Ht Lr]. unfold parse_body. change (39 =? 33) with false. change (39 =? 34) with false. change ((39 =? 35) || (39 =? 36)) with false.
    change (39 =? 37) with false. change (39 =? 38) with false. change (39 =? 39) with true. cbv iota.
    cbn [app tk1 obind]. rewrite b2n_n2b_small by lia. rewrite tk_app by (symmetry; exact Lr). reflexivity.
  - reflexivity.
  - destruct Hw as (Hp & Hn & Hs). unfold parse_body.
    change (41 =? 33) with false. change (41 =? 34) with false. change ((41 =? 35) || (41 =? 36)) with false. change (41 =? 37) with false.
    change (41 =? 38) with false. change (41 =? 39) with false. change (41 =? 40) with false. change (41 =? 41) with true. cbv iota.
    rewrite <- ?app_assoc. cbn [app tk1 obind]. rewrite !b2n_n2b_small by lia. rewrite tk16_be16 by lia. cbn [obind].
    rewrite tk_app by (unfold len; lia). reflexivity.
  - destruct Hw as (Hp & Hz & Hn & Hc). unfold parse_body.
    change (42 =? 33) with false. change (42 =? 34) with false. change ((42 =? 35) || (42 =? 36)) with false. change (42 =? 37) with false.
    change (42 =? 38) with false. change (42 =? 39) with false. change (42 =? 40) with false. change (42 =? 41) with false. change (42 =? 42) with true. cbv iota.
    rewrite <- ?app_assoc. cbn [app tk1 obind]. rewrite !b2n_n2b_small by lia. rewrite tk16_be16 by lia. cbn [obind].
    replace (N.to_nat (len spis)) with (length spis) by (unfold len; lia). rewrite parse_chunks_rt by assumption. reflexivity.
  - reflexivity.
  - destruct Hw as (Lr & Hn & Hs). destruct ini; unfold parse_body; cbn [wtype].
    + change (44 =? 33) with false. change (44 =? 34) with false. change ((44 =? 35) || (44 =? 36)) with false. change (44 =? 37) with false.
      change (44 =? 38) with false. change (44 =? 39) with false. change (44 =? 40) with false. change (44 =? 41) with false. change (44 =? 42) with false.
      change (44 =? 43) with false. change ((44 =? 44) || (44 =? 45)) with true. cbv iota.
      rewrite <- ?app_assoc. cbn [app tk1 obind]. rewrite b2n_n2b_small by lia. rewrite tk_app by (symmetry; exact Lr). cbn [obind].
      replace (N.to_nat (len sels)) with (length sels) by (unfold len; lia).
      rewrite <- (app_nil_r (concat (map wenc_selector sels))). rewrite parse_selectors_rt by assumption. reflexivity.
    + change (45 =? 33) with false. change (45 =? 34) with false. change ((45 =? 35) || (45 =? 36)) with false. change (45 =? 37) with false.
      change (45 =? 38) with false. change (45 =? 39) with false. change (45 =? 40) with false. change (45 =? 41) with false. change (45 =? 42) with false.
      change (45 =? 43) with false. change ((45 =? 44) || (45 =? 45)) with true. cbv iota.
      rewrite <- ?app_assoc. cbn [app tk1 obind]. rewrite b2n_n2b_small by lia. rewrite tk_app by (symmetry; exact Lr). cbn [obind].
      replace (N.to_nat (len sels)) with (length sels) by (unfold len; lia).
      rewrite <- (app_nil_r (concat (map wenc_selector sels))). rewrite parse_selectors_rt by assumption. reflexivity.
  - reflexivity.
  - destruct Hw as (Hc & Lr & Ha). unfold parse_body.
    change (47 =? 33) with false. change (47 =? 34) with false. change ((47 =? 35) || (47 =? 36)) with false. change (47 =? 37) with false.
    change (47 =? 38) with false. change (47 =? 39) with false. change (47 =? 40) with false. change (47 =? 41) with false. change (47 =? 42) with false.
    change (47 =? 43) with false. change ((47 =? 44) || (47 =? 45)) with false. change (47 =? 46) with false. change (47 =? 47) with true. cbv iota.
    rewrite <- ?app_assoc. cbn [app tk1 obind]. rewrite b2n_n2b_small by lia. rewrite tk_app by (symmetry; exact Lr). cbn [obind].
    rewrite parse_cpattrs_rt by (auto; pose proof (cpattrs_count_le attrs); lia). reflexivity.
  - reflexivity.
  - unfold supported in Hw. unfold parse_body.
    assert (H : ty < 33 \/ 48 < ty).
    { apply andb_false_iff in Hw. destruct Hw as [H|H]; [apply N.leb_gt in H|apply N.leb_gt in H]; lia. }
    repeat match goal with |- context [ty =? ?k] => replace (ty =? k) with false by (symmetry; apply N.eqb_neq; lia) end.
    reflexivity.
Qed.

(* ---------- the chain and the message ---------- *)
Definition swf_payload (p : wpayload) : Prop :=
  wpl_res p < 128 /\ swf_body (wpl_body p) /\ 4 + len (wenc_body (wpl_body p)) < 65536 /\
  wtype (wpl_body p) <> 0 /\ wtype (wpl_body p) < 256.

Lemma parse_chain_rt l : forall fuel last, Forall swf_payload l -> (length l < fuel)%nat -> last < 256 ->
  parse_chain fuel (chain_next last l) (wenc_chain last l) = Some (l, last).
Proof.
  induction l as [|p r IH]; intros fuel last Hw Hf Hlast; (destruct fuel as [|f]; [cbn in Hf; lia|]); [reflexivity|].
  inversion Hw as [|? ? Hp Hr]; subst. destruct Hp as (Hres & Hb & Hl & Hne & Hty). cbn [length] in Hf.
  rewrite wenc_chain_cons. cbn [chain_next]. unfold wenc_payload.
  set (body := wenc_body (wpl_body p)) in *. set (rest := wenc_chain last r).
  assert (Hn : chain_next last r < 256).
  { destruct r as [|q r']; [exact Hlast|]. inversion Hr as [|? ? (_ & _ & _ & _ & Hq) _]; subst. exact Hq. }
  rewrite <- !app_assoc. cbn [app parse_chain].
  replace (wtype (wpl_body p) =? 0) with false by (symmetry; apply N.eqb_neq; exact Hne). cbn [negb oguard obind tk1].
  set (fl := (if wpl_critical p then 128 else 0) + wpl_res p).
  assert (Hfl : fl < 256) by (unfold fl; destruct (wpl_critical p); lia).
  rewrite !b2n_n2b_small by lia. rewrite tk16_be16 by lia. cbn [obind].
  replace (4 <=? 4 + len body) with true by (symmetry; apply N.leb_le; lia). cbn [oguard obind].
  rewrite tk_app by (unfold len; lia). cbn [obind].
  unfold body. rewrite parse_body_rt by assumption. cbn [obind].
  rewrite IH by (auto; lia). cbn [obind].
  assert (Hc : (128 <=? fl) = wpl_critical p) by (unfold fl; destruct (wpl_critical p); [apply N.leb_le|apply N.leb_gt]; lia).
  assert (Hm : fl mod 128 = wpl_res p) by (unfold fl; destruct (wpl_critical p); lia).
  rewrite Hc, Hm. destruct p; reflexivity.
Qed.

Definition swf_msg (w : wmsg) : Prop :=
  wf_wheader (wm_hdr w) /\ Forall swf_payload (wm_payloads w) /\ wm_sk_next w < 256 /\
  28 + len (wenc_chain (wm_sk_next w) (wm_payloads w)) < 4294967296 /\
  (wm_sk_next w = 0 \/ last_is_sk (wm_payloads w) = true).

Lemma chain_count_le last l : (length l <= length (wenc_chain last l))%nat.
Proof.
  induction l as [|p r IH]; [cbn; lia|]. rewrite wenc_chain_cons, app_length. unfold wenc_payload. cbn [app length]. lia.
Qed.

(* the strict parser is a left inverse of the encoder on well-formed trees: every field, reserved ones included *)
Theorem wparse_wenc w : swf_msg w -> wparse (wenc w) = Some w.
Proof.
  intros (Hh & Hp & Hn & Ht & Hfin). destruct Hh as (H1 & H2 & H3 & H4 & H5 & H6 & H7).
  unfold wenc, wenc_header. set (c := wenc_chain (wm_sk_next w) (wm_payloads w)) in *.
  set (first := wfirst (wm_payloads w)).
  assert (Hfirst : first < 256 /\ first = chain_next (if match wm_payloads w with [] => true | _ => false end then 0 else wm_sk_next w) (wm_payloads w)).
  { unfold first. destruct (wm_payloads w) as [|p r]; [split; [cbn; lia|reflexivity]|]. inversion Hp as [|? ? (_ & _ & _ & _ & Hq) _]; subst. split; [exact Hq|reflexivity]. }
  destruct Hfirst as [Hf1 Hf2].
  pose proof (version_octet_split _ _ H3 H4) as (V1 & V2 & V3).
  unfold wparse. rewrite <- !app_assoc.
  assert (Lw : len (be64 (wh_ispi (wm_hdr w)) ++ be64 (wh_rspi (wm_hdr w)) ++
                    [n2b first; n2b (wh_major (wm_hdr w) * 16 + wh_minor (wm_hdr w)); n2b (wh_exch (wm_hdr w)); n2b (wh_flags (wm_hdr w))] ++
                    be32 (wh_mid (wm_hdr w)) ++ be32 (28 + len c) ++ c) = 28 + len c) by (unfold len; len_norm; lia).
  rewrite Lw. rewrite tk64_be64 by lia. cbn [obind]. rewrite tk64_be64 by lia. cbn [obind app tk1].
  rewrite !b2n_n2b_small by lia. cbn [obind]. rewrite tk32_be32 by lia. cbn [obind]. rewrite tk32_be32 by lia. cbn [obind].
  rewrite N.eqb_refl. cbn [oguard obind].
  assert (Hc : parse_chain (S (length c)) first c = Some (wm_payloads w, wm_sk_next w)).
  { pose proof (chain_count_le (wm_sk_next w) (wm_payloads w)) as Hcnt. fold c in Hcnt.
    destruct (wm_payloads w) as [|p r] eqn:Ep.
    - destruct Hfin as [Hz|Hz]; [|discriminate Hz]. unfold c, first. rewrite Hz. reflexivity.
    - rewrite Hf2. unfold c in *. apply parse_chain_rt; [exact Hp|lia|exact Hn]. }
  rewrite Hc. cbn [obind].
  replace ((wm_sk_next w =? 0) || last_is_sk (wm_payloads w)) with true
    by (symmetry; destruct Hfin as [Hz|Hz]; rewrite Hz; [reflexivity|apply orb_true_r]).
  cbn [oguard obind]. rewrite V1, V2. destruct w as [[? ? ? ? ? ? ?] ? ?]. reflexivity.
Qed.

(* ---------- the receiver-side well-formedness of RoundTrip.v implies the parser's ---------- *)
Lemma wf_swf_transform t : wf_wtransform t -> swf_transform t.
Proof.
  intros Hw. pose proof (attrs_len_bound t Hw) as Hb. destruct Hw as (H1 & H2 & H3 & H4 & Ha).
  unfold swf_transform. repeat split; auto.
  destruct (wt_attrs t) as [|[at' av|at' v] [|? ?]]; cbn in Ha; try tauto; repeat constructor; cbn; lia.
Qed.

Lemma wf_swf_proposal p : wf_wproposal p -> swf_proposal p.
Proof.
  intros (H1 & H2 & H3 & H4 & H5 & Ht & Hl). unfold swf_proposal. repeat split; auto.
  eapply Forall_impl; [|exact Ht]. apply wf_swf_transform.
Qed.

Lemma wf_swf_body b : wf_wbody b -> swf_body b.
Proof.
  destruct b; cbn [wf_wbody swf_body]; try tauto.
  - intros H. eapply Forall_impl; [|exact H]. apply wf_swf_proposal.
  - intros (Hp & Hn & Hs & Hc). repeat split; auto. destruct Hs as [[_ Hs]|Hs]; lia.
Qed.

Lemma wf_swf_payload p : wf_wpayload p -> wtype (wpl_body p) <> 0 -> swf_payload p.
Proof.
  intros (Hr & Hb & Hl & _) Hne. unfold swf_payload. repeat split; auto; [now apply wf_swf_body|now apply wtype_lt].
Qed.

Theorem wparse_wenc_wf w :
  wf_wmsg w -> Forall (fun p => wtype (wpl_body p) <> 0) (wm_payloads w) ->
  (wm_sk_next w = 0 \/ last_is_sk (wm_payloads w) = true) -> wparse (wenc w) = Some w.
Proof.
  intros (Hh & Hp & _ & Hn & Ht) Hne Hfin. apply wparse_wenc. unfold swf_msg.
  split; [exact Hh|]. split; [|split; [exact Hn|split; [exact Ht|exact Hfin]]].
  rewrite Forall_forall in *. intros p Hin. apply wf_swf_payload; auto.
Qed.

(* C05, sender direction, through the independent PARSER: parsing what the implementation emits for a message of the
   domain yields exactly the canonical tree of that message - every field as given, every reserved field zero *)
Lemma wtype_canon_ne p : wtype (canon_body eap_bytes p) <> 0.
Proof. destruct p; cbn; discriminate. Qed.

Lemma sk_last_cases l : sk_last l = 0 \/ last_is_sk (map (canon_payload eap_bytes) l) = true.
Proof.
  induction l as [|p r IH]; [now left|]. destruct r as [|q r'].
  - destruct p; cbn; auto.
  - assert (Hs : sk_last (p :: q :: r') = sk_last (q :: r')) by (destruct p; reflexivity). rewrite Hs.
    destruct IH as [IH|IH]; [now left|right].
    unfold last_is_sk in *. cbn [map rev] in *.
    destruct (rev (map (canon_payload eap_bytes) r') ++ [canon_payload eap_bytes q]) eqn:E; [destruct (rev (map (canon_payload eap_bytes) r')); discriminate E|].
    cbn [app]. exact IH.
Qed.

Theorem parser_recovers_the_canonical_tree m b :
  dom_msg m -> sk_consistent (m_payloads m) -> encode m = Ok b -> wparse b = Some (canon_msg m).
Proof.
  intros Hd Hc He. rewrite (encode_canon m Hd) in He. injection He as <-.
  apply wparse_wenc_wf.
  - now apply canon_msg_wf.
  - unfold canon_msg. cbn [wm_payloads]. rewrite Forall_map. apply Forall_forall. intros p _. apply wtype_canon_ne.
  - unfold canon_msg. cbn [wm_payloads wm_sk_next]. apply sk_last_cases.
Qed.
