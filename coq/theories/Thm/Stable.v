(* C12: re-encoding a decoded message. *)
From Coq Require Import Permutation.
From IKE Require Import Lib.Base Lib.BaseLemmas Impl.Msg Impl.Eap Impl.Payloads Impl.Message Spec.Wire
     Thm.EapRT Thm.RoundTrip Thm.EncodeSpec.
Local Open Scope N_scope.

Lemma aka_sort_idem l : NoDup (map at_type l) -> aka_sort (aka_sort l) = aka_sort l.
Proof.
  intros Hn. apply asc_perm_eq.
  - apply aka_sort_asc. eapply Permutation_NoDup; [|exact Hn]. apply Permutation_map. symmetry. apply aka_sort_perm.
  - now apply aka_sort_asc.
  - apply aka_sort_perm.
Qed.

Lemma eap_marshal_norm e : dom_eap e -> eap_marshal (norm_eap e) = eap_marshal e.
Proof.
  intros (_ & _ & Hd). destruct e as [c i d]. unfold norm_eap, eap_marshal. cbn [e_code e_id e_data].
  destruct d; cbn [norm_eapdata eapdata_marshal]; try reflexivity.
  cbn in Hd. destruct Hd as (_ & _ & _ & Hn). unfold aka_marshal. now rewrite aka_sort_idem.
Qed.

Lemma payload_marshal_norm p : dom_body p -> payload_marshal (norm_payload p) = payload_marshal p.
Proof. destruct p; cbn; try reflexivity. intros [He _]. now apply eap_marshal_norm. Qed.

Lemma ptype_norm p : ptype (norm_payload p) = ptype p.
Proof. destruct p; reflexivity. Qed.

Lemma next_of_norm p r : next_of (norm_payload p) (map norm_payload r) = next_of p r.
Proof. destruct r as [|q r]; cbn; [destruct p; reflexivity|apply ptype_norm]. Qed.

Lemma container_encode_norm l :
  Forall dom_payload l -> container_encode (map norm_payload l) = container_encode l.
Proof.
  induction l as [|p r IH]; intros Hw; [reflexivity|]. inversion Hw as [|? ? [Hb _] Hr]; subst.
  cbn [map container_encode]. rewrite payload_marshal_norm by assumption. rewrite next_of_norm. now rewrite IH.
Qed.

Lemma first_type_norm l : first_type (map norm_payload l) = first_type l.
Proof. destruct l as [|p r]; [reflexivity|]. cbn. apply ptype_norm. Qed.

Theorem encode_norm m : dom_msg m -> encode (norm_msg m) = encode m.
Proof.
  intros (_ & Hp & _). unfold encode, norm_msg. cbn [m_hdr m_payloads].
  rewrite container_encode_norm by assumption. rewrite first_type_norm.
  destruct (m_hdr m); reflexivity.
Qed.

(* one decode/encode step reaches a fixed point: decode b' = m' and encode m' = b' again *)
Theorem reencode_fixed_point m :
  dom_msg m -> sk_consistent (m_payloads m) ->
  exists b, encode m = Ok b /\ decode b = Ok (norm_msg m) /\ encode (norm_msg m) = Ok b.
Proof.
  intros Hd Hc. destruct (codec_roundtrip m Hd Hc) as (b & He & Hdec). exists b. repeat split; try assumption.
  now rewrite encode_norm.
Qed.

(* canonical datagrams (zero reserved fields, no unsupported payloads) are re-encoded byte-identically *)
Theorem canonical_reencode_identical m0 :
  dom_msg m0 -> sk_consistent (m_payloads m0) ->
  let b := wenc (canon_msg m0) in
  exists m, decode b = Ok m /\ encode m = Ok b.
Proof.
  intros Hd Hc b. destruct (reencode_fixed_point m0 Hd Hc) as (b' & He & Hdec & He2).
  rewrite (encode_canon m0 Hd) in He. injection He as <-. exists (norm_msg m0). split; assumption.
Qed.
