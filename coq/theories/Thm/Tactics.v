(* Proof automation shared by the codec proofs: deciding comparisons by lia, normalising lengths,
   reading fields out of concatenations. *)
From IKE Require Import Lib.Base Lib.BaseLemmas.

Lemma len_app {A} (a b : list A) : len (a ++ b) = (len a + len b)%N.
Proof. unfold len. rewrite app_length. lia. Qed.
Lemma len_cons {A} (x : A) l : len (x :: l) = (1 + len l)%N.
Proof. unfold len. cbn [length]. lia. Qed.
Lemma len_nil {A} : len (@nil A) = 0%N.
Proof. reflexivity. Qed.
Lemma len_nat {A} (l : list A) : N.to_nat (len l) = length l.
Proof. unfold len. apply Nat2N.id. Qed.

Global Hint Rewrite @app_length @len_app @len_cons @len_nil be16_length be32_length be64_length zeros_length
       @firstn_length @skipn_length @map_length @len_nat : lens.

Ltac len_norm := autorewrite with lens in *; cbn [length] in *.

(* replace every comparison whose value lia can decide *)
Ltac decide_cmp_step :=
  match goal with
  | |- context[(?a <=? ?b)%nat] =>
    first [ replace (a <=? b)%nat with true by (symmetry; apply Nat.leb_le; lia)
          | replace (a <=? b)%nat with false by (symmetry; apply Nat.leb_gt; lia) ]
  | |- context[(?a <? ?b)%nat] =>
    first [ replace (a <? b)%nat with true by (symmetry; apply Nat.ltb_lt; lia)
          | replace (a <? b)%nat with false by (symmetry; apply Nat.ltb_ge; lia) ]
  | |- context[(?a =? ?b)%nat] =>
    first [ replace (a =? b)%nat with true by (symmetry; apply Nat.eqb_eq; lia)
          | replace (a =? b)%nat with false by (symmetry; apply Nat.eqb_neq; lia) ]
  | |- context[(?a <=? ?b)%N] =>
    first [ replace (a <=? b)%N with true by (symmetry; apply N.leb_le; lia)
          | replace (a <=? b)%N with false by (symmetry; apply N.leb_gt; lia) ]
  | |- context[(?a <? ?b)%N] =>
    first [ replace (a <? b)%N with true by (symmetry; apply N.ltb_lt; lia)
          | replace (a <? b)%N with false by (symmetry; apply N.ltb_ge; lia) ]
  | |- context[(?a =? ?b)%N] =>
    first [ replace (a =? b)%N with true by (symmetry; apply N.eqb_eq; lia)
          | replace (a =? b)%N with false by (symmetry; apply N.eqb_neq; lia) ]
  end.
Ltac decide_cmp := repeat decide_cmp_step; cbn [negb andb orb].

(* ---- reading fields out of a concatenation pre ++ field ++ rest ---- *)
Lemma idx_at (pre : bytes) x rest i : i = length pre -> idx (pre ++ x :: rest) i = Ok (b2n x).
Proof. intros ->. unfold idx. rewrite nth_error_app2 by lia. now rewrite Nat.sub_diag. Qed.

Lemma sub_at (pre f rest : bytes) i j : i = length pre -> j = (length pre + length f)%nat -> sub (pre ++ f ++ rest) i j = Ok f.
Proof. intros. now apply sub_app3. Qed.

Lemma u16at_at (pre : bytes) x y rest i : i = length pre -> u16at (pre ++ x :: y :: rest) i = Ok (be_val [x; y]).
Proof.
  intros ->. unfold u16at. change (x :: y :: rest) with ([x; y] ++ rest).
  rewrite sub_app3 by (cbn [length]; lia). reflexivity.
Qed.

Lemma u16at_be16 (pre : bytes) n rest i : i = length pre -> (n < 65536)%N -> u16at (pre ++ be16 n ++ rest) i = Ok n.
Proof.
  intros -> Hn. unfold u16at. rewrite sub_app3 by (rewrite ?be16_length; lia). cbn [bind]. now rewrite be16_val.
Qed.

Lemma u32at_be32 (pre : bytes) n rest i : i = length pre -> (n < 4294967296)%N -> u32at (pre ++ be32 n ++ rest) i = Ok n.
Proof.
  intros -> Hn. unfold u32at. rewrite sub_app3 by (rewrite ?be32_length; lia). cbn [bind]. now rewrite be32_val.
Qed.

Lemma u64at_be64 (pre : bytes) n rest i : i = length pre -> (n < 18446744073709551616)%N -> u64at (pre ++ be64 n ++ rest) i = Ok n.
Proof.
  intros -> Hn. unfold u64at. rewrite sub_app3 by (rewrite ?be64_length; lia). cbn [bind]. now rewrite be64_val.
Qed.

Lemma from_at (pre rest : bytes) i : i = length pre -> from (pre ++ rest) i = Ok rest.
Proof. intros. now apply from_app. Qed.

Lemma upto_at (pre rest : bytes) i : i = length pre -> upto (pre ++ rest) i = Ok pre.
Proof. intros. now apply upto_app. Qed.

Lemma idx_n2b (pre : bytes) n rest i : i = length pre -> (n < 256)%N -> idx (pre ++ n2b n :: rest) i = Ok n.
Proof. intros. rewrite idx_at by assumption. now rewrite b2n_n2b_small. Qed.

(* outcomes of guarded accessors, for no-fault proofs *)
Lemma sub_not_fault b i j : (i <= j)%nat -> (j <= length b)%nat -> exists s, sub b i j = Ok s /\ length s = (j - i)%nat.
Proof. intros. rewrite sub_ok by lia. eexists. split; [reflexivity|]. rewrite firstn_length, skipn_length. lia. Qed.
Lemma from_not_fault b i : (i <= length b)%nat -> exists s, from b i = Ok s /\ length s = (length b - i)%nat.
Proof. intros. rewrite from_ok by lia. eexists. split; [reflexivity|]. now rewrite skipn_length. Qed.
Lemma upto_not_fault b i : (i <= length b)%nat -> exists s, upto b i = Ok s /\ length s = i.
Proof. intros. rewrite upto_ok by lia. eexists. split; [reflexivity|]. rewrite firstn_length. lia. Qed.
