(* C13: a critical unsupported payload anywhere in the chain makes decoding fail. *)
From IKE Require Import Lib.Base Lib.BaseLemmas Thm.Tactics Thm.ConsLemmas Impl.Msg Impl.Eap Impl.Payloads Impl.Message Spec.Wire
     Thm.NoFault Thm.EapRT Thm.RoundTrip.
Local Open Scope N_scope.

Definition wf_wpayload_nc (p : wpayload) : Prop :=
  wpl_res p < 128 /\ wf_wbody (wpl_body p) /\ 4 + len (wenc_body (wpl_body p)) < 65536.

Definition critical_unsupported (p : wpayload) : Prop :=
  supported (wtype (wpl_body p)) = false /\ wpl_critical p = true.

Lemma erase_body_supported b nxt :
  supported (wtype b) = true -> wf_wbody b ->
  (exists x, erase_body eap_of nxt b = Some (Some x)) \/ (erase_body eap_of nxt b = None /\ exists pkt, b = WEAP pkt).
Proof.
  intros Hs Hw. destruct b; cbn in *; try (left; eexists; reflexivity); try (destruct initiator; left; eexists; reflexivity).
  - destruct (eap_of packet); [left; eexists; reflexivity|right; split; [reflexivity|eexists; reflexivity]].
  - destruct Hw as [Hw _]. congruence.
Qed.

Lemma chain_critical l : forall fuel last first,
  last < 256 -> Forall wf_wpayload_nc l -> Exists critical_unsupported l ->
  (length (wenc_chain last l) < fuel)%nat -> first = chain_next last l ->
  container_decode fuel first (wenc_chain last l) = Err.
Proof.
  induction l as [|p r IH]; intros fuel last first Hlast Hw Hex Hf Hfirst; [inversion Hex|].
  inversion Hw as [|? ? (Hres & Hb & Hl) Hw']; subst. destruct fuel as [|f]; [lia|].
  assert (Hn : chain_next last r < 256).
  { destruct r as [|q r']; [exact Hlast|]. inversion Hw' as [|? ? (_ & Hq & _) _]; subst. now apply wtype_lt. }
  rewrite wenc_chain_cons in *. set (next := chain_next last r) in *. set (tl := wenc_chain last r) in *.
  assert (Lp : length (wenc_payload next p) = (4 + length (wenc_body (wpl_body p)))%nat) by (unfold wenc_payload; len_norm; lia).
  rewrite app_length, Lp in Hf.
  unfold wenc_payload. set (body := wenc_body (wpl_body p)) in *.
  rewrite <- ?app_assoc. consify. cbn [container_decode length chain_next]. len_norm.
  decide_cmp. step. len_norm. decide_cmp.
  replace (N.to_nat (4 + len body)) with (4 + length body)%nat by (unfold len; lia).
  step.
  assert (Hfl : ((if wpl_critical p then 128 else 0) + wpl_res p) / 128 = if wpl_critical p then 1 else 0)
    by (destruct (wpl_critical p); lia).
  destruct (supported (wtype (wpl_body p))) eqn:Sup.
  - rewrite sub_0_app by reflexivity. cbn [bind].
    assert (Hr : Exists critical_unsupported r).
    { inversion Hex as [? ? [Hu _]|? ? Hr]; subst; [congruence|exact Hr]. }
    destruct (erase_body_supported (wpl_body p) next Sup Hb) as [[x Ex]|[En [pkt Ep]]].
    + unfold body. rewrite (payload_rt _ next x Hb Sup Ex). cbn [bind].
      decide_cmp. rewrite from_app by reflexivity. cbn [bind]. unfold tl.
      rewrite (IH f last next); try assumption; try reflexivity; [|fold tl; lia].
      cbn [bind]. match goal with |- (if ?c then _ else _) = _ => destruct c; reflexivity end.
    + unfold body. rewrite Ep in *. cbn [wtype wenc_body] in *. unfold payload_unmarshal.
      change (48 =? 33) with false; change (48 =? 34) with false; change (48 =? 35) with false; change (48 =? 36) with false;
        change (48 =? 37) with false; change (48 =? 38) with false; change (48 =? 39) with false; change (48 =? 40) with false;
        change (48 =? 41) with false; change (48 =? 42) with false; change (48 =? 43) with false; change (48 =? 44) with false;
        change (48 =? 45) with false; change (48 =? 46) with false; change (48 =? 47) with false; change (48 =? 48) with true. cbv iota.
      cbn [erase_body] in En. unfold eap_of in En. unfold res_map.
      destruct (eap_safe pkt) as [S1 S2]. destruct (eap_unmarshal pkt); try discriminate; try congruence.
      cbn [bind]. destruct (_ <? _)%nat; reflexivity.
  - inversion Hex as [? ? [_ Hc]|? ? Hr]; subst.
    + rewrite Hc in *. rewrite b2n_n2b_small by lia. rewrite Hfl. change (1 =? 0) with false. destruct (_ <? _)%nat; reflexivity.
    + destruct (wpl_critical p) eqn:Ec.
      * rewrite b2n_n2b_small by lia. rewrite Hfl. change (1 =? 0) with false. destruct (_ <? _)%nat; reflexivity.
      * rewrite b2n_n2b_small by lia. rewrite Hfl. change (0 =? 0) with true. cbv iota. decide_cmp.
        rewrite from_app by reflexivity. cbn [bind]. unfold tl.
        apply (IH f last next); try assumption; try reflexivity. fold tl. lia.
Qed.
