//go:build verif

package main

import "github.com/free5gc/ike/eap"

// full observation of EAP-AKA' through the verif hooks of /repo/eap/verif_hooks.go
const akaFull = true

func sxAka(v *eap.EapAkaPrime) *SX {
	s := L(A("akaraw"), Nn(uint64(v.SubType())), Nn(uint64(v.VerifReserved())))
	for _, a := range v.VerifAttrs() {
		s.Add(L(A("atr"), Nn(uint64(a.Type)), Nn(uint64(a.Length)), Nn(uint64(a.Reserved)), Hx(a.Value)))
	}
	return s
}
func goAkaRaw(s *SX) eap.EapTypeData {
	var attrs []eap.VerifAkaAttr
	for _, a := range s.Tail(3) {
		attrs = append(attrs, eap.VerifAkaAttr{Type: uint8(a.U(1)), Length: uint8(a.U(2)), Reserved: uint16(a.U(3)), Value: a.B(4)})
	}
	return eap.VerifNewAkaRaw(eap.EapAkaSubtype(s.U(1)), uint16(s.U(2)), attrs)
}
