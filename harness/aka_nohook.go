//go:build !verif

package main

import "github.com/free5gc/ike/eap"

// observation of EAP-AKA' through the public API only (SubType, GetAttr over all 256 types)
const akaFull = false

func sxAka(v *eap.EapAkaPrime) *SX {
	s := L(A("aka"), Nn(uint64(v.SubType())))
	for t := 0; t < 256; t++ {
		if a, err := v.GetAttr(eap.EapAkaPrimeAttrType(t)); err == nil {
			s.Add(L(A("at"), Nn(uint64(t)), Hx(a.GetValue())))
		}
	}
	return s
}
func goAkaRaw(s *SX) eap.EapTypeData { panic("raw EAP-AKA' states need the verif hooks") }
