package main

import (
	"fmt"
	"strings"
)

func init() { runners["C03"] = runC03 }

// one C03 case: a message of the encodable domain
func evalC03(c *Ctx, m *SX) error {
	r := c.R
	cs := m.String()
	encI := implEncode(m)
	r.ImplRuns++
	encM, err := c.M.Ask("(encode " + cs + ")")
	if err != nil {
		return err
	}
	kinds := kindsOf(m.At(2))
	r.Count(cs, len(kinds) >= 2 || strings.Contains(cs, "(prop ") || strings.Contains(cs, "(aka ") || strings.Contains(cs, "(sel "), "payloads="+fmt.Sprint(len(kinds)))
	for _, k := range kinds {
		r.Hist["kind:"+k]++
	}
	r.Sample(cs)
	if dom, err := c.M.Ask("(in_domain " + cs + ")"); err != nil {
		return err
	} else if dom == "1" {
		r.Hist["in-theorem-domain(dom_msgb)"]++
	} else {
		r.Hist["outside-theorem-domain"]++
	}
	if encI != encM {
		r.Add(Finding{Kind: "correspondence", What: "IKEMessage.Encode differs from Impl.encode", Case: "(encode " + cs + ")", Expected: encM, Observed: encI})
	}
	body := okBody(encI)
	if body == nil {
		// the domain promises encodability
		r.Add(Finding{Kind: "instance", What: "a message of the encodable domain does not encode", Case: "(encode " + cs + ")", Expected: "(ok ...)", Observed: encI})
		return nil
	}
	wire := body[0].B0()
	decI := implDecode(exact(wire))
	decM, err := c.M.Ask("(decode " + hx(wire) + ")")
	if err != nil {
		return err
	}
	if decI != decM {
		r.Add(Finding{Kind: "correspondence", What: "IKEMessage.Decode differs from Impl.decode", Case: "(decode " + hx(wire) + ")", Expected: decM, Observed: decI})
	}
	want := normMsg(m).String()
	got := "?"
	if db := okBody(decI); db != nil {
		got = normMsg(db[0]).String()
	} else {
		got = decI
	}
	if got != want {
		r.Add(Finding{Kind: "instance", What: "Decode(Encode(m)) differs from m", Case: "(roundtrip " + cs + ")", Expected: want, Observed: got})
	}
	return nil
}

func runC03(c *Ctx) error {
	c.R.Rule = "messages of the encodable domain (0..6 payloads over all 15 supported kinds, nested SA/TS/CP/EAP-AKA' structures, boundary sizes, " +
		"attribute types around 14/127/128/142/32767, SPI sizes around 248/252/255); non-trivial = two or more payloads or a nested structure; distinct by the message"
	if _, err := c.M.Ask(fmt.Sprintf("(aka_full %d)", b2i(akaFull))); err != nil {
		return err
	}
	if err := replayOrCorpus(c, "C03", func(s *SX) error { return evalC03(c, s.At(1)) }); err != nil || c.Replay != "" {
		return err
	}
	n := c.N(1500, 60000)
	for i := 0; i < n; i++ {
		if err := evalC03(c, genMessage(c.Rng)); err != nil {
			return err
		}
	}
	return nil
}
