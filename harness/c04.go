package main

import (
	"fmt"
	"strings"

	"github.com/free5gc/ike/security"
)

func init() { runners["C04"] = runC04 }

func rawCaseString(rc rawCase) string {
	switch rc.Op {
	case "decode", "parse_header", "eap_unmarshal":
		return fmt.Sprintf("(%s %s)", rc.Op, hx(rc.Data))
	case "decode_payloads":
		return fmt.Sprintf("(decode_payloads %d %s)", rc.Arg, hx(rc.Data))
	case "unmarshal":
		return fmt.Sprintf("(payload_unmarshal %d %s)", rc.Arg, hx(rc.Data))
	case "eapdata_unmarshal":
		return fmt.Sprintf("(eapdata_unmarshal %d %s)", rc.Arg, hx(rc.Data))
	}
	return "(bad)"
}

func parseRawCase(s *SX) rawCase {
	switch s.Head() {
	case "decode", "parse_header", "eap_unmarshal":
		return rawCase{Op: s.Head(), Data: s.B(1), Src: "replay"}
	case "decode_payloads":
		return rawCase{Op: "decode_payloads", Arg: int(s.U(1)), Data: s.B(2), Src: "replay"}
	case "payload_unmarshal":
		return rawCase{Op: "unmarshal", Arg: int(s.U(1)), Data: s.B(2), Src: "replay"}
	case "eapdata_unmarshal":
		return rawCase{Op: "eapdata_unmarshal", Arg: int(s.U(1)), Data: s.B(2), Src: "replay"}
	}
	panic("bad raw case " + s.String())
}

func implRaw(rc rawCase, data []byte) string {
	switch rc.Op {
	case "decode":
		return implDecode(data)
	case "parse_header":
		return implParseHeader(data)
	case "decode_payloads":
		return implDecodePayloads(uint8(rc.Arg), data)
	case "unmarshal":
		return implPayloadUnmarshal(rc.Arg, data)
	case "eap_unmarshal":
		return implEapUnmarshal(data)
	case "eapdata_unmarshal":
		return implEapDataUnmarshal(rc.Arg, data)
	}
	return "bad-op"
}

func outcomeClass(o string) string {
	if len(o) >= 3 && o[:3] == "(ok" {
		return "ok"
	}
	return o
}

// evalRaw: one decoder input.  Correspondence: exact-capacity outcome = model outcome (value included).
// Instance (C04): no panic, and the outcome with spare capacity (two different tail patterns) is the same.
func evalRaw(c *Ctx, rc rawCase, prop string) (string, error) {
	r := c.R
	cs := rawCaseString(rc)
	e := implRaw(rc, exact(rc.Data))
	s1 := implRaw(rc, spare(rc.Data, 0x5a))
	s2 := implRaw(rc, spare(rc.Data, 0xa5))
	r.ImplRuns += 3
	m, err := c.M.Ask(cs)
	if err != nil {
		return "", err
	}
	r.Count(cs, len(rc.Data) > 0, "src:"+rc.Src)
	r.Hist["op:"+rc.Op]++
	r.Hist["outcome:"+outcomeClass(e)]++
	if r.Evaluations%997 == 1 {
		r.Sample(cs + " -> " + outcomeClass(e))
	}
	if e != m {
		r.Add(Finding{Kind: "correspondence", What: "decoder outcome differs from the Impl model", Case: cs, Expected: m, Observed: e})
	}
	if prop == "C04" {
		if e == "fault" || s1 == "fault" || s2 == "fault" {
			r.Add(Finding{Kind: "instance", What: "decoder panics", Case: cs, Expected: "value or error", Observed: "panic (exact=" + outcomeClass(e) + " spare=" + outcomeClass(s1) + ")"})
		} else if e != s1 || e != s2 {
			r.Add(Finding{Kind: "instance", What: "decoder outcome depends on memory behind the slice (over-read)", Case: cs, Expected: e, Observed: s1 + " / " + s2})
		}
		if m == "outoffuel" {
			r.Add(Finding{Kind: "instance", What: "model loop not bounded by the input length", Case: cs, Expected: "termination within len+1 iterations", Observed: m})
		}
	}
	return e, nil
}

// validWire: encodings of domain messages, and their parts, as mutation seeds
func validWire(c *Ctx) (rawCase, bool) {
	r := c.Rng
	switch r.Intn(4) {
	case 0:
		m := genMessage(r)
		if b := okBody(implEncode(m)); b != nil {
			return rawCase{"decode", 0, b[0].B0(), "mut-message"}, true
		}
	case 1:
		ps := genPayloadList(r)
		if b := okBody(implContainerEncode(ps)); b != nil && len(ps.List) > 0 {
			return rawCase{"decode_payloads", int(kindCode[ps.At(0).Head()]), b[0].B0(), "mut-chain"}, true
		}
	case 2:
		k := payloadKinds[r.Intn(len(payloadKinds))]
		p := genPayload(r, k)
		if b := okBody(implPayloadMarshal(p)); b != nil {
			return rawCase{"unmarshal", int(kindCode[k]), b[0].B0(), "mut-payload-" + k}, true
		}
	case 3:
		e := genEap(r)
		if b := okBody(implEapMarshal(e)); b != nil {
			w := b[0].B0()
			if r.Bool() && len(w) > 4 {
				ty := int(w[4])
				return rawCase{"eapdata_unmarshal", ty, w[4:], "mut-eapdata"}, true
			}
			return rawCase{"eap_unmarshal", 0, w, "mut-eap"}, true
		}
	}
	return rawCase{}, false
}

func malformedStream(c *Ctx, prop string, nMut, nRand int, each func(rawCase) error) error {
	var ferr error
	emit := func(rc rawCase) {
		if ferr == nil {
			ferr = each(rc)
		}
	}
	r := c.Rng
	sweepNotify(r, emit)
	sweepProposal(r, emit, c.Thor)
	sweepTransform(r, emit)
	sweepDelete(r, emit)
	sweepCP(r, emit)
	sweepTS(r, emit)
	sweepChain(r, emit)
	sweepHeader(r, emit)
	sweepEap(r, emit)
	sweepAka(r, emit, c.Thor)
	if ferr != nil {
		return ferr
	}
	for i := 0; i < nMut; i++ {
		rc, ok := validWire(c)
		if !ok {
			continue
		}
		if r.Chance(1, 10) { // keep some valid inputs in the stream
			emit(rc)
		}
		for k := r.Range(1, 3); k > 0; k-- {
			rc.Data = mutate(r, rc.Data)
		}
		emit(rc)
	}
	ops := []rawCase{{Op: "decode"}, {Op: "parse_header"}, {Op: "eap_unmarshal"}}
	for ty := 33; ty <= 48; ty++ {
		ops = append(ops, rawCase{Op: "unmarshal", Arg: ty})
	}
	for _, ty := range []int{1, 2, 3, 50, 254} {
		ops = append(ops, rawCase{Op: "eapdata_unmarshal", Arg: ty})
	}
	for _, nx := range []int{0, 33, 40, 41, 46, 48, 49, 200} {
		ops = append(ops, rawCase{Op: "decode_payloads", Arg: nx})
	}
	for i := 0; i < nRand; i++ {
		rc := ops[r.Intn(len(ops))]
		rc.Data = randomOctets(r)
		rc.Src = "random"
		emit(rc)
	}
	return ferr
}

func runC04(c *Ctx) error {
	c.R.Rule = "malformed stream: exhaustive sweeps (every 8-bit size field x window of remaining lengths; boundary values of every 16-bit length " +
		"field x window), mutations of valid encodings (bit flips, truncation, extension, field overwrite, splice), random octets 0..96 and a " +
		"log-uniform tail; every input run with exact capacity and inside two larger buffers; non-trivial = non-empty input; distinct by (entry point, octets)"
	if _, err := c.M.Ask(fmt.Sprintf("(aka_full %d)", b2i(akaFull))); err != nil {
		return err
	}
	each := func(rc rawCase) error { _, err := evalRaw(c, rc, "C04"); return err }
	if err := replayOrCorpus(c, "C04", func(s *SX) error { return each(parseRawCase(s)) }); err != nil || c.Replay != "" {
		return err
	}
	if err := malformedStream(c, "C04", c.N(4000, 150000), c.N(3000, 100000), each); err != nil {
		return err
	}
	return protectedPathC04(c)
}

// protectedPathC04: the two remaining entry points of the property - unprotection of any octets with any key set, and
// cipher decryption - on mutations of protected messages, truncations and random octets, with the right keys, unrelated
// keys and none; each input in three layouts (exact array, 96 foreign octets behind it, front of a 2 KiB buffer)
func protectedPathC04(c *Ctx) error {
	r, rng := c.R, c.Rng
	big := func(b []byte) []byte {
		x := make([]byte, len(b)+2048)
		copy(x, b)
		for i := len(b); i < len(x); i++ {
			x[i] = 0x3c ^ byte(i*11)
		}
		return x[:len(b)]
	}
	for i, n := 0, c.N(400, 12000); i < n; i++ {
		k := genSkCase(rng, i)
		if i%40 != 0 && len(k.m.String()) > 6000 { // the 64 KiB messages only now and then
			continue
		}
		sa, err := saFromKeys(k.s, k.ks.d, k.ks.ai, k.ks.ar, k.ks.ei, k.ks.er, k.ks.pi, k.ks.pr)
		if err != nil {
			return err
		}
		_, wire := implProtect(sa, k.role, k.m, k.script, nil)
		var raw []byte
		src := "mutated-protected"
		switch {
		case wire == nil || i%7 == 0:
			raw, src = randomOctets(rng), "random"
		case i%7 == 1:
			raw, src = wire[:rng.Intn(len(wire))], "truncated-protected"
		case i%7 == 2:
			raw, src = wire, "genuine"
		default:
			raw = mutate(rng, wire)
		}
		if wire != nil && i%7 == 3 {
			// an AUTHENTIC datagram (valid checksum, decryptable) whose decrypted octets are arbitrary: a mutated / truncated
			// / random inner payload chain, any first-payload type, any legal or illegal pad length - what only a holder of
			// the keys can send, and what must still give a value or an error
			var inner []byte
			if in := okBody(implContainerEncode(k.m.At(2))); in != nil && rng.Chance(2, 3) {
				inner = mutate(rng, in[0].B0())
			} else {
				inner = rng.Bytes(rng.Intn(64))
			}
			if len(inner) > 3000 {
				inner = inner[:3000]
			}
			first := byte(rng.Pick([]int{0, 33, 40, 41, 46, 47, 48, 49, 200, rng.Intn(256)}))
			padLen := 16 - len(inner)%16 - 1
			pad := rng.Bytes(padLen)
			if rng.Chance(1, 4) { // more padding than needed (any amount up to 255 is legal)
				pad = rng.Bytes(padLen + 16*rng.Intn(3))
			}
			rb, err := refProtect(c, k, k.m.At(1), inner, first, rng.Bytes(16), pad)
			if err != nil {
				return err
			}
			if rb != nil {
				raw, src = rb, "authentic-arbitrary-inner"
			}
		}
		ku := k
		keys := "same"
		switch i % 5 {
		case 3:
			ku.ks, keys = genKeys(rng, k.s), "unrelated"
		case 4:
			keys = "none"
		}
		role := []string{"i", "r"}[rng.Intn(2)]
		hdr := []string{"nohdr", "parsed"}[rng.Intn(2)]
		mk := func() *security.IKESAKey {
			if keys == "none" {
				return nil
			}
			x, _ := saFromKeys(ku.s, ku.ks.d, ku.ks.ai, ku.ks.ar, ku.ks.ei, ku.ks.er, ku.ks.pi, ku.ks.pr)
			return x
		}
		e := implUnprotect(mk(), role, exact(raw), hdr)
		s1 := implUnprotect(mk(), role, spare(raw, 0x5a), hdr)
		s2 := implUnprotect(mk(), role, big(raw), hdr)
		r.ImplRuns += 3
		cs := fmt.Sprintf("(unsk %s (%s) %s %s %s)", ku.s, ku.ks.sx(), role, hx(raw), hdr)
		if keys == "none" {
			cs = fmt.Sprintf("(unsk-nokeys %s %s %s)", role, hx(raw), hdr)
		} else {
			if err := modelSA(c, "c4", ku); err != nil {
				return err
			}
			model, err := c.M.Ask(fmt.Sprintf("(unprotect c4 %s %s %s)", role, hx(raw), hdr))
			if err != nil {
				return err
			}
			if e != model {
				r.Add(Finding{Kind: "correspondence", What: "DecodeDecrypt differs from Impl.decode_decrypt", Case: cs, Expected: model, Observed: e})
			}
		}
		r.Count(cs, len(raw) > 0, "src:unprotect-"+src+"-keys-"+keys)
		r.Hist["op:unprotect"]++
		if strings.HasPrefix(e, "(no-value-no-error") || strings.HasPrefix(s1, "(no-value-no-error") || strings.HasPrefix(s2, "(no-value-no-error") {
			r.Add(Finding{Kind: "instance", What: "unprotection returns neither a value nor an error", Case: cs, Expected: "value or error", Observed: e})
		} else if strings.HasPrefix(e, "(fault") || strings.HasPrefix(s1, "(fault") || strings.HasPrefix(s2, "(fault") || e == "fault" {
			r.Add(Finding{Kind: "instance", What: "unprotection panics", Case: cs, Expected: "value or error", Observed: "exact=" + outcomeClass(e) + " spare=" + outcomeClass(s1) + " / " + outcomeClass(s2)})
		} else if e != s1 || e != s2 {
			r.Add(Finding{Kind: "instance", What: "unprotection outcome depends on memory behind the slice", Case: cs, Expected: e, Observed: s1 + " / " + s2})
		}
		// cipher decryption of the same octets (and of their body)
		ct := raw
		if len(raw) > 32 && i%2 == 0 {
			ct = raw[32:]
		}
		if len(ct) > 4096 {
			ct = ct[:4096-rng.Intn(17)]
		}
		key := ku.ks.ei
		dcs := fmt.Sprintf("(dec %s %s %s)", k.s.e, hx(key), hx(ct))
		d0 := implAesDec(k.s.e, key, exact(ct))
		d1 := implAesDec(k.s.e, key, spare(ct, 0x33))
		d2 := implAesDec(k.s.e, key, big(ct))
		r.ImplRuns += 3
		r.Count(dcs, len(ct) > 0, "src:decrypt-"+src)
		r.Hist["op:decrypt"]++
		if i%25 == 0 && len(ct) >= 32 {
			// every value of the recovered pad-length octet: the last plaintext octet is D(last block) xor the octet in
			// front of it, so sweeping that octet of the ciphertext sweeps the pad length over 0..255 (for 1..4 blocks)
			al := ct[:len(ct)-len(ct)%16]
			if len(al) > 80 {
				al = al[:16+16*rng.Range(1, 4)]
			}
			for v := 0; v < 256; v++ {
				sw := append([]byte(nil), al...)
				sw[len(sw)-17] = byte(v)
				a, b := implAesDec(k.s.e, key, exact(sw)), implAesDec(k.s.e, key, spare(sw, 0x33))
				r.ImplRuns += 2
				r.Hist["op:decrypt-pad-sweep"]++
				if a == "fault" || b == "fault" {
					r.Add(Finding{Kind: "instance", What: "cipher decryption panics", Case: fmt.Sprintf("(dec %s %s %s)", k.s.e, hx(key), hx(sw)), Expected: "value or error", Observed: outcomeClass(a) + " / " + outcomeClass(b)})
					break
				} else if a != b {
					r.Add(Finding{Kind: "instance", What: "cipher decryption outcome depends on memory behind the slice", Case: fmt.Sprintf("(dec %s %s %s)", k.s.e, hx(key), hx(sw)), Expected: a, Observed: b})
					break
				}
			}
		}
		dm, err := c.M.Ask(fmt.Sprintf("(aes_decrypt %s %s)", hx(key), hx(ct)))
		if err != nil {
			return err
		}
		if d0 != dm {
			r.Add(Finding{Kind: "correspondence", What: "Decrypt differs from Impl.aes_decrypt", Case: dcs, Expected: dm, Observed: d0})
		}
		if d0 == "fault" || d1 == "fault" || d2 == "fault" {
			r.Add(Finding{Kind: "instance", What: "cipher decryption panics", Case: dcs, Expected: "value or error", Observed: outcomeClass(d0) + " / " + outcomeClass(d1) + " / " + outcomeClass(d2)})
		} else if d0 != d1 || d0 != d2 {
			r.Add(Finding{Kind: "instance", What: "cipher decryption outcome depends on memory behind the slice", Case: dcs, Expected: d0, Observed: d1 + " / " + d2})
		}
	}
	return nil
}
