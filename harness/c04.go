package main

import (
	"fmt"
)

func init() { runners["C04"] = runC04 }

func rawCaseString(rc rawCase) string {
	switch rc.Op {
	case "decode", "parse_header", "eap_unmarshal":
		return fmt.Sprintf("(%s %s)", rc.Op, hx(rc.Data))
	case "decode_payloads":
		return fmt.Sprintf("(decode_payloads %d %s)", rc.Arg, hx(rc.Data))
	case "unmarshal":
		return fmt.Sprintf("(payload_unmarshal %d %s)", rc.Arg, hx(rc.Data))
	case "eapdata_unmarshal":
		return fmt.Sprintf("(eapdata_unmarshal %d %s)", rc.Arg, hx(rc.Data))
	}
	return "(bad)"
}

func parseRawCase(s *SX) rawCase {
	switch s.Head() {
	case "decode", "parse_header", "eap_unmarshal":
		return rawCase{Op: s.Head(), Data: s.B(1), Src: "replay"}
	case "decode_payloads":
		return rawCase{Op: "decode_payloads", Arg: int(s.U(1)), Data: s.B(2), Src: "replay"}
	case "payload_unmarshal":
		return rawCase{Op: "unmarshal", Arg: int(s.U(1)), Data: s.B(2), Src: "replay"}
	case "eapdata_unmarshal":
		return rawCase{Op: "eapdata_unmarshal", Arg: int(s.U(1)), Data: s.B(2), Src: "replay"}
	}
	panic("bad raw case " + s.String())
}

func implRaw(rc rawCase, data []byte) string {
	switch rc.Op {
	case "decode":
		return implDecode(data)
	case "parse_header":
		return implParseHeader(data)
	case "decode_payloads":
		return implDecodePayloads(uint8(rc.Arg), data)
	case "unmarshal":
		return implPayloadUnmarshal(rc.Arg, data)
	case "eap_unmarshal":
		return implEapUnmarshal(data)
	case "eapdata_unmarshal":
		return implEapDataUnmarshal(rc.Arg, data)
	}
	return "bad-op"
}

func outcomeClass(o string) string {
	if len(o) >= 3 && o[:3] == "(ok" {
		return "ok"
	}
	return o
}

// evalRaw: one decoder input.  Correspondence: exact-capacity outcome = model outcome (value included).
// Instance (C04): no panic, and the outcome with spare capacity (two different tail patterns) is the same.
func evalRaw(c *Ctx, rc rawCase, prop string) (string, error) {
	r := c.R
	cs := rawCaseString(rc)
	e := implRaw(rc, exact(rc.Data))
	s1 := implRaw(rc, spare(rc.Data, 0x5a))
	s2 := implRaw(rc, spare(rc.Data, 0xa5))
	r.ImplRuns += 3
	m, err := c.M.Ask(cs)
	if err != nil {
		return "", err
	}
	r.Count(cs, len(rc.Data) > 0, "src:"+rc.Src)
	r.Hist["op:"+rc.Op]++
	r.Hist["outcome:"+outcomeClass(e)]++
	if r.Evaluations%997 == 1 {
		r.Sample(cs + " -> " + outcomeClass(e))
	}
	if e != m {
		r.Add(Finding{Kind: "correspondence", What: "decoder outcome differs from the Impl model", Case: cs, Expected: m, Observed: e})
	}
	if prop == "C04" {
		if e == "fault" || s1 == "fault" || s2 == "fault" {
			r.Add(Finding{Kind: "instance", What: "decoder panics", Case: cs, Expected: "value or error", Observed: "panic (exact=" + outcomeClass(e) + " spare=" + outcomeClass(s1) + ")"})
		} else if e != s1 || e != s2 {
			r.Add(Finding{Kind: "instance", What: "decoder outcome depends on memory behind the slice (over-read)", Case: cs, Expected: e, Observed: s1 + " / " + s2})
		}
		if m == "outoffuel" {
			r.Add(Finding{Kind: "instance", What: "model loop not bounded by the input length", Case: cs, Expected: "termination within len+1 iterations", Observed: m})
		}
	}
	return e, nil
}

// validWire: encodings of domain messages, and their parts, as mutation seeds
func validWire(c *Ctx) (rawCase, bool) {
	r := c.Rng
	switch r.Intn(4) {
	case 0:
		m := genMessage(r)
		if b := okBody(implEncode(m)); b != nil {
			return rawCase{"decode", 0, b[0].B0(), "mut-message"}, true
		}
	case 1:
		ps := genPayloadList(r)
		if b := okBody(implContainerEncode(ps)); b != nil && len(ps.List) > 0 {
			return rawCase{"decode_payloads", int(kindCode[ps.At(0).Head()]), b[0].B0(), "mut-chain"}, true
		}
	case 2:
		k := payloadKinds[r.Intn(len(payloadKinds))]
		p := genPayload(r, k)
		if b := okBody(implPayloadMarshal(p)); b != nil {
			return rawCase{"unmarshal", int(kindCode[k]), b[0].B0(), "mut-payload-" + k}, true
		}
	case 3:
		e := genEap(r)
		if b := okBody(implEapMarshal(e)); b != nil {
			w := b[0].B0()
			if r.Bool() && len(w) > 4 {
				ty := int(w[4])
				return rawCase{"eapdata_unmarshal", ty, w[4:], "mut-eapdata"}, true
			}
			return rawCase{"eap_unmarshal", 0, w, "mut-eap"}, true
		}
	}
	return rawCase{}, false
}

func malformedStream(c *Ctx, prop string, nMut, nRand int, each func(rawCase) error) error {
	var ferr error
	emit := func(rc rawCase) {
		if ferr == nil {
			ferr = each(rc)
		}
	}
	r := c.Rng
	sweepNotify(r, emit)
	sweepProposal(r, emit, c.Thor)
	sweepTransform(r, emit)
	sweepDelete(r, emit)
	sweepCP(r, emit)
	sweepTS(r, emit)
	sweepChain(r, emit)
	sweepHeader(r, emit)
	sweepEap(r, emit)
	sweepAka(r, emit, c.Thor)
	if ferr != nil {
		return ferr
	}
	for i := 0; i < nMut; i++ {
		rc, ok := validWire(c)
		if !ok {
			continue
		}
		if r.Chance(1, 10) { // keep some valid inputs in the stream
			emit(rc)
		}
		for k := r.Range(1, 3); k > 0; k-- {
			rc.Data = mutate(r, rc.Data)
		}
		emit(rc)
	}
	ops := []rawCase{{Op: "decode"}, {Op: "parse_header"}, {Op: "eap_unmarshal"}}
	for ty := 33; ty <= 48; ty++ {
		ops = append(ops, rawCase{Op: "unmarshal", Arg: ty})
	}
	for _, ty := range []int{1, 2, 3, 50, 254} {
		ops = append(ops, rawCase{Op: "eapdata_unmarshal", Arg: ty})
	}
	for _, nx := range []int{0, 33, 40, 41, 46, 48, 49, 200} {
		ops = append(ops, rawCase{Op: "decode_payloads", Arg: nx})
	}
	for i := 0; i < nRand; i++ {
		rc := ops[r.Intn(len(ops))]
		rc.Data = randomOctets(r)
		rc.Src = "random"
		emit(rc)
	}
	return ferr
}

func runC04(c *Ctx) error {
	c.R.Rule = "malformed stream: exhaustive sweeps (every 8-bit size field x window of remaining lengths; boundary values of every 16-bit length " +
		"field x window), mutations of valid encodings (bit flips, truncation, extension, field overwrite, splice), random octets 0..96 and a " +
		"log-uniform tail; every input run with exact capacity and inside two larger buffers; non-trivial = non-empty input; distinct by (entry point, octets)"
	if _, err := c.M.Ask(fmt.Sprintf("(aka_full %d)", b2i(akaFull))); err != nil {
		return err
	}
	each := func(rc rawCase) error { _, err := evalRaw(c, rc, "C04"); return err }
	if err := replayOrCorpus(c, "C04", func(s *SX) error { return each(parseRawCase(s)) }); err != nil || c.Replay != "" {
		return err
	}
	return malformedStream(c, "C04", c.N(4000, 150000), c.N(3000, 100000), each)
}
