package main

import (
	"fmt"
	"strings"
)

func init() { runners["C05"] = runC05 }

func evalC05(c *Ctx, m *SX, seed uint64) error {
	r := c.R
	cs := m.String()
	kinds := kindsOf(m.At(2))
	r.Count(cs, len(kinds) >= 1, fmt.Sprintf("payloads=%d", len(kinds)))
	for _, k := range kinds {
		r.Hist["kind:"+k]++
	}
	r.Sample(cs)
	fail := func(what, cse, exp, obs string) { r.Add(Finding{Kind: "instance", What: what, Case: cse, Expected: exp, Observed: obs}) }
	want := normMsg(m).String()
	// (a) the implementation's encoding is a well-formed datagram: the independent strict parser recovers the fields, reserved fields zero
	encI := implEncode(m)
	r.ImplRuns++
	if b := okBody(encI); b != nil {
		w := b[0].B0()
		pcs := "(spec_parse " + hx(w) + ")"
		sp, err := c.M.Ask(pcs)
		if err != nil {
			return err
		}
		if !strings.HasPrefix(sp, "(ok ") {
			fail("the encoding is not a well-formed RFC 7296 datagram (independent strict parser: "+sp+")", "(encode "+cs+")", "well-formed", hx(w))
		} else {
			s, _ := ParseSX(sp)
			if s.At(1).Atom != "canonical" {
				fail("a reserved field or critical flag of the encoding is not zero", "(encode "+cs+")", "canonical", sp)
			}
			if got := normMsg(s.At(2)).String(); got != want {
				fail("the independent parser recovers different fields from the encoding", "(encode "+cs+")", want, got)
			}
		}
		// the canonical reference encoding is octet-identical (Impl = Spec on canonical trees)
		ref, err := c.M.Ask(fmt.Sprintf("(spec_encode %s 0 1)", cs))
		if err != nil {
			return err
		}
		if ref != encI {
			r.Add(Finding{Kind: "correspondence", What: "IKEMessage.Encode differs from the canonical encoding of the independent encoder (Spec.wenc (canon m))", Case: "(encode " + cs + ")", Expected: ref, Observed: encI})
		}
	} else {
		fail("a message of the encodable domain does not encode", "(encode "+cs+")", "(ok ...)", encI)
	}
	// (b) datagrams of an independent encoder using the sender's liberties decode to the fields they were built from
	for t := 0; t < 2; t++ {
		ecs := fmt.Sprintf("(spec_encode %s %d 0)", cs, seed+uint64(t))
		ref, err := c.M.Ask(ecs)
		if err != nil {
			return err
		}
		rb := okBody(ref)
		if rb == nil {
			continue
		}
		w := rb[0].B0()
		dec := implDecode(exact(w))
		r.ImplRuns++
		decM, err := c.M.Ask("(decode " + hx(w) + ")")
		if err != nil {
			return err
		}
		if dec != decM {
			r.Add(Finding{Kind: "correspondence", What: "IKEMessage.Decode differs from Impl.decode on a reference-built datagram", Case: "(decode " + hx(w) + ")", Expected: decM, Observed: dec})
		}
		got := dec
		if db := okBody(dec); db != nil {
			got = normMsg(db[0]).String()
		}
		if got != want {
			fail("a well-formed datagram of an independent encoder (reserved bits, critical flags, transform interleaving at the sender's liberty) does not decode to the fields it was built from",
				ecs, want, got)
		}
	}
	return nil
}

func runC05(c *Ctx) error {
	c.R.Rule = "messages of the encodable domain; (a) IKEMessage.Encode output fed to the extracted independent strict parser (Spec.wparse): well-formed, canonical, same fields, " +
		"octet-identical to Spec.wenc of the canonical tree; (b) Spec.wenc of trees with random reserved octets / bits, critical flags on supported payloads and random transform interleavings " +
		"fed to IKEMessage.Decode; non-trivial = at least one payload; distinct by the message"
	if _, err := c.M.Ask(fmt.Sprintf("(aka_full %d)", b2i(akaFull))); err != nil {
		return err
	}
	if err := replayOrCorpus(c, "C05", func(s *SX) error {
		if s.Head() == "encode" {
			return evalC05(c, s.At(1), 7)
		}
		if s.Head() == "spec_encode" {
			return evalC05(c, s.At(1), s.U(2))
		}
		return nil
	}); err != nil || c.Replay != "" {
		return err
	}
	for i, n := 0, c.N(1000, 40000); i < n; i++ {
		if err := evalC05(c, genMessage(c.Rng), c.Rng.U64()%1000000); err != nil {
			return err
		}
	}
	return nil
}
