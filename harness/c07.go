package main

import (
	"bytes"
	"crypto/hmac"
	"crypto/md5"
	"crypto/sha1"
	"crypto/sha256"
	"fmt"
	"hash"
	"strings"

	"github.com/free5gc/ike/security"
	"github.com/free5gc/ike/security/encr"
	"github.com/free5gc/ike/security/integ"
)

func init() { runners["C07"] = runC07; runners["C08"] = runC08 }

func stdHash(id string) func() hash.Hash {
	switch id {
	case "md5":
		return md5.New
	case "sha1":
		return sha1.New
	}
	return sha256.New
}
func stdHmac(id string, key, msg []byte) []byte {
	h := hmac.New(stdHash(id), key)
	h.Write(msg)
	return h.Sum(nil)
}

// adjacent lays two inputs out the way a caller slicing one receive / scratch buffer would: a | b | sentinel in one backing
// array, a's capacity reaching over b and the sentinel.  check reports whether any octet of the array was changed.
// Two calls out of three lay the inputs out in the SAME scratch array as the call before (a caller re-filling its nonce /
// secret buffer for the next exchange): the library must not have kept a view of the previous call's inputs.
var (
	adjScratch = make([]byte, 0, 8192)
	adjCount   int
)

func adjacent(a, b []byte) (a2, b2 []byte, check func() bool) {
	buf := make([]byte, 0, len(a)+len(b)+64)
	if solo() {
		if adjCount++; adjCount%3 != 0 && len(a)+len(b)+64 <= cap(adjScratch) {
			buf = adjScratch[:0]
		}
	}
	buf = append(append(buf, a...), b...)
	for i := 0; i < 64; i++ {
		buf = append(buf, 0xA5)
	}
	snap := append([]byte(nil), buf...)
	return buf[:len(a)], buf[len(a) : len(a)+len(b)], func() bool { return bytes.Equal(buf, snap) }
}

func implGenIkesa(s suite, nonce, secret []byte, si, sr uint64) (string, *security.IKESAKey) {
	var k *security.IKESAKey
	out := run(func() string {
		k = newSA(s)
		n2, s2, intact := nonce, secret, func() bool { return true }
		if (len(nonce)+len(secret))%2 == 0 {
			n2, s2, intact = adjacent(nonce, secret)
		} else {
			n2, s2 = exact(nonce), exact(secret)
		}
		if len(nonce)%3 == 1 && len(nonce) > 0 && len(secret) > 0 {
			// the object was already keyed for an earlier attempt (IKE_SA_INIT repeated after COOKIE / INVALID_KE_PAYLOAD):
			// keying it again must replace every key and every ready-to-use object
			_ = k.GenerateKeyForIKESA(append([]byte{0x5a}, secret...), append([]byte{0xa5}, nonce...), sr^0x1111, si^0x2222)
		}
		if err := k.GenerateKeyForIKESA(n2, s2, si, sr); err != nil {
			k = nil
			return "err"
		}
		if !intact() {
			return "(inputs-overwritten " + saKeysSX(k) + ")"
		}
		return saKeysSX(k)
	})
	return out, k
}

func implProbe(k *security.IKESAKey, probe []byte) string {
	return run(func() string {
		// cipher objects: the key they hold is observed through an encryption of a fixed block with a fixed script
		ck := func(c interface{ Encrypt([]byte) ([]byte, error) }) string {
			var o string
			withScript(make([]byte, 64), nil, func(*scriptReader) {
				ct, err := c.Encrypt(make([]byte, 15))
				if err != nil {
					o = "err"
				} else {
					o = hx(ct)
				}
			})
			return o
		}
		return fmt.Sprintf("(ok %s %s %s %s %s %s %s)", probeObj(k.Prf_d, probe), probeObj(k.Integ_i, probe), probeObj(k.Integ_r, probe),
			probeObj(k.Prf_i, probe), probeObj(k.Prf_r, probe), ck(k.Encr_i), ck(k.Encr_r))
	})
}

var (
	heldSA                        *security.IKESAKey
	heldKeys, heldCase, heldProbe string
)

func evalC07(c *Ctx, s suite, nonce, secret []byte, si, sr uint64) error {
	r := c.R
	cs := fmt.Sprintf("(gen_ikesa k %s %s %s %s %s)", s, hx(nonce), hx(secret), hx(be8(si)), hx(be8(sr)))
	impl, k := implGenIkesa(s, nonce, secret, si, sr)
	r.ImplRuns++
	model, err := c.M.Ask(cs)
	if err != nil {
		return err
	}
	r.Count(cs, len(nonce) > 0 && len(secret) > 0, "suite:"+s.String())
	r.Sample(cs)
	if impl != model {
		r.Add(Finding{Kind: "correspondence", What: "GenerateKeyForIKESA keys differ from Impl.generate_key_for_ikesa", Case: cs, Expected: model, Observed: impl})
	}
	fail := func(what, exp, obs string) {
		r.Add(Finding{Kind: "instance", What: what, Case: cs, Expected: exp, Observed: obs})
	}
	if len(nonce) == 0 || len(secret) == 0 {
		if impl != "err" {
			fail("empty nonce or shared secret accepted", "err", impl)
		}
		return nil
	}
	if k == nil {
		fail("key derivation failed", "(ok ...)", impl)
		return nil
	}
	// several live SAs in one process: the keys (and keyed objects) of the SA derived BEFORE this one are still what they
	// were when it was derived
	if heldSA != nil && solo() {
		if now := saKeysSX(heldSA); now != heldKeys {
			r.Add(Finding{Kind: "instance", What: "the keys held by an earlier IKE SA object change when another IKE SA is derived", Case: heldCase + " then " + cs, Expected: heldKeys, Observed: now})
		}
		if now := implProbe(heldSA, []byte("held")); now != heldProbe {
			r.Add(Finding{Kind: "instance", What: "the keyed objects of an earlier IKE SA change when another IKE SA is derived", Case: heldCase + " then " + cs, Expected: heldProbe, Observed: now})
		}
	}
	if solo() && !strings.HasPrefix(impl, "(inputs-overwritten") {
		heldSA, heldKeys, heldCase, heldProbe = k, impl, cs, implProbe(k, []byte("held"))
	}
	// RFC 7296 2.13/2.14 computed independently: SKEYSEED by Go's crypto/hmac, prf+ by the extracted Spec
	skeyseed := stdHmac(s.p, nonce, secret)
	seed := append(append(append([]byte(nil), nonce...), be8(si)...), be8(sr)...)
	ld, la, le := prfKeyLen[s.p], integKeyLen[s.i], encrKeyLen[s.e]
	total := 3*ld + 2*la + 2*le
	ks, err := c.M.Ask(fmt.Sprintf("(spec_prf_plus %s %s %s %d)", s.p, hx(skeyseed), hx(seed), total))
	if err != nil {
		return err
	}
	st := L(A(ks)).B(0)
	cut := func(n int) []byte { x := st[:n]; st = st[n:]; return x }
	wd, wai, war, wei, wer, wpi, wpr := cut(ld), cut(la), cut(la), cut(le), cut(le), cut(ld), cut(ld)
	want := fmt.Sprintf("(ok %s %s %s %s %s %s %s)", hx(wd), hx(wai), hx(war), hx(wei), hx(wer), hx(wpi), hx(wpr))
	if impl != want {
		fail("SK_d, SK_ai, SK_ar, SK_ei, SK_er, SK_pi, SK_pr are not the consecutive slices of prf+(SKEYSEED, Ni|Nr|SPIi|SPIr)", want, impl)
	}
	// the ready-to-use objects are keyed with exactly those keys
	probe := []byte("probe input for the SA objects")
	pi := implProbe(k, probe)
	pm, err := c.M.Ask(fmt.Sprintf("(sa_probe k %s)", hx(probe)))
	if err != nil {
		return err
	}
	refEnc := func(key []byte) string {
		o, _ := implAesEnc(s.e, key, make([]byte, 15), make([]byte, 64), nil)
		if b := okBody(o[1 : len(o)-4]); b != nil { // "((ok x..) nn)"
			return b[0].Atom
		}
		return o
	}
	_ = pm
	wantP := fmt.Sprintf("(ok %s %s %s %s %s %s %s)", hx(stdHmac(s.p, wd, probe)), hx(stdHmac(s.i, wai, probe)), hx(stdHmac(s.i, war, probe)),
		hx(stdHmac(s.p, wpi, probe)), hx(stdHmac(s.p, wpr, probe)), refEnc(wei), refEnc(wer))
	if pi != wantP {
		fail("the SA's PRF / integrity / cipher objects are not keyed with the derived keys", wantP, pi)
	}
	// mutual usability: algorithm descriptors keep their advertised lengths
	if k.EncrInfo.GetKeyLength() != le || k.IntegInfo.GetKeyLength() != la || k.IntegInfo.GetOutputLength() != integOutLen[s.i] ||
		k.PrfInfo.GetKeyLength() != ld || k.PrfInfo.GetOutputLength() != ld {
		fail("algorithm lengths differ from the RFC tables", fmt.Sprint(le, la, integOutLen[s.i], ld),
			fmt.Sprint(k.EncrInfo.GetKeyLength(), k.IntegInfo.GetKeyLength(), k.IntegInfo.GetOutputLength(), k.PrfInfo.GetKeyLength()))
	}
	return nil
}

func runC07(c *Ctx) error {
	c.R.Rule = "all 27 (encryption key size x integrity x PRF) combinations x random nonces (1..512, boundary biased, also empty), shared secrets (1..512), SPI pairs; " +
		"non-trivial = non-empty nonce and secret; distinct by the case"
	r := c.Rng
	if err := replayOrCorpus(c, "C07", func(s *SX) error {
		return evalC07(c, suite{s.At(2).Atom, s.At(3).Atom, s.At(4).Atom}, s.B(5), s.B(6), beU64(s.B(7)), beU64(s.B(8)))
	}); err != nil || c.Replay != "" {
		return err
	}
	per := c.N(6, 200)
	for _, e := range encrIDs {
		for _, i := range hashIDs {
			for _, p := range hashIDs {
				for k := 0; k < per; k++ {
					nl := r.Pick([]int{1, 4, 16, 32, 63, 64, 65, 128, 512, r.Range(1, 512)})
					sl := r.Pick([]int{1, 4, 64, 65, 128, 256, 512, r.Range(1, 512)})
					if k == 0 && r.Chance(1, 3) {
						nl = 0
					}
					if k == 1 && r.Chance(1, 3) {
						sl = 0
					}
					if err := evalC07(c, suite{e, i, p}, r.Bytes(nl), r.Bytes(sl), r.U64(), r.U64()); err != nil {
						return err
					}
				}
			}
		}
	}
	// the Diffie-Hellman step in front of the derivation: two parties through NewIKESAKey, incl. shared secrets with leading zero octets
	return evalIkesaPairs(c, nil, c.N(4, 40))
}

func beU64(b []byte) uint64 {
	var v uint64
	for _, x := range b {
		v = v<<8 | uint64(x)
	}
	return v
}

// ---------- C08: Child SA keys over histories of derivations on one IKE SA object ----------

func implChild(k *security.IKESAKey, e, i string, nonce []byte) string {
	return run(func() string {
		ch := &security.ChildSAKey{EncrKInfo: encr.StrToKType(encrNames[e])}
		if i != "none" {
			ch.IntegKInfo = integ.StrToKType(integNames[i])
		}
		n2, _, intact := adjacent(nonce, []byte("octets of the caller that follow the nonce"))
		if err := ch.GenerateKeyForChildSA(k, n2); err != nil {
			return "err"
		}
		if !intact() {
			return "(inputs-overwritten)"
		}
		return fmt.Sprintf("(ok %s %s %s %s)", hx(ch.InitiatorToResponderEncryptionKey), hx(ch.InitiatorToResponderIntegrityKey),
			hx(ch.ResponderToInitiatorEncryptionKey), hx(ch.ResponderToInitiatorIntegrityKey))
	})
}

func evalC08History(c *Ctx, s suite, ks keyset, steps []*SX) error {
	r := c.R
	k, err := saFromKeys(s, ks.d, ks.ai, ks.ar, ks.ei, ks.er, ks.pi, ks.pr)
	if err != nil {
		return err
	}
	if _, err := c.M.Ask(fmt.Sprintf("(sa_keys h %s %s)", s, ks.sx())); err != nil {
		return err
	}
	hist := L(A("child-history"), A(s.e), A(s.i), A(s.p), L(Hx(ks.d), Hx(ks.ai), Hx(ks.ar), Hx(ks.ei), Hx(ks.er), Hx(ks.pi), Hx(ks.pr)))
	for n, st := range steps {
		hist.Add(st)
		e, i, nonce := st.At(1).Atom, st.At(2).Atom, st.B(3)
		impl := implChild(k, e, i, nonce)
		r.ImplRuns++
		model, err := c.M.Ask(fmt.Sprintf("(child h %s %s %s)", e, i, hx(nonce)))
		if err != nil {
			return err
		}
		cs := hist.String()
		r.Count(fmt.Sprintf("%s#%d", cs, n), n > 0, fmt.Sprintf("esp:%s/%s", e, i))
		if impl != model {
			r.Add(Finding{Kind: "correspondence", What: "GenerateKeyForChildSA differs from Impl.generate_key_for_childsa", Case: cs, Expected: model, Observed: impl})
		}
		// RFC 7296 2.17: KEYMAT = prf+(SK_d, Ni | Nr), order ei, ai, er, ar
		le, li := encrKeyLen[e], 0
		if i != "none" {
			li = integKeyLen[i]
		}
		km, err := c.M.Ask(fmt.Sprintf("(spec_prf_plus %s %s %s %d)", s.p, hx(ks.d), hx(nonce), 2*(le+li)))
		if err != nil {
			return err
		}
		st := L(A(km)).B(0)
		want := fmt.Sprintf("(ok %s %s %s %s)", hx(st[:le]), hx(st[le:le+li]), hx(st[le+li:2*le+li]), hx(st[2*le+li:]))
		if impl != want {
			r.Add(Finding{Kind: "instance", What: fmt.Sprintf("Child SA keys of derivation #%d are not the slices of prf+(SK_d, Ni|Nr)", n+1), Case: cs, Expected: want, Observed: impl})
		}
		// a freshly constructed copy of the IKE SA gives the same keys
		fresh, err := saFromKeys(s, ks.d, ks.ai, ks.ar, ks.ei, ks.er, ks.pi, ks.pr)
		if err == nil {
			if f := implChild(fresh, e, i, nonce); f != impl {
				r.Add(Finding{Kind: "instance", What: fmt.Sprintf("derivation #%d differs from the one on a fresh copy of the IKE SA", n+1), Case: cs, Expected: f, Observed: impl})
			}
		}
	}
	r.Sample(hist.String())
	return nil
}

func runC08(c *Ctx) error {
	c.R.Rule = "histories of 1..100 (thorough: ..1000) Child SA derivations on one IKESAKey object; 3 ESP key sizes x {none, MD5-96, SHA1-96, SHA2-256-128}, " +
		"all 3 PRFs, nonces 0..300 octets incl. empty; non-trivial = not the first derivation of its history; distinct by (history prefix)"
	r := c.Rng
	if err := replayOrCorpus(c, "C08", func(s *SX) error {
		su := suite{s.At(1).Atom, s.At(2).Atom, s.At(3).Atom}
		k := s.At(4)
		return evalC08History(c, su, keyset{k.B(0), k.B(1), k.B(2), k.B(3), k.B(4), k.B(5), k.B(6)}, s.Tail(5))
	}); err != nil || c.Replay != "" {
		return err
	}
	integs := []string{"none", "md5", "sha1", "sha256"}
	for h, nh := 0, c.N(12, 60); h < nh; h++ {
		s := genSuite(r)
		ks := genKeys(r, s)
		n := r.Pick([]int{1, 2, 5, 20, 40})
		if h == 0 {
			n = c.N(100, 1000)
		}
		var steps []*SX
		for k := 0; k < n; k++ {
			nl := r.Pick([]int{0, 1, 16, 32, 64, 300, r.Range(0, 300)})
			steps = append(steps, L(A("derive"), A(encrIDs[r.Intn(3)]), A(integs[r.Intn(4)]), Hx(r.Bytes(nl))))
		}
		if err := evalC08History(c, s, ks, steps); err != nil {
			return err
		}
	}
	// IKE SA objects keyed by the library itself, some of them keyed TWICE (IKE_SA_INIT repeated on one context): the
	// Child SA keys must be the slices of prf+ under the SK_d the object holds now, i.e. what a fresh copy gives
	for h, nh := 0, c.N(24, 300); h < nh; h++ {
		s := genSuite(r)
		obj := newSA(s)
		rounds := 1 + h%2
		for t := 0; t < rounds; t++ {
			if err := obj.GenerateKeyForIKESA(r.Bytes(r.Range(8, 64)), r.Bytes(r.Range(16, 256)), r.U64(), r.U64()); err != nil {
				return err
			}
		}
		ks := keyset{obj.SK_d, obj.SK_ai, obj.SK_ar, obj.SK_ei, obj.SK_er, obj.SK_pi, obj.SK_pr}
		fresh, err := saFromKeys(s, ks.d, ks.ai, ks.ar, ks.ei, ks.er, ks.pi, ks.pr)
		if err != nil {
			return err
		}
		if _, err := c.M.Ask(fmt.Sprintf("(sa_keys h %s %s)", s, ks.sx())); err != nil {
			return err
		}
		for k := 0; k < 3; k++ {
			e, i, nonce := encrIDs[r.Intn(3)], integs[r.Intn(4)], r.Bytes(r.Pick([]int{0, 16, 32, 64}))
			cs := fmt.Sprintf("(rekeyed-child rounds=%d %s (%s) %s %s %s)", rounds, s, ks.sx(), e, i, hx(nonce))
			got, want := implChild(obj, e, i, nonce), implChild(fresh, e, i, nonce)
			c.R.ImplRuns += 2
			c.R.Count(cs, true, fmt.Sprintf("library-keyed:rounds=%d", rounds))
			model, err := c.M.Ask(fmt.Sprintf("(child h %s %s %s)", e, i, hx(nonce)))
			if err != nil {
				return err
			}
			if want != model {
				c.R.Add(Finding{Kind: "correspondence", What: "GenerateKeyForChildSA differs from Impl.generate_key_for_childsa", Case: cs, Expected: model, Observed: want})
			}
			if got != want {
				c.R.Add(Finding{Kind: "instance", What: "Child SA keys of an IKE SA object keyed by GenerateKeyForIKESA differ from those of a fresh copy holding the same SK_d", Case: cs, Expected: want, Observed: got})
			}
		}
	}
	return nil
}
