package main

import (
	"bytes"
	"fmt"
	"math/big"

	"github.com/free5gc/ike/message"
	"github.com/free5gc/ike/security"
	"github.com/free5gc/ike/security/dh"
)

func init() { runners["C09"] = runC09 }

var dhNames = map[string]string{"2": "DH_1024_BIT_MODP", "14": "DH_2048_BIT_MODP"}
var dhLen = map[string]int{"2": 128, "14": 256}

func implDhPublic(g string, x []byte) string {
	return run(func() string { return okS(Hx(dh.StrToType(dhNames[g]).GetPublicValue(new(big.Int).SetBytes(x)))) })
}
func implDhShared(g string, x, y []byte) string {
	return run(func() string {
		// the caller's numbers are its own: an exponent object used for the public value, for a shared secret and for the
		// public value again (one exponent towards several peers) still holds the exponent
		xb, yb := new(big.Int).SetBytes(x), new(big.Int).SetBytes(y)
		t := dh.StrToType(dhNames[g])
		p1 := t.GetPublicValue(xb)
		sh := t.GetSharedKey(xb, yb)
		p2 := t.GetPublicValue(xb)
		if xb.Cmp(new(big.Int).SetBytes(x)) != 0 || yb.Cmp(new(big.Int).SetBytes(y)) != 0 || !bytes.Equal(p1, p2) {
			return "(arguments-modified " + hx(xb.Bytes()) + " " + hx(yb.Bytes()) + ")"
		}
		return okS(Hx(sh))
	})
}

func padTo(b []byte, n int) []byte {
	if len(b) >= n {
		return b
	}
	return append(make([]byte, n-len(b)), b...)
}

func runC09(c *Ctx) error {
	r := c.R
	rng := c.Rng
	r.Rule = "exponents {0, 1, 2, 1023, 1024, 1025, 2047, 2048, p-1, p, random up to 2^64, full-size random} x peer values {0, 1, 2, p-1, p, p+1, > p, random, " +
		"values whose results have leading zero octets} for both groups; GenerateRandomNumber with scripted sources (all-ones, small values, failures at every read); " +
		"NewIKESAKey end to end for two parties; non-trivial = exponent > 2; distinct by the case"
	if c.Replay != "" {
		return nil
	}
	primes := map[string]*big.Int{}
	for _, g := range []string{"2", "14"} {
		ph, err := c.M.Ask("(dh_prime " + g + ")")
		if err != nil {
			return err
		}
		primes[g] = new(big.Int).SetBytes(L(A(ph)).B(0)) // the RFC constant of Spec/Modp.v
	}
	fail := func(what, cs, exp, obs string) {
		r.Add(Finding{Kind: "instance", What: what, Case: cs, Expected: exp, Observed: obs})
	}
	two := big.NewInt(2)
	nFull := c.N(3, 40)
	for _, g := range []string{"2", "14"} {
		p := primes[g]
		L0 := dhLen[g]
		pm1 := new(big.Int).Sub(p, big.NewInt(1))
		pp1 := new(big.Int).Add(p, big.NewInt(1))
		var exps [][]byte
		for _, v := range []int64{0, 1, 2, 3, 1023, 1024, 1025, 2047, 2048, 65537} {
			exps = append(exps, big.NewInt(v).Bytes())
		}
		exps = append(exps, pm1.Bytes(), p.Bytes(), new(big.Int).Rsh(pm1, 1).Bytes())
		for i := 0; i < c.N(6, 60); i++ {
			exps = append(exps, rng.Bytes(rng.Range(1, 8)))
		}
		for i := 0; i < nFull; i++ {
			exps = append(exps, rng.Bytes(L0))
		}
		peers := [][]byte{{}, {1}, {2}, pm1.Bytes(), p.Bytes(), pp1.Bytes(), append([]byte{1}, rng.Bytes(L0)...), rng.Bytes(L0), rng.Bytes(L0 / 2)}
		for xi, x := range exps {
			xb := new(big.Int).SetBytes(x)
			heavy := len(x) > 2 && !(c.Thor && len(x) <= 3) // the extracted Z arithmetic is schoolbook: model queried for small exponents only (64-bit exponents took > 30 min)
			cs := fmt.Sprintf("(dh_public %s %s)", g, hx(x))
			impl := implDhPublic(g, x)
			r.ImplRuns++
			r.Count(cs, xb.Cmp(two) > 0, "group"+g+":public")
			if !heavy {
				model, err := c.M.Ask(cs)
				if err != nil {
					return err
				}
				if impl != model {
					r.Add(Finding{Kind: "correspondence", What: "GetPublicValue differs from Impl.dh_public", Case: cs, Expected: model, Observed: impl})
				}
			}
			want := okS(Hx(padTo(new(big.Int).Exp(two, xb, p).Bytes(), L0)))
			if impl != want {
				fail("public value is not 2^x mod the RFC prime as a big-endian string of the modulus length", cs, want, impl)
			}
			for yi, y := range peers {
				cs := fmt.Sprintf("(dh_shared %s %s %s)", g, hx(x), hx(y))
				impl := implDhShared(g, x, y)
				r.ImplRuns++
				r.Count(cs, xb.Cmp(two) > 0, "group"+g+":shared")
				if !heavy && (yi%3 == xi%3 || c.Thor) {
					model, err := c.M.Ask(cs)
					if err != nil {
						return err
					}
					if impl != model {
						r.Add(Finding{Kind: "correspondence", What: "GetSharedKey differs from Impl.dh_shared", Case: cs, Expected: model, Observed: impl})
					}
				}
				want := okS(Hx(padTo(new(big.Int).Exp(new(big.Int).SetBytes(y), xb, p).Bytes(), L0)))
				if impl != want {
					fail("shared secret is not y^x mod the RFC prime as a big-endian string of the modulus length", cs, want, impl)
				}
			}
		}
		// exponent sweep: results whose length is at, just below and well below the modulus length (a result with k
		// leading zero octets has probability 256^-k, so these classes are searched for with cheap small exponents)
		lead := func(v *big.Int) string {
			bl := v.BitLen()
			switch {
			case bl > 8*(L0-1):
				return "full"
			case bl == 8*(L0-1):
				return "exactly-one-zero-octet-top-bit-set"
			case bl > 8*(L0-2):
				return "one-zero-octet"
			case bl > 8*(L0-4):
				return "2-3-zero-octets"
			}
			return "short"
		}
		t0 := dh.StrToType(dhNames[g])
		for x := 0; x < c.N(9000, 120000); x++ {
			xb := big.NewInt(int64(x))
			v := new(big.Int).Exp(two, xb, p)
			got := t0.GetPublicValue(xb)
			r.ImplRuns++
			cl := lead(v)
			if cl != "full" || x%64 == 0 {
				r.Count(fmt.Sprintf("(dh_public %s %s)", g, hx(xb.Bytes())), x > 2, "group"+g+":public-sweep:"+cl)
			}
			if want := padTo(v.Bytes(), L0); !bytes.Equal(got, want) {
				fail("public value is not 2^x mod the RFC prime as a big-endian string of the modulus length", fmt.Sprintf("(dh_public %s %s)", g, hx(xb.Bytes())), okS(Hx(want)), okS(Hx(got)))
			}
			for _, y := range []int64{3, 5, 65537} {
				if x%3 != int(y%3) && !c.Thor {
					continue
				}
				yb := big.NewInt(y)
				v := new(big.Int).Exp(yb, xb, p)
				got := t0.GetSharedKey(xb, yb)
				r.ImplRuns++
				cl := lead(v)
				if cl != "full" {
					r.Count(fmt.Sprintf("(dh_shared %s %s %s)", g, hx(xb.Bytes()), hx(yb.Bytes())), x > 2, "group"+g+":shared-sweep:"+cl)
				}
				if want := padTo(v.Bytes(), L0); !bytes.Equal(got, want) {
					fail("shared secret is not y^x mod the RFC prime as a big-endian string of the modulus length", fmt.Sprintf("(dh_shared %s %s %s)", g, hx(xb.Bytes()), hx(yb.Bytes())), okS(Hx(want)), okS(Hx(got)))
				}
			}
		}
		// agreement between two parties, incl. results with leading zero octets (searched for)
		zeroLead := 0
		for i, n := 0, c.N(40, 2000); i < n; i++ {
			a, b := rng.Bytes(rng.Pick([]int{2, 8, 32})), rng.Bytes(rng.Pick([]int{2, 8, 32}))
			if i < 2 {
				a, b = rng.Bytes(L0), rng.Bytes(L0)
			}
			t := dh.StrToType(dhNames[g])
			A1, B1 := new(big.Int).SetBytes(a), new(big.Int).SetBytes(b)
			pa, pb := t.GetPublicValue(A1), t.GetPublicValue(B1)
			sa := t.GetSharedKey(A1, new(big.Int).SetBytes(pb))
			sb := t.GetSharedKey(B1, new(big.Int).SetBytes(pa))
			cs := fmt.Sprintf("(dh_agree %s %s %s)", g, hx(a), hx(b))
			r.ImplRuns++
			r.Count(cs, true, "group"+g+":agreement")
			if !bytes.Equal(sa, sb) || len(sa) != L0 || len(pa) != L0 || len(pb) != L0 {
				fail("two parties do not compute the same fixed-length shared secret", cs, hx(sa), hx(sb))
			}
			if sa[0] == 0 || pa[0] == 0 || pb[0] == 0 {
				zeroLead++
			}
		}
		r.Hist["group"+g+":leading-zero-results"] = zeroLead
	}
	// GenerateRandomNumber with scripted sources
	ones := bytes.Repeat([]byte{0xff}, 256)
	small := append(make([]byte, 240), bytes.Repeat([]byte{0xff}, 16)...)        // = 2^128 - 1: rejected
	just := append(make([]byte, 239), append([]byte{1}, make([]byte, 16)...)...) // = 2^128: accepted
	scripts := []struct {
		data  []byte
		fails []int
	}{
		{rng.Bytes(256), nil}, {append(append([]byte(nil), ones...), rng.Bytes(256)...), nil},
		{append(append([]byte(nil), small...), rng.Bytes(256)...), nil}, {just, nil},
		{append(append(append([]byte(nil), make([]byte, 256)...), ones...), rng.Bytes(300)...), nil},
		{rng.Bytes(100), nil}, {nil, nil}, {append(append([]byte(nil), small...), rng.Bytes(100)...), nil},
	}
	// runs of k consecutive rejected draws (a degraded source: zeros, tiny values, exactly the lower bound), then an acceptable one
	for k := 1; k <= 9; k++ {
		var d []byte
		for j := 0; j < k; j++ {
			switch (j + k) % 3 {
			case 0:
				d = append(d, make([]byte, 256)...)
			case 1:
				d = append(d, small...)
			default:
				d = append(d, append(make([]byte, 250), rng.Bytes(6)...)...)
			}
		}
		tail := rng.Bytes(256)
		if k%2 == 0 {
			tail = just
		}
		scripts = append(scripts, struct {
			data  []byte
			fails []int
		}{append(d, tail...), nil})
		// ... and a source that never recovers: every window rejected until it is exhausted -> an error, never a key
		scripts = append(scripts, struct {
			data  []byte
			fails []int
		}{append([]byte(nil), d...), nil})
	}
	for p := 0; p < 256; p += c.N(17, 1) {
		scripts = append(scripts, struct {
			data  []byte
			fails []int
		}{rng.Bytes(256), []int{p}})
	}
	lo := new(big.Int).Lsh(big.NewInt(1), 128)
	hi := new(big.Int).Sub(new(big.Int).Lsh(big.NewInt(1), 2048), big.NewInt(1))
	for _, sc := range scripts {
		cs := fmt.Sprintf("(gen_random %s)", rndSX(sc.data, sc.fails))
		var impl string
		var val *big.Int
		var used int
		withScript(sc.data, sc.fails, func(sr *scriptReader) {
			impl = run(func() string {
				n, err := security.GenerateRandomNumber()
				if err != nil {
					return fmt.Sprintf("(err %d)", sr.left())
				}
				val = n
				return fmt.Sprintf("((ok %s) %d)", hx(n.Bytes()), sr.left())
			})
			used = sr.pos
		})
		r.ImplRuns++
		model, err := c.M.Ask(cs)
		if err != nil {
			return err
		}
		r.Count(cs, len(sc.data) >= 256, "gen_random")
		if impl != model {
			r.Add(Finding{Kind: "correspondence", What: "GenerateRandomNumber differs from Impl.generate_random_number", Case: cs, Expected: model, Observed: impl})
		}
		faulty := len(sc.fails) > 0 || len(sc.data)%256 != 0 || len(sc.data) == 0
		if val != nil {
			if val.Cmp(lo) < 0 || val.Cmp(hi) >= 0 {
				fail("generated exponent outside [2^128, 2^2048 - 2]", cs, "in range", val.String())
			}
			if used < 256 || !bytes.Equal(padTo(val.Bytes(), 256), sc.data[used-256:used]) {
				fail("generated exponent is not the last 256 octets drawn from the random source", cs, "source octets", hx(val.Bytes()))
			}
		} else if !faulty && impl != "fault" {
			// all 256-octet windows rejected is possible only for the crafted scripts; they end with an exhausted source
			_ = faulty
		}
		if impl == "fault" {
			fail("GenerateRandomNumber crashes", cs, "value or error", impl)
		}
	}
	// two calls return different exponents when the source returns different octets
	{
		d := rng.Bytes(512)
		var a, b *big.Int
		withScript(d, nil, func(*scriptReader) {
			a, _ = security.GenerateRandomNumber()
			b, _ = security.GenerateRandomNumber()
		})
		if a == nil || b == nil || a.Cmp(b) == 0 {
			fail("consecutive exponents are equal", "(gen_random twice)", "different", "equal")
		}
	}
	return evalIkesaPairs(c, primes, c.N(4, 60))
}

// NewIKESAKey end to end: two parties, scripted exponents; local public value = 2^x mod p; both derive the keys an
// independent party derives from g^ir of the modulus length (used by C09 and C07)
func evalIkesaPairs(c *Ctx, primes map[string]*big.Int, n int) error {
	r := c.R
	rng := c.Rng
	two := big.NewInt(2)
	fail := func(what, cs, exp, obs string) {
		r.Add(Finding{Kind: "instance", What: what, Case: cs, Expected: exp, Observed: obs})
	}
	if primes == nil {
		primes = map[string]*big.Int{}
		for _, g := range []string{"2", "14"} {
			ph, err := c.M.Ask("(dh_prime " + g + ")")
			if err != nil {
				return err
			}
			primes[g] = new(big.Int).SetBytes(L(A(ph)).B(0))
		}
	}
	// NewIKESAKey end to end: two parties, scripted exponents; local public value = 2^x mod p
	for i := 0; i < n; i++ {
		g := []string{"2", "14"}[i%2]
		s := genSuite(rng)
		prop := &message.Proposal{ProtocolID: message.TypeIKE}
		mk := func(ty uint8, id uint16) *message.Transform {
			return &message.Transform{TransformType: ty, TransformID: id}
		}
		prop.DiffieHellmanGroup = append(prop.DiffieHellmanGroup, mk(4, map[string]uint16{"2": 2, "14": 14}[g]))
		prop.EncryptionAlgorithm = append(prop.EncryptionAlgorithm, &message.Transform{TransformType: 1, TransformID: 12, AttributePresent: true,
			AttributeFormat: 1, AttributeType: 14, AttributeValue: uint16(encrKeyLen[s.e] * 8)})
		prop.IntegrityAlgorithm = append(prop.IntegrityAlgorithm, mk(3, map[string]uint16{"md5": 1, "sha1": 2, "sha256": 12}[s.i]))
		prop.PseudorandomFunction = append(prop.PseudorandomFunction, mk(2, map[string]uint16{"md5": 1, "sha1": 2, "sha256": 5}[s.p]))
		xa, xb := rng.Bytes(256), rng.Bytes(256)
		xa[0] &= 0x7f
		xb[0] &= 0x7f
		p := primes[g]
		pubA := padTo(new(big.Int).Exp(two, new(big.Int).SetBytes(xa), p).Bytes(), dhLen[g])
		if i%2 == 1 || i >= 2 {
			// half of the pairs: a responder exponent (just above the 2^128 lower bound, so the search is cheap) for which
			// g^ir starts with a zero octet - the representation of the shared secret matters exactly then
			A := new(big.Int).SetBytes(pubA)
			for t := 0; t < 6000; t++ {
				cand := make([]byte, 256)
				copy(cand[239:], rng.Bytes(17))
				cand[239] |= 1
				if sh := new(big.Int).Exp(A, new(big.Int).SetBytes(cand), p); sh.BitLen() <= 8*(dhLen[g]-1) {
					xb = cand
					r.Hist["new-ikesa-pair:shared-secret-with-leading-zero-octet"]++
					break
				}
			}
		}
		nonce := rng.Bytes(64)
		si, sr := rng.U64(), rng.U64()
		var kb, ka *security.IKESAKey
		var pubB, pubA2 []byte
		var errA, errB error
		withScript(xb, nil, func(*scriptReader) { kb, pubB, errB = security.NewIKESAKey(prop, pubA, nonce, si, sr) })
		withScript(xa, nil, func(*scriptReader) { ka, pubA2, errA = security.NewIKESAKey(prop, pubB, nonce, si, sr) })
		cs := fmt.Sprintf("(new_ikesa_pair %s %s %s %s)", g, s, hx(xa), hx(xb))
		r.ImplRuns += 2
		r.Count(cs, true, "new-ikesa-pair:group"+g)
		if errA != nil || errB != nil {
			fail("NewIKESAKey fails for a supported proposal", cs, "ok", fmt.Sprint(errA, errB))
			continue
		}
		if !bytes.Equal(pubA, pubA2) {
			fail("local public value returned by NewIKESAKey is not 2^x mod p for the exponent drawn", cs, hx(pubA), hx(pubA2))
		}
		if saKeysSX(ka) != saKeysSX(kb) {
			fail("initiator and responder that exchanged public values do not derive identical keys", cs, saKeysSX(ka), saKeysSX(kb))
		}
		// ... and they are the keys an independent party derives from g^ir = B^a mod p as an octet string of the modulus length
		gir := padTo(new(big.Int).Exp(new(big.Int).SetBytes(pubB), new(big.Int).SetBytes(xa), p).Bytes(), dhLen[g])
		if ref, _ := implGenIkesa(s, nonce, gir, si, sr); ref != saKeysSX(kb) {
			fail("the keys NewIKESAKey derives are not those of prf+ over SKEYSEED = prf(Ni|Nr, g^ir) with g^ir of the modulus length", cs, ref, saKeysSX(kb))
		}
		// the same peer value presented again: a NEW exponent is drawn every time (here: the scripted one), and a random
		// source that fails yields an error, not a key - whatever the library saw before
		xc := rng.Bytes(256)
		xc[0] &= 0x7f
		xc[17] |= 1
		var pubC []byte
		var errC, errF error
		var kF *security.IKESAKey
		withScript(xc, nil, func(*scriptReader) { _, pubC, errC = security.NewIKESAKey(prop, pubA, nonce, si, sr) })
		withScript(nil, nil, func(*scriptReader) { kF, _, errF = security.NewIKESAKey(prop, pubA, nonce, si, sr) })
		rcs := fmt.Sprintf("(new_ikesa_again %s %s peer=%s exponents %s then %s then an exhausted source)", g, s, hx(pubA), hx(xb), hx(xc))
		r.ImplRuns += 2
		r.Count(rcs, true, "new-ikesa-again:group"+g)
		if wantC := padTo(new(big.Int).Exp(two, new(big.Int).SetBytes(xc), p).Bytes(), dhLen[g]); errC != nil || !bytes.Equal(pubC, wantC) {
			fail("a repeated NewIKESAKey with the same peer value does not use the exponent drawn for it (exponents must differ from call to call)", rcs, hx(wantC), fmt.Sprint(hx(pubC), errC))
		}
		if errF == nil || kF != nil {
			fail("NewIKESAKey returns a key although the random source fails", rcs, "error", "key")
		}
		// one party, ANY peer value 0 <= y < 2^2056 in any representation (shorter than the modulus, with leading zero
		// octets, one octet longer than the modulus, >= p): the shared secret is y^x mod p all the same
		L0 := dhLen[g]
		ys := [][]byte{{}, {1}, rng.Bytes(L0 / 2), rng.Bytes(L0), append([]byte{0}, rng.Bytes(L0)...), append([]byte{byte(1 + rng.Intn(255))}, rng.Bytes(L0)...),
			append(rng.Bytes(1), pubA...), p.Bytes(), new(big.Int).Add(p, big.NewInt(1)).Bytes()}
		if g == "2" {
			ys = append(ys, append(rng.Bytes(129), rng.Bytes(L0)...)) // up to 257 octets for the 1024-bit group as well
		}
		for _, y := range ys {
			var ky *security.IKESAKey
			var errY error
			withScript(xb, nil, func(*scriptReader) { ky, _, errY = security.NewIKESAKey(prop, y, nonce, si, sr) })
			ycs := fmt.Sprintf("(new_ikesa_peer %s %s %s %s)", g, s, hx(xb), hx(y))
			r.ImplRuns++
			r.Count(ycs, true, fmt.Sprintf("new-ikesa-peer:group%s:peer-octets=%d", g, len(y)))
			if errY != nil {
				fail("NewIKESAKey fails for a supported proposal and a peer value below 2^2056", ycs, "ok", fmt.Sprint(errY))
			} else {
				sec := padTo(new(big.Int).Exp(new(big.Int).SetBytes(y), new(big.Int).SetBytes(xb), p).Bytes(), L0)
				if ref, _ := implGenIkesa(s, nonce, sec, si, sr); ref != saKeysSX(ky) {
					fail("the keys NewIKESAKey derives from a peer value are not those of the shared secret y^x mod p of the modulus length", ycs, ref, saKeysSX(ky))
				}
			}
		}
	}
	return nil
}
