package main

import (
	"bytes"
	"fmt"
	"strings"

	"github.com/free5gc/ike/security/encr"
)

func init() { runners["C10"] = runC10 }

// (enc e xkey xplain (rnd ...)) : NewCrypto(key) then Encrypt(plain) with a scripted random source
func implAesEnc(e string, key, plain []byte, script []byte, fails []int) (out string, ct []byte) {
	out = run(func() string {
		c, err := encr.StrToType(encrNames[e]).NewCrypto(scratchArg(0, key))
		if err != nil {
			return "newcrypto-err"
		}
		var res string
		withScript(script, fails, func(sr *scriptReader) {
			o, err := c.Encrypt(append([]byte(nil), plain...))
			if err != nil {
				res = fmt.Sprintf("(err %d)", sr.left())
				return
			}
			ct = o
			res = fmt.Sprintf("((ok %s) %d)", hx(o), sr.left())
		})
		return res
	})
	return
}

func implAesDec(e string, key, ct []byte) string {
	return run(func() string {
		c, err := encr.StrToType(encrNames[e]).NewCrypto(scratchArg(0, key))
		if err != nil {
			return "newcrypto-err"
		}
		p, err := c.Decrypt(ct)
		if err != nil {
			return "err"
		}
		return okS(Hx(p))
	})
}

func evalC10Enc(c *Ctx, e string, key, plain, script []byte, fails []int) error {
	r := c.R
	cs := fmt.Sprintf("(enc %s %s %s %s)", e, hx(key), hx(plain), rndSX(script, fails))
	impl, ct := implAesEnc(e, key, plain, script, fails)
	r.ImplRuns++
	var model string
	nk, err := c.M.Ask(fmt.Sprintf("(new_crypto %s %s)", e, hx(key)))
	if err != nil {
		return err
	}
	if nk == "err" {
		model = "newcrypto-err"
	} else {
		m, err := c.M.Ask(fmt.Sprintf("(aes_encrypt %s %s %s)", hx(key), hx(plain), rndSX(script, fails)))
		if err != nil {
			return err
		}
		model = m
		if len(m) > 5 && m[:5] == "(err " {
			model = m
		}
	}
	r.Count(cs, len(key) == encrKeyLen[e], "enc:"+e)
	r.Sample(cs)
	if impl != model {
		r.Add(Finding{Kind: "correspondence", What: "NewCrypto/Encrypt differs from Impl.aes_encrypt", Case: cs, Expected: model, Observed: impl})
	}
	// ---- instances of C10 on the implementation's own output ----
	fail := func(what, exp, obs string) {
		r.Add(Finding{Kind: "instance", What: what, Case: cs, Expected: exp, Observed: obs})
	}
	if len(key) != encrKeyLen[e] {
		if impl != "newcrypto-err" {
			fail("a key of the wrong size is not refused", "newcrypto-err", impl)
		}
		return nil
	}
	n := len(plain)
	pad := 16 - n%16
	need := pad + 16
	faulty := false
	for _, p := range fails {
		if p < need {
			faulty = true
		}
	}
	if len(script) < need {
		faulty = true
	}
	if faulty {
		if ct != nil || impl == "fault" || !strings.HasPrefix(impl, "(err ") {
			fail("a failing random source produced a ciphertext or a crash", "error", impl)
		}
		return nil
	}
	if ct == nil {
		fail("encryption failed with a healthy random source", "(ok ...)", impl)
		return nil
	}
	if len(ct) < 32 || (len(ct)-16)%16 != 0 || !(n < len(ct)-16 && len(ct)-16 <= n+256) {
		fail("size law |c| = 16 + 16k, n < 16k <= n + 256", "", fmt.Sprint(len(ct)))
	}
	if !bytes.Equal(ct[:16], script[pad:pad+16]) {
		fail("IV is not drawn from the random source", hx(script[pad:pad+16]), hx(ct[:16]))
	}
	dec := implAesDec(e, key, ct)
	if dec != okS(Hx(plain)) {
		fail("Decrypt(Encrypt(p)) differs from p", okS(Hx(plain)), dec)
	}
	// textbook AES-CBC (model's cbc_dec over Go's raw AES block function)
	tb, err := c.M.Ask(fmt.Sprintf("(cbc_dec %s %s %s)", hx(key), hx(ct[:16]), hx(ct[16:])))
	if err != nil {
		return err
	}
	k16 := len(ct) - 16
	want := append(append([]byte(nil), plain...), script[:k16-n-1]...)
	want = append(want, byte(k16-n-1))
	if tb != hx(want) {
		fail("ciphertext is not textbook CBC of plaintext | pad | pad length", hx(want), tb)
	}
	return nil
}

func evalC10Dec(c *Ctx, e string, key, ct []byte) error {
	r := c.R
	cs := fmt.Sprintf("(dec %s %s %s)", e, hx(key), hx(ct))
	impl := implAesDec(e, key, exact(ct))
	implS := implAesDec(e, key, spare(ct, 0x33))
	r.ImplRuns += 2
	model, err := c.M.Ask(fmt.Sprintf("(aes_decrypt %s %s)", hx(key), hx(ct)))
	if err != nil {
		return err
	}
	r.Count(cs, len(ct) > 0, fmt.Sprintf("dec:len%%16=%d", len(ct)%16))
	if impl != model {
		r.Add(Finding{Kind: "correspondence", What: "Decrypt differs from Impl.aes_decrypt", Case: cs, Expected: model, Observed: impl})
	}
	if impl == "fault" || implS == "fault" {
		r.Add(Finding{Kind: "instance", What: "Decrypt crashes on malformed ciphertext", Case: cs, Expected: "error", Observed: impl})
		return nil
	}
	if impl != implS {
		r.Add(Finding{Kind: "instance", What: "Decrypt outcome depends on memory behind the slice", Case: cs, Expected: impl, Observed: implS})
	}
	// expected by the textbook: too short / misaligned / impossible pad -> error
	want := "err"
	if len(ct) >= 32 && len(ct)%16 == 0 {
		tb, err := c.M.Ask(fmt.Sprintf("(cbc_dec %s %s %s)", hx(key), hx(ct[:16]), hx(ct[16:])))
		if err != nil {
			return err
		}
		p := L(A(tb)).B(0)
		padl := int(p[len(p)-1])
		if padl+1 <= len(p) {
			want = okS(Hx(p[:len(p)-padl-1]))
		}
	}
	if impl != want {
		r.Add(Finding{Kind: "instance", What: "Decrypt result is not the textbook CBC plaintext without padding / bad input not refused", Case: cs, Expected: want, Observed: impl})
	}
	return nil
}

func runC10(c *Ctx) error {
	c.R.Rule = "keys of 16/24/32 octets and wrong sizes 0..64; plaintexts 0..4096 (boundary biased); scripted random source incl. a failure at " +
		"every consumed position; ciphertext strings of every length 0..96 with all 256 values of the recovered pad-length octet; call sequences on one object; " +
		"non-trivial = right-size key (enc) / non-empty ciphertext (dec); distinct by the case"
	r := c.Rng
	if err := replayOrCorpus(c, "C10", func(s *SX) error {
		switch s.Head() {
		case "enc":
			sc, f := parseRnd(s.At(4))
			return evalC10Enc(c, s.At(1).Atom, s.B(2), s.B(3), sc, f)
		case "dec":
			return evalC10Dec(c, s.At(1).Atom, s.B(2), s.B(3))
		}
		return nil
	}); err != nil || c.Replay != "" {
		return err
	}
	// encryptions
	for i, n := 0, c.N(250, 8000); i < n; i++ {
		e := encrIDs[r.Intn(3)]
		key := r.Bytes(encrKeyLen[e])
		pl := r.Pick([]int{0, 1, 15, 16, 17, 31, 32, 33, 47, 48, 255, 256, 1000, 4095, 4096, r.Range(0, 4096), r.Range(0, 64)})
		plain := r.Bytes(pl)
		script := r.Bytes(40)
		if err := evalC10Enc(c, e, key, plain, script, nil); err != nil {
			return err
		}
	}
	// wrong key sizes 0..64 for each algorithm
	for _, e := range encrIDs {
		for kl := 0; kl <= 64; kl++ {
			if err := evalC10Enc(c, e, r.Bytes(kl), r.Bytes(20), r.Bytes(40), nil); err != nil {
				return err
			}
		}
	}
	// failing source at every position consumed (and script exhaustion)
	for _, pl := range []int{0, 5, 15, 16} {
		e := encrIDs[r.Intn(3)]
		key, plain, script := r.Bytes(encrKeyLen[e]), r.Bytes(pl), r.Bytes(34)
		for p := 0; p < 34; p++ {
			if err := evalC10Enc(c, e, key, plain, script, []int{p}); err != nil {
				return err
			}
		}
		for sl := 0; sl < 33; sl += 3 {
			if err := evalC10Enc(c, e, key, plain, script[:sl], nil); err != nil {
				return err
			}
		}
	}
	// ciphertexts: every length 0..96, all 256 pad octets for the aligned ones
	for l := 0; l <= 96; l++ {
		e := encrIDs[l%3]
		key := r.Bytes(encrKeyLen[e])
		if l >= 32 && l%16 == 0 {
			for v := 0; v < 256; v++ {
				if !c.Thor && v > 40 && v%7 != l%7 && v != 255 && v != l-16 && v != l-17 && v != l-15 {
					continue
				}
				pt := r.Bytes(l - 16)
				pt[len(pt)-1] = byte(v)
				iv := r.Bytes(16)
				body, err := c.M.Ask(fmt.Sprintf("(cbc_enc %s %s %s)", hx(key), hx(iv), hx(pt)))
				if err != nil {
					return err
				}
				ct := append(iv, L(A(body)).B(0)...)
				if err := evalC10Dec(c, e, key, ct); err != nil {
					return err
				}
			}
		} else {
			for k := 0; k < 3; k++ {
				if err := evalC10Dec(c, e, key, r.Bytes(l)); err != nil {
					return err
				}
			}
		}
	}
	// call sequences on one object: IVs are successive, pairwise disjoint windows of the source
	for h, nh := 0, c.N(6, 200); h < nh; h++ {
		e := encrIDs[r.Intn(3)]
		key := r.Bytes(encrKeyLen[e])
		obj, err := encr.StrToType(encrNames[e]).NewCrypto(key)
		if err != nil {
			return err
		}
		script := r.Bytes(2000)
		var ivs [][]byte
		withScript(script, nil, func(sr *scriptReader) {
			for k, nk := 0, r.Range(2, 20); k < nk; k++ {
				plain := r.Bytes(r.Range(0, 60))
				before := sr.pos
				ct, err := obj.Encrypt(plain)
				cs := fmt.Sprintf("(enc-history %s call %d)", e, k)
				c.R.Count(fmt.Sprintf("%s %d %x", cs, h, plain), true, "enc-history")
				c.R.ImplRuns++
				if err != nil {
					c.R.Add(Finding{Kind: "instance", What: "encryption in a call sequence fails", Case: cs, Expected: "ok", Observed: "err"})
					continue
				}
				pad := 16 - len(plain)%16
				if !bytes.Equal(ct[:16], script[before+pad:before+pad+16]) || sr.pos != before+pad+16 {
					c.R.Add(Finding{Kind: "instance", What: "IV of a later call is not the next window of the random source (cached or derived IV)",
						Case: cs, Expected: hx(script[before+pad : before+pad+16]), Observed: hx(ct[:16])})
				}
				for _, o := range ivs {
					if bytes.Equal(o, ct[:16]) {
						c.R.Add(Finding{Kind: "instance", What: "IV repeated across calls", Case: cs, Expected: "fresh IV", Observed: hx(ct[:16])})
					}
				}
				ivs = append(ivs, ct[:16])
			}
		})
	}
	return nil
}
