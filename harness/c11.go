package main

import (
	"fmt"

	"github.com/free5gc/ike/message"
	"github.com/free5gc/ike/security"
	"github.com/free5gc/ike/security/dh"
	"github.com/free5gc/ike/security/encr"
	"github.com/free5gc/ike/security/esn"
	"github.com/free5gc/ike/security/integ"
	"github.com/free5gc/ike/security/prf"
)

func init() { runners["C11"] = runC11 }

// names <-> short ids used by the model
var encrByName = map[string]string{"ENCR_AES_CBC_128": "128", "ENCR_AES_CBC_192": "192", "ENCR_AES_CBC_256": "256"}
var integByName = map[string]string{"AUTH_HMAC_MD5_96": "md5", "AUTH_HMAC_SHA1_96": "sha1", "AUTH_HMAC_SHA2_256_128": "sha256"}
var prfByName = map[string]string{"PRF_HMAC_MD5": "md5", "PRF_HMAC_SHA1": "sha1", "PRF_HMAC_SHA2_256": "sha256"}
var dhByName = map[string]string{"DH_1024_BIT_MODP": "2", "DH_2048_BIT_MODP": "14"}

// implDecode: which advertised algorithm (by short id) a decode function maps the transform to
func implTrDecode(kind string, t *message.Transform) string {
	return run(func() string {
		switch kind {
		case "encr":
			v := encr.DecodeTransform(t)
			for n, id := range encrByName {
				if v != nil && v == encr.StrToType(n) {
					return id
				}
			}
			if v != nil {
				return "foreign-object"
			}
		case "encrk":
			v := encr.DecodeTransformChildSA(t)
			for n, id := range encrByName {
				if v != nil && v == encr.StrToKType(n) {
					return id
				}
			}
			if v != nil {
				return "foreign-object"
			}
		case "integ":
			v := integ.DecodeTransform(t)
			for n, id := range integByName {
				if v != nil && v == integ.StrToType(n) {
					return id
				}
			}
			if v != nil {
				return "foreign-object"
			}
		case "integk":
			v := integ.DecodeTransformChildSA(t)
			for n, id := range integByName {
				if v != nil && v == integ.StrToKType(n) {
					return id
				}
			}
			if v != nil {
				return "foreign-object"
			}
		case "prf":
			v := prf.DecodeTransform(t)
			for n, id := range prfByName {
				if v != nil && v == prf.StrToType(n) {
					return id
				}
			}
			if v != nil {
				return "foreign-object"
			}
		case "dh":
			v := dh.DecodeTransform(t)
			for n, id := range dhByName {
				if v != nil && v == dh.StrToType(n) {
					return id
				}
			}
			if v != nil {
				return "foreign-object"
			}
		case "esn":
			v, err := esn.DecodeTransform(t)
			if err != nil {
				return "none"
			}
			if v.GetNeedESN() {
				return "esn1"
			}
			return "esn0"
		}
		return "none"
	})
}

// expected result by the RFC tables, written independently of library and model
func expectTrDecode(kind string, t *message.Transform) string {
	switch kind {
	case "encr", "encrk":
		if t.TransformID == 12 && t.AttributeType == 14 {
			switch t.AttributeValue {
			case 128, 192, 256:
				return fmt.Sprint(t.AttributeValue)
			}
		}
	case "integ", "integk":
		switch t.TransformID {
		case 1:
			return "md5"
		case 2:
			return "sha1"
		case 12:
			return "sha256"
		}
	case "prf":
		switch t.TransformID {
		case 1:
			return "md5"
		case 2:
			return "sha1"
		case 5:
			return "sha256"
		}
	case "dh":
		switch t.TransformID {
		case 2:
			return "2"
		case 14:
			return "14"
		}
	case "esn":
		switch t.TransformID {
		case 0:
			return "esn0"
		case 1:
			return "esn1"
		}
	}
	return "none"
}

var trKinds = []string{"encr", "encrk", "integ", "integk", "prf", "dh", "esn"}
var kindType = map[string]uint8{"encr": 1, "encrk": 1, "integ": 3, "integk": 3, "prf": 2, "dh": 4, "esn": 5}

type attrClass struct {
	name    string
	present bool
	format  uint8
	atype   uint16
	aval    uint16
	vari    []byte
}

func attrClasses(r *Rng) []attrClass {
	cl := []attrClass{{"absent", false, 0, 0, 0, nil}}
	for _, v := range []uint16{0, 1, 64, 127, 128, 129, 191, 192, 193, 255, 256, 257, 512, 65535, uint16(r.Intn(65536))} {
		cl = append(cl, attrClass{fmt.Sprintf("keylen=%d", v), true, 1, 14, v, nil})
	}
	for _, at := range []uint16{0, 13, 15, 142, 270, 16398, 32782, 65422, uint16(r.Intn(65536))} {
		cl = append(cl, attrClass{fmt.Sprintf("type=%d", at), true, 1, at, 128, nil})
	}
	cl = append(cl, attrClass{"tlv-keylen", true, 0, 14, 0, []byte{0, 128}}, attrClass{"tlv-other", true, 0, 7, 0, []byte{1, 2, 3}})
	return cl
}

// over the wire: the transform inside a proposal of an SA payload, marshalled and unmarshalled
func overWire(kind string, t *message.Transform) (*message.Transform, string) {
	p := &message.Proposal{ProposalNumber: 1, ProtocolID: 1}
	tt := *t
	switch kindType[kind] {
	case 1:
		p.EncryptionAlgorithm = append(p.EncryptionAlgorithm, &tt)
	case 2:
		p.PseudorandomFunction = append(p.PseudorandomFunction, &tt)
	case 3:
		p.IntegrityAlgorithm = append(p.IntegrityAlgorithm, &tt)
	case 4:
		p.DiffieHellmanGroup = append(p.DiffieHellmanGroup, &tt)
	case 5:
		p.ExtendedSequenceNumbers = append(p.ExtendedSequenceNumbers, &tt)
	}
	sa := &message.SecurityAssociation{Proposals: message.ProposalContainer{p}}
	b, err := sa.Marshal()
	if err != nil {
		return nil, "marshal-err"
	}
	sa2 := new(message.SecurityAssociation)
	if err := sa2.Unmarshal(b); err != nil || len(sa2.Proposals) != 1 {
		return nil, "unmarshal-err"
	}
	q := sa2.Proposals[0]
	var l message.TransformContainer
	switch kindType[kind] {
	case 1:
		l = q.EncryptionAlgorithm
	case 2:
		l = q.PseudorandomFunction
	case 3:
		l = q.IntegrityAlgorithm
	case 4:
		l = q.DiffieHellmanGroup
	case 5:
		l = q.ExtendedSequenceNumbers
	}
	if len(l) != 1 {
		return nil, "lost"
	}
	return l[0], ""
}

func runC11(c *Ctx) error {
	r := c.R
	rng := c.Rng
	r.Rule = "all advertised algorithms (3 encr, 3 integ, 3 prf, 2 dh, 2 esn; IKE and Child variants) to transform, over the wire and back; all 65536 transform " +
		"identifiers x attribute classes {absent, key length in a boundary set + random, other types incl. 14+128k and reserved-bit variants, TLV-encoded} through each of " +
		"the 7 decode functions directly (exhaustive, against the RFC tables) and over the wire (sampled ids + window 0..40); all 54 IKE and 72 Child single-choice proposals; " +
		"non-trivial = the transform maps to an algorithm or is a near miss (id of a supported algorithm); distinct by the case"
	if c.Replay != "" {
		return nil
	}
	fail := func(what, cs, exp, obs string) { r.Add(Finding{Kind: "instance", What: what, Case: cs, Expected: exp, Observed: obs}) }
	// ---- (1) advertised algorithms -> transform -> back, lengths ----
	type adv struct{ kind, name, short string }
	var advs []adv
	for n, s := range encrByName {
		advs = append(advs, adv{"encr", n, s}, adv{"encrk", n, s})
	}
	for n, s := range integByName {
		advs = append(advs, adv{"integ", n, s}, adv{"integk", n, s})
	}
	for n, s := range prfByName {
		advs = append(advs, adv{"prf", n, s})
	}
	for n, s := range dhByName {
		advs = append(advs, adv{"dh", n, s})
	}
	advs = append(advs, adv{"esn", "ESN_ENABLE", "esn1"}, adv{"esn", "ESN_DISABLE", "esn0"})
	for _, a := range advs {
		cs := fmt.Sprintf("(to_transform %s %s)", a.kind, a.short)
		var t *message.Transform
		var lens string
		impl := run(func() string {
			switch a.kind {
			case "encr":
				v := encr.StrToType(a.name)
				t, _ = encr.ToTransform(v)
				lens = fmt.Sprintf("(%d)", v.GetKeyLength())
			case "encrk":
				v := encr.StrToKType(a.name)
				t, _ = encr.ToTransformChildSA(v)
				lens = fmt.Sprintf("(%d)", v.GetKeyLength())
			case "integ":
				v := integ.StrToType(a.name)
				t = integ.ToTransform(v)
				lens = fmt.Sprintf("(%d %d)", v.GetKeyLength(), v.GetOutputLength())
			case "integk":
				v := integ.StrToKType(a.name)
				t = integ.ToTransformChildSA(v)
				lens = fmt.Sprintf("(%d %d)", v.GetKeyLength(), integ.StrToType(a.name).GetOutputLength())
			case "prf":
				v := prf.StrToType(a.name)
				t = prf.ToTransform(v)
				lens = fmt.Sprintf("(%d %d)", v.GetKeyLength(), v.GetOutputLength())
			case "dh":
				t = dh.ToTransform(dh.StrToType(a.name))
			case "esn":
				v, err := esn.StrToType(a.name)
				if err != nil {
					return "err"
				}
				t = esn.ToTransform(v)
			}
			return sxTransform(t).String()
		})
		r.ImplRuns++
		r.Count(cs, true, "advertised:"+a.kind)
		model, err := c.M.Ask(cs)
		if err != nil {
			return err
		}
		if impl != model {
			r.Add(Finding{Kind: "correspondence", What: "ToTransform differs from the Impl registry", Case: cs, Expected: model, Observed: impl})
		}
		if t == nil {
			fail("advertised algorithm has no transform", cs, "transform", impl)
			continue
		}
		if d := implTrDecode(a.kind, t); d != a.short {
			fail("an advertised algorithm does not convert back to itself", cs, a.short, d)
		}
		if w, e := overWire(a.kind, t); w == nil {
			fail("the transform of an advertised algorithm does not survive the wire", cs, "transform", e)
		} else if d := implTrDecode(a.kind, w); d != a.short {
			fail("an advertised algorithm does not convert back to itself after a wire round trip", cs, a.short, d)
		}
		// lengths prescribed by the defining RFCs (RFC 3602, 2403, 2404, 4868, 7296)
		var want string
		switch a.kind {
		case "encr", "encrk":
			want = fmt.Sprintf("(%d)", encrKeyLen[a.short])
		case "integ", "integk":
			want = fmt.Sprintf("(%d %d)", integKeyLen[a.short], integOutLen[a.short])
		case "prf":
			want = fmt.Sprintf("(%d %d)", prfKeyLen[a.short], prfKeyLen[a.short])
		}
		if lens != want {
			fail("key / output lengths differ from the RFC tables", cs, want, lens)
		}
		if a.kind == "encr" || a.kind == "integ" || a.kind == "prf" {
			ml, err := c.M.Ask(fmt.Sprintf("(alg_lengths %s %s)", a.kind, a.short))
			if err != nil {
				return err
			}
			if ml != lens {
				r.Add(Finding{Kind: "correspondence", What: "algorithm lengths differ from the Impl registry", Case: cs, Expected: ml, Observed: lens})
			}
		}
	}
	// ---- (2) every identifier x attribute class through each decode function ----
	classes := attrClasses(rng)
	for _, kind := range trKinds {
		for id := 0; id < 65536; id++ {
			near := id <= 40 || rng.Intn(4096) == 0
			for ci, cl := range classes {
				if id > 40 && !c.Thor && ci > 4 && (id+ci)%16 != 0 {
					continue
				}
				t := &message.Transform{TransformType: kindType[kind], TransformID: uint16(id), AttributePresent: cl.present, AttributeFormat: cl.format,
					AttributeType: cl.atype, AttributeValue: cl.aval, VariableLengthAttributeValue: cl.vari}
				impl := implTrDecode(kind, t)
				want := expectTrDecode(kind, t)
				r.ImplRuns++
				cs := fmt.Sprintf("(tr_decode %s %s)", kind, sxTransform(t))
				interesting := want != "none" || (near && id <= 14)
				if interesting || near {
					r.Count(cs, interesting, "decode:"+kind)
				} else {
					r.Evaluations++
					r.Hist["decode:"+kind]++
				}
				if impl != want {
					fail("a transform is mapped to an algorithm with a different identifier / key size, or a supported one is refused", cs, want, impl)
				}
				if near {
					model, err := c.M.Ask(cs)
					if err != nil {
						return err
					}
					if impl != model {
						r.Add(Finding{Kind: "correspondence", What: "DecodeTransform differs from the Impl registry", Case: cs, Expected: model, Observed: impl})
					}
					// as received: after a wire round trip the result must be the same as the RFC tables say for the wire form
					if cl.atype < 32768 && (!cl.present || cl.format == 1 || len(cl.vari) > 0) {
						if w, _ := overWire(kind, t); w != nil {
							if d := implTrDecode(kind, w); d != want {
								fail("a received transform is mapped differently after the wire (attribute type / value altered by the codec)", cs, want, d)
							}
						}
					}
				}
			}
		}
	}
	r.Exhaustive = true
	// ---- (3) single-choice proposals ----
	for _, d := range []string{"2", "14"} {
		for _, e := range encrIDs {
			for _, i := range hashIDs {
				for _, p := range hashIDs {
					cs := fmt.Sprintf("(ike_to_proposal %s %s %s %s)", d, e, i, p)
					k := &security.IKESAKey{DhInfo: dh.StrToType(dhNames[d]), EncrInfo: encr.StrToType(encrNames[e]),
						IntegInfo: integ.StrToType(integNames[i]), PrfInfo: prf.StrToType(prfNames[p])}
					var prop *message.Proposal
					impl := run(func() string {
						var err error
						prop, err = k.ToProposal()
						if err != nil {
							return "err"
						}
						return sxProposal(prop).String()
					})
					r.ImplRuns++
					r.Count(cs, true, "ike-proposal")
					model, err := c.M.Ask(cs)
					if err != nil {
						return err
					}
					if impl != model {
						r.Add(Finding{Kind: "correspondence", What: "IKESAKey.ToProposal differs from Impl.ike_to_proposal", Case: cs, Expected: model, Observed: impl})
					}
					if prop == nil {
						fail("ToProposal fails", cs, "proposal", impl)
						continue
					}
					// over the wire and back through NewIKESAKey
					sa := &message.SecurityAssociation{Proposals: message.ProposalContainer{prop}}
					b, err := sa.Marshal()
					if err != nil {
						fail("proposal does not marshal", cs, "ok", "err")
						continue
					}
					sa2 := new(message.SecurityAssociation)
					if err := sa2.Unmarshal(b); err != nil || len(sa2.Proposals) != 1 {
						fail("proposal does not survive the wire", cs, "ok", "err")
						continue
					}
					mo, err := c.M.Ask("(ike_of_proposal " + sxProposal(sa2.Proposals[0]).String() + ")")
					if err != nil {
						return err
					}
					var k2 *security.IKESAKey
					withScript(append([]byte{0x7f}, rng.Bytes(255)...), nil, func(*scriptReader) {
						k2, _, err = security.NewIKESAKey(sa2.Proposals[0], []byte{2}, []byte{1, 2, 3}, 1, 2)
					})
					got := "err"
					if err == nil && k2 != nil {
						got = fmt.Sprintf("(ok (%s %s %s %s))", dhByName[nameOfDh(k2)], fmt.Sprint(k2.EncrInfo.GetKeyLength()*8),
							integByID(k2.IntegInfo.TransformID()), prfByID(k2.PrfInfo.TransformID()))
					}
					want := fmt.Sprintf("(ok (%s %s %s %s))", d, e, i, p)
					if got != want {
						fail("NewIKESAKey on the proposal of an SA does not select the same algorithms", cs, want, got)
					}
					if mo != got {
						r.Add(Finding{Kind: "correspondence", What: "NewIKESAKey algorithm selection differs from Impl.ike_of_proposal", Case: cs, Expected: mo, Observed: got})
					}
				}
			}
		}
	}
	// foreign attribute shapes THROUGH THE WIRE: a transform is encoded inside an SA payload, decoded, and only then mapped;
	// the decoded transform must be the one that was sent, and the mapping must be the one of the sent transform
	// (in particular a key-length attribute in TLV form is never AES-CBC, whatever the length of its value)
	for t := 0; t < c.N(300, 6000); t++ {
		kind := []string{"encr", "encrk"}[t%2]
		tr := &message.Transform{TransformType: 1, TransformID: uint16(rng.Pick([]int{12, 12, 12, 13, 3})), AttributePresent: true}
		if rng.Chance(2, 3) {
			tr.AttributeFormat = 0
			tr.AttributeType = uint16(rng.Pick([]int{14, 14, 14, 15, 142}))
			tr.VariableLengthAttributeValue = rng.Bytes(rng.Pick([]int{1, 2, 16, 24, 32, 64, 127, 128, 129, 192, 256, 257, rng.Range(1, 300)}))
		} else {
			tr.AttributeFormat = 1
			tr.AttributeType = uint16(rng.Pick([]int{14, 14, 15, 142}))
			tr.AttributeValue = uint16(rng.Pick([]int{0, 16, 24, 32, 128, 192, 256, 129, 65535}))
		}
		prop := &message.Proposal{ProposalNumber: 1, ProtocolID: 1, EncryptionAlgorithm: message.TransformContainer{tr},
			PseudorandomFunction: message.TransformContainer{{TransformType: 2, TransformID: 2}}}
		sa := &message.SecurityAssociation{Proposals: message.ProposalContainer{prop}}
		cs := fmt.Sprintf("(tr_decode %s %s)", kind, sxTransform(tr))
		sent := sxTransform(tr).String()
		var got *message.Transform
		wireOut := run(func() string {
			b, err := sa.Marshal()
			if err != nil {
				return "marshal-err"
			}
			sa2 := new(message.SecurityAssociation)
			if err := sa2.Unmarshal(b); err != nil || len(sa2.Proposals) != 1 || len(sa2.Proposals[0].EncryptionAlgorithm) != 1 {
				return "unmarshal-err"
			}
			got = sa2.Proposals[0].EncryptionAlgorithm[0]
			return sxTransform(got).String()
		})
		r.ImplRuns++
		r.Count(cs, true, fmt.Sprintf("wire-attr:%s:format=%d", kind, tr.AttributeFormat))
		if wireOut != sent {
			fail("a transform of the encodable domain does not survive the wire unchanged", cs, sent, wireOut)
			continue
		}
		mo, err := c.M.Ask(cs)
		if err != nil {
			return err
		}
		if impl := implTrDecode(kind, got); impl != mo {
			fail("a transform received over the wire is mapped differently from the transform that was sent", cs, mo, impl)
		}
	}
	// unsupported / malformed proposals make NewIKESAKey fail
	for t := 0; t < c.N(200, 5000); t++ {
		prop := &message.Proposal{ProtocolID: 1}
		mk := func(ty uint8, id uint16) *message.Transform { return &message.Transform{TransformType: ty, TransformID: id} }
		prop.DiffieHellmanGroup = message.TransformContainer{mk(4, 14)}
		prop.EncryptionAlgorithm = message.TransformContainer{{TransformType: 1, TransformID: 12, AttributePresent: true, AttributeFormat: 1, AttributeType: 14, AttributeValue: 256}}
		prop.IntegrityAlgorithm = message.TransformContainer{mk(3, 2)}
		prop.PseudorandomFunction = message.TransformContainer{mk(2, 2)}
		bad := rng.Intn(6)
		switch bad {
		case 0:
			prop.DiffieHellmanGroup[0].TransformID = uint16(rng.Pick([]int{0, 1, 5, 15, 16, 19, 31, 65535}))
		case 1:
			prop.EncryptionAlgorithm[0].TransformID = uint16(rng.Pick([]int{0, 3, 11, 13, 20, 65535}))
		case 2:
			prop.EncryptionAlgorithm[0].AttributeValue = uint16(rng.Pick([]int{0, 64, 127, 129, 255, 257, 512}))
		case 3:
			prop.EncryptionAlgorithm[0].AttributeType = uint16(rng.Pick([]int{0, 13, 15, 142, 270}))
		case 4:
			prop.IntegrityAlgorithm[0].TransformID = uint16(rng.Pick([]int{0, 3, 4, 5, 11, 13, 14, 65535}))
		case 5:
			prop.PseudorandomFunction[0].TransformID = uint16(rng.Pick([]int{0, 3, 4, 6, 7, 65535}))
		}
		cs := "(ike_of_proposal " + sxProposal(prop).String() + ")"
		var err error
		impl := run(func() string {
			withScript(append([]byte{0x7f}, rng.Bytes(255)...), nil, func(*scriptReader) {
				_, _, err = security.NewIKESAKey(prop, []byte{2}, []byte{1, 2, 3}, 1, 2)
			})
			if err != nil {
				return "err"
			}
			return "ok"
		})
		r.ImplRuns++
		r.Count(cs, true, "ike-unsupported-proposal")
		mo, merr := c.M.Ask(cs)
		if merr != nil {
			return merr
		}
		if (mo == "err") != (impl == "err") {
			r.Add(Finding{Kind: "correspondence", What: "NewIKESAKey acceptance differs from Impl.ike_of_proposal", Case: cs, Expected: mo, Observed: impl})
		}
		if impl != "err" {
			fail("building an SA from a proposal with an unsupported transform does not fail", cs, "err", impl)
		}
	}
	// Child SA proposals
	for _, d := range []string{"none", "2", "14"} {
		for _, e := range encrIDs {
			for _, i := range hashIDs {
				for _, s := range []int{0, 1} {
					cs := fmt.Sprintf("(child_to_proposal %s %s %s %d)", d, e, i, s)
					ch := &security.ChildSAKey{EncrKInfo: encr.StrToKType(encrNames[e]), IntegKInfo: integ.StrToKType(integNames[i])}
					if d != "none" {
						ch.DhInfo = dh.StrToType(dhNames[d])
					}
					ch.EsnInfo, _ = esn.StrToType(map[int]string{0: "ESN_DISABLE", 1: "ESN_ENABLE"}[s])
					var prop *message.Proposal
					impl := run(func() string {
						var err error
						prop, err = ch.ToProposal()
						if err != nil {
							return "err"
						}
						return sxProposal(prop).String()
					})
					r.ImplRuns++
					r.Count(cs, true, "child-proposal")
					model, err := c.M.Ask(cs)
					if err != nil {
						return err
					}
					if impl != model {
						r.Add(Finding{Kind: "correspondence", What: "ChildSAKey.ToProposal differs from Impl.child_to_proposal", Case: cs, Expected: model, Observed: impl})
					}
					if prop == nil {
						continue
					}
					ch2, err := security.NewChildSAKeyByProposal(prop)
					got := "err"
					if err == nil {
						dd := "none"
						if ch2.DhInfo != nil {
							dd = dhByName[nameOfDhT(ch2.DhInfo)]
						}
						ii := "none"
						if ch2.IntegKInfo != nil {
							ii = integByID(ch2.IntegKInfo.TransformID())
						}
						got = fmt.Sprintf("(ok (%s %d %s %d))", dd, ch2.EncrKInfo.GetKeyLength()*8, ii, b2i(ch2.EsnInfo.GetNeedESN()))
					}
					want := fmt.Sprintf("(ok (%s %s %s %d))", d, e, i, s)
					if got != want {
						fail("NewChildSAKeyByProposal on the proposal of a Child SA does not select the same algorithms", cs, want, got)
					}
					mo, err := c.M.Ask("(child_of_proposal " + sxProposal(prop).String() + ")")
					if err != nil {
						return err
					}
					if mo != got {
						r.Add(Finding{Kind: "correspondence", What: "NewChildSAKeyByProposal differs from Impl.child_of_proposal", Case: cs, Expected: mo, Observed: got})
					}
				}
			}
		}
	}
	// unsupported / malformed Child SA (ESP) proposals make NewChildSAKeyByProposal fail: one transform at a time is
	// replaced by an unsupported one, the others stay supported
	for t := 0; t < c.N(300, 6000); t++ {
		prop := &message.Proposal{ProtocolID: 3, SPI: []byte{1, 2, 3, 4}}
		mk := func(ty uint8, id uint16) *message.Transform { return &message.Transform{TransformType: ty, TransformID: id} }
		klen := uint16(rng.Pick([]int{128, 192, 256}))
		prop.EncryptionAlgorithm = message.TransformContainer{{TransformType: 1, TransformID: 12, AttributePresent: true, AttributeFormat: 1, AttributeType: 14, AttributeValue: klen}}
		if rng.Chance(3, 4) {
			prop.IntegrityAlgorithm = message.TransformContainer{mk(3, uint16(rng.Pick([]int{1, 2, 12})))}
		}
		if rng.Chance(1, 2) {
			prop.DiffieHellmanGroup = message.TransformContainer{mk(4, uint16(rng.Pick([]int{2, 14})))}
		}
		prop.ExtendedSequenceNumbers = message.TransformContainer{mk(5, uint16(rng.Intn(2)))}
		bad := rng.Intn(6)
		class := "child-unsupported-"
		switch bad {
		case 0:
			prop.IntegrityAlgorithm = message.TransformContainer{mk(3, uint16(rng.Pick([]int{0, 3, 4, 5, 6, 11, 13, 14, 255, 65535})))}
			class += "integ"
		case 1:
			prop.EncryptionAlgorithm[0].TransformID = uint16(rng.Pick([]int{0, 3, 11, 13, 20, 65535}))
			class += "encr-id"
		case 2:
			prop.EncryptionAlgorithm[0].AttributeValue = uint16(rng.Pick([]int{0, 64, 127, 129, 255, 257, 512}))
			class += "encr-keylen"
		case 3:
			prop.DiffieHellmanGroup = message.TransformContainer{mk(4, uint16(rng.Pick([]int{0, 1, 5, 15, 16, 19, 31, 65535})))}
			class += "dh"
		case 4:
			prop.ExtendedSequenceNumbers = message.TransformContainer{mk(5, uint16(rng.Pick([]int{2, 3, 255, 65535})))}
			class += "esn"
		case 5:
			prop.EncryptionAlgorithm[0].AttributeType = uint16(rng.Pick([]int{0, 13, 15, 142, 270}))
			class += "encr-attrtype"
		}
		cs := "(child_of_proposal " + sxProposal(prop).String() + ")"
		impl := run(func() string {
			if _, err := security.NewChildSAKeyByProposal(prop); err != nil {
				return "err"
			}
			return "ok"
		})
		r.ImplRuns++
		r.Count(cs, true, class)
		mo, merr := c.M.Ask(cs)
		if merr != nil {
			return merr
		}
		if (mo == "err") != (impl == "err") {
			r.Add(Finding{Kind: "correspondence", What: "NewChildSAKeyByProposal acceptance differs from Impl.child_of_proposal", Case: cs, Expected: mo, Observed: impl})
		}
		if impl != "err" {
			fail("building a Child SA from a proposal with an unsupported transform does not fail", cs, "err", impl)
		}
	}
	return nil
}

func nameOfDh(k *security.IKESAKey) string { return nameOfDhT(k.DhInfo) }
func nameOfDhT(t dh.DHType) string {
	for n := range dhByName {
		if dh.StrToType(n) == t {
			return n
		}
	}
	return "?"
}
func integByID(id uint16) string {
	return map[uint16]string{1: "md5", 2: "sha1", 12: "sha256"}[id]
}
func prfByID(id uint16) string {
	return map[uint16]string{1: "md5", 2: "sha1", 5: "sha256"}[id]
}
