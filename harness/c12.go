package main

import (
	"fmt"

	"github.com/free5gc/ike/eap"
	"github.com/free5gc/ike/message"
)

func init() { runners["C12"] = runC12; runners["C13"] = runC13 }

// evalC12: b accepted by the decoder -> m; m encodes -> b'; then Decode(b') = m and Encode of that = b'
func evalC12(c *Ctx, op string, b []byte, canonical bool) error {
	r := c.R
	cs := fmt.Sprintf("(%s %s)", op, hx(b))
	var m1, m2, b1, b2 string
	var accepted, reenc bool
	out := run(func() string {
		if op == "decode_encode" {
			m := new(message.IKEMessage)
			if err := m.Decode(exact(b)); err != nil {
				return "err"
			}
			accepted = true
			m1 = normNext(sxMsg(m)).String()
			var w []byte
			var err error
			if run(func() string { w, err = m.Encode(); return "" }) == "fault" {
				return "(decoded fault)"
			}
			if err != nil {
				return "(decoded err)"
			}
			reenc = true
			b1 = hx(w)
			mm := new(message.IKEMessage)
			if err := mm.Decode(exact(w)); err != nil {
				m2 = "err"
				return "(decoded (ok " + b1 + "))"
			}
			m2 = normNext(sxMsg(mm)).String()
			if w2, err, crashed := encodeGuard(mm); err != nil || crashed {
				b2 = "err"
			} else {
				b2 = hx(w2)
			}
			return "(decoded (ok " + b1 + "))"
		}
		e := new(eap.EAP)
		if err := e.Unmarshal(exact(b)); err != nil {
			return "err"
		}
		accepted = true
		m1 = sxEap(e).String()
		var w []byte
		var err error
		if run(func() string { w, err = e.Marshal(); return "" }) == "fault" {
			return "(decoded fault)"
		}
		if err != nil {
			return "(decoded err)"
		}
		reenc = true
		b1 = hx(w)
		ee := new(eap.EAP)
		if err := ee.Unmarshal(exact(w)); err != nil {
			m2 = "err"
			return "(decoded (ok " + b1 + "))"
		}
		m2 = sxEap(ee).String()
		if w2, err := ee.Marshal(); err != nil {
			b2 = "err"
		} else {
			b2 = hx(w2)
		}
		return "(decoded (ok " + b1 + "))"
	})
	r.ImplRuns++
	model, err := c.M.Ask(cs)
	if err != nil {
		return err
	}
	bucket := "rejected"
	if accepted {
		bucket = "accepted"
		if reenc {
			bucket = "accepted+reencoded"
		}
	}
	r.Count(cs, accepted && reenc, op+":"+bucket)
	if accepted && reenc && r.Evaluations%211 == 0 {
		r.Sample(cs)
	}
	if out != model {
		r.Add(Finding{Kind: "correspondence", What: "Decode-then-Encode differs from the Impl model", Case: cs, Expected: model, Observed: out})
	}
	if out == "fault" || out == "(decoded fault)" {
		// a crash of Marshal on a decoded value is outside C12's premise ("and that message encodes again") but worth seeing
		r.Hist["note:reencode-crash"]++
		return nil
	}
	if !(accepted && reenc) {
		return nil
	}
	if op == "decode_encode" {
		// cross-check of the image theorem (Thm/Image.v decode_image) against the implementation: the decoded value, as observed
		// on the Go side, is tested with the extracted decision procedure of the (strict) domain
		if dom, err := c.M.Ask("(in_domain " + m1 + ")"); err != nil {
			return err
		} else if dom == "1" {
			r.Hist["decoded-and-reencodable:in-theorem-domain"]++
		} else {
			r.Hist["decoded-and-reencodable:OUTSIDE-theorem-domain"]++
			r.Notes = appendOnce(r.Notes, "a decoded, re-encodable message lies outside dom_msg: "+cs)
		}
	}
	if m2 != m1 {
		r.Add(Finding{Kind: "instance", What: "decoding the re-encoding of a decoded message gives a different message (or fails)", Case: cs, Expected: m1, Observed: m2})
	} else if b2 != b1 {
		r.Add(Finding{Kind: "instance", What: "no fixed point after one step: the second re-encoding differs from the first", Case: cs, Expected: b1, Observed: b2})
	}
	// canonical by construction, or canonical by the verified model: the model's decode-then-encode reproduces the input
	// octet for octet, which it cannot do for a datagram with a reserved bit set or an unsupported payload (it writes
	// zeros and drops what it skipped) - the property then demands a byte-identical re-encoding
	if model == "(decoded (ok "+hx(b)+"))" {
		canonical = true
		r.Hist[op+":canonical-by-the-model"]++
	}
	if canonical && b1 != hx(b) {
		r.Add(Finding{Kind: "instance", What: "re-encoding of a canonical datagram is not byte-identical", Case: cs, Expected: hx(b), Observed: b1})
	}
	return nil
}

func appendOnce(l []string, s string) []string {
	if len(l) >= 5 {
		return l
	}
	if len(s) > 400 {
		s = s[:400]
	}
	return append(l, s)
}

// normNext: NextPayload is bookkeeping derived from the payload chain, not a field of the message value
func normNext(m *SX) *SX {
	h := L(m.At(1).List[:7]...)
	h.Add(A("0"))
	return L(A("msg"), h, m.At(2))
}

func runC12(c *Ctx) error {
	c.R.Rule = "byte strings the decoder accepts: the malformed stream (mutations of valid encodings: reserved bits, flags, lengths, type codes, nested attribute encodings; " +
		"boundary sweeps; random octets) filtered by acceptance, plus canonical datagrams (encodings of domain messages and, later, of the independent encoder); message level and EAP level; " +
		"non-trivial = accepted and re-encodable; distinct by (level, octets)"
	if _, err := c.M.Ask(fmt.Sprintf("(aka_full %d)", b2i(akaFull))); err != nil {
		return err
	}
	rng := c.Rng
	if err := replayOrCorpus(c, "C12", func(s *SX) error { return evalC12(c, s.Head(), s.B(1), false) }); err != nil || c.Replay != "" {
		return err
	}
	// canonical datagrams
	// the datagram of a message value comes from the MODEL's encoder (proved equal to the independent Spec encoder on
	// the domain), not from the implementation under test: a defect of the implementation's encoder must not remove the
	// very inputs that would show it
	canon := func(op string, x *SX) ([]byte, error) {
		o, err := c.M.Ask("(" + op + " " + x.String() + ")")
		if err != nil {
			return nil, err
		}
		if b := okBody(o); b != nil {
			return b[0].B0(), nil
		}
		return nil, nil
	}
	for i, n := 0, c.N(500, 20000); i < n; i++ {
		m := genMessage(rng)
		w, err := canon("encode", m)
		if err != nil {
			return err
		}
		if w != nil {
			if err := evalC12(c, "decode_encode", w, true); err != nil {
				return err
			}
		}
		e := genEapAny(rng)
		if b := okBody(implEapMarshal(e)); b != nil {
			if err := evalC12(c, "eap_decode_encode", b[0].B0(), true); err != nil {
				return err
			}
		}
	}
	// mutations of valid encodings: message level
	for i, n := 0, c.N(6000, 200000); i < n; i++ {
		var w []byte
		op := "decode_encode"
		if rng.Chance(2, 3) {
			if i%4 == 0 {
				var err error
				if w, err = canon("encode", genMessage(rng)); err != nil {
					return err
				}
				if w == nil {
					continue
				}
			} else {
				b := okBody(implEncode(genMessage(rng)))
				if b == nil {
					continue
				}
				w = b[0].B0()
			}
		} else {
			b := okBody(implEapMarshal(genEapAny(rng)))
			if b == nil {
				continue
			}
			w = b[0].B0()
			op = "eap_decode_encode"
		}
		for k := rng.Range(1, 3); k > 0; k-- {
			w = mutate(rng, w)
		}
		if op == "eap_decode_encode" && rng.Chance(1, 2) && len(w) >= 4 { // keep the EAP length consistent so that the mutation reaches the method decoders
			put16(w, 2, len(w))
		}
		if op == "decode_encode" && len(w) >= 28 && rng.Chance(1, 2) {
			// mutate inside the first payload while keeping the chain lengths, so that nested decoders see the change
		}
		if err := evalC12(c, op, w, false); err != nil {
			return err
		}
	}
	// sweeps aimed at nested structures: wrapped into a one-payload message so that they pass the chain walker
	wrap := func(ty int, body []byte) []byte {
		if len(body)+4 > 65535 {
			return nil
		}
		p := append([]byte{0, 0, byte((len(body) + 4) >> 8), byte(len(body) + 4)}, body...)
		h := make([]byte, 28)
		h[16], h[17] = byte(ty), 0x20
		n := 28 + len(p)
		h[24], h[25], h[26], h[27] = byte(n>>24), byte(n>>16), byte(n>>8), byte(n)
		return append(h, p...)
	}
	var ferr error
	emit := func(rc rawCase) {
		if ferr != nil {
			return
		}
		switch rc.Op {
		case "unmarshal":
			if rng.Chance(1, c.N(12, 1)) {
				if w := wrap(rc.Arg, rc.Data); w != nil {
					ferr = evalC12(c, "decode_encode", w, false)
				}
			}
		case "eapdata_unmarshal":
			if rng.Chance(1, c.N(4, 1)) && len(rc.Data)+4 <= 65535 && len(rc.Data) > 0 {
				n := len(rc.Data) + 4
				ferr = evalC12(c, "eap_decode_encode", append([]byte{1, 7, byte(n >> 8), byte(n)}, rc.Data...), false)
			}
		case "eap_unmarshal":
			ferr = evalC12(c, "eap_decode_encode", rc.Data, false)
		}
	}
	sweepNotify(rng, emit)
	sweepProposal(rng, emit, false)
	sweepTransform(rng, emit)
	sweepDelete(rng, emit)
	sweepCP(rng, emit)
	sweepTS(rng, emit)
	sweepEap(rng, emit)
	sweepAka(rng, emit, c.Thor)
	return ferr
}

// ---------- C13: unsupported payloads ----------
type chainItem struct {
	sup  *SX // supported payload (nil for an unsupported one)
	ty   int
	crit bool
	res  byte // the seven RESERVED bits of the flags octet (ignored on receipt, RFC 7296 3.2)
	body []byte
}

func buildChain(items []chainItem, lastNext byte) (first byte, wire []byte, ok bool) {
	for i, it := range items {
		if it.sup != nil {
			b := okBody(implPayloadMarshal(it.sup))
			if b == nil {
				return 0, nil, false
			}
			items[i].body = b[0].B0()
			items[i].ty = int(kindCode[it.sup.Head()])
		}
		if len(items[i].body)+4 > 65535 {
			return 0, nil, false
		}
	}
	for i, it := range items {
		nx := lastNext
		if i+1 < len(items) {
			nx = byte(items[i+1].ty)
		}
		fl := it.res & 0x7f
		if it.crit {
			fl |= 0x80
		}
		n := len(it.body) + 4
		wire = append(wire, nx, fl, byte(n>>8), byte(n))
		wire = append(wire, it.body...)
	}
	if len(items) > 0 {
		first = byte(items[0].ty)
	}
	return first, wire, true
}

func runC13(c *Ctx) error {
	r := c.R
	rng := c.Rng
	r.Rule = "payload chains of domain messages with 1..4 (now and then up to 64) unsupported payloads inserted (front, middle, end, several); every unsupported type code 1..32 and 49..255 for single " +
		"insertions (exhaustive), body lengths 0..1024, both critical flag values, critical flag also set on implemented payloads; decoded as a chain and as a whole message; " +
		"non-trivial = at least one supported payload next to the insertion; distinct by the chain"
	if c.Replay != "" {
		return nil
	}
	if _, err := c.M.Ask(fmt.Sprintf("(aka_full %d)", b2i(akaFull))); err != nil {
		return err
	}
	unsup := []int{}
	for t := 1; t <= 32; t++ {
		unsup = append(unsup, t)
	}
	for t := 49; t <= 255; t++ {
		unsup = append(unsup, t)
	}
	one := func(items []chainItem, tag string) error {
		first, wire, ok := buildChain(items, 0)
		if !ok {
			return nil
		}
		sup := L()
		anyCrit := false
		for _, it := range items {
			if it.sup != nil {
				sup.Add(it.sup)
			} else if it.crit {
				anyCrit = true
			}
		}
		asMsg := rng.Bool()
		var cs, impl string
		if asMsg {
			h := make([]byte, 28)
			copy(h, rng.Bytes(16))
			h[16], h[17], h[18] = first, 0x20, 34
			n := 28 + len(wire)
			h[24], h[25], h[26], h[27] = byte(n>>24), byte(n>>16), byte(n>>8), byte(n)
			full := append(h, wire...)
			cs = "(decode " + hx(full) + ")"
			impl = implDecode(exact(full))
			if b := okBody(impl); b != nil {
				impl = okS(b[0].At(2))
			}
		} else {
			cs = fmt.Sprintf("(decode_payloads %d %s)", first, hx(wire))
			impl = implDecodePayloads(first, exact(wire))
		}
		r.ImplRuns++
		model, err := c.M.Ask(cs)
		if err != nil {
			return err
		}
		if asMsg {
			if b := okBody(model); b != nil {
				model = okS(b[0].At(2))
			}
		}
		r.Count(cs, len(sup.List) > 0, tag)
		if r.Evaluations%173 == 0 {
			r.Sample(cs)
		}
		if impl != model {
			r.Add(Finding{Kind: "correspondence", What: "decoding a chain with unsupported payloads differs from Impl.container_decode", Case: cs, Expected: model, Observed: impl})
		}
		want := "err"
		if !anyCrit {
			want = okS(normPayloads(sup))
		}
		got := impl
		if b := okBody(impl); b != nil {
			got = okS(normPayloads(b[0]))
		}
		if got != want {
			what := "a message with non-critical unsupported payloads does not decode as the same message without them"
			if anyCrit {
				what = "a message with a critical unsupported payload is not rejected"
			}
			r.Add(Finding{Kind: "instance", What: what, Case: cs, Expected: want, Observed: got})
		}
		return nil
	}
	genSup := func() chainItem {
		return chainItem{sup: genPayload(rng, payloadKinds[rng.Intn(len(payloadKinds))]), crit: rng.Chance(1, 3), res: resBits(rng)}
	}
	genUnsup := func(ty int) chainItem {
		return chainItem{ty: ty, crit: rng.Chance(1, 3), res: resBits(rng), body: r2(rng)}
	}
	// exhaustive over the type code for single insertions, at each position class
	for _, ty := range unsup {
		for pos := 0; pos < 3; pos++ {
			for _, crit := range []bool{false, true} {
				if !c.Thor && crit && ty%3 != pos {
					continue
				}
				items := []chainItem{genSup(), genSup()}
				u := genUnsup(ty)
				u.crit = crit
				items = append(items[:pos], append([]chainItem{u}, items[pos:]...)...)
				if err := one(items, fmt.Sprintf("single:pos=%d,crit=%v", pos, crit)); err != nil {
					return err
				}
			}
		}
	}
	// the same inside protected messages: unsupported payloads in front of the Encrypted payload (reference-built, valid checksum)
	for i, n := 0, c.N(60, 3000); i < n; i++ {
		k := genSkCase(rng, i)
		innerB := okBody(implContainerEncode(k.m.At(2)))
		if innerB == nil || len(innerB[0].B0()) > 4000 {
			continue
		}
		inner := innerB[0].B0()
		first := byte(0)
		if len(k.m.At(2).List) > 0 {
			first = byte(kindCode[k.m.At(2).At(0).Head()])
		}
		if err := evalPrefixedSK(c, k, inner, first, 16-len(inner)%16-1); err != nil {
			return err
		}
	}
	// several insertions, random positions
	for i, n := 0, c.N(600, 30000); i < n; i++ {
		var items []chainItem
		for k := rng.Intn(5); k > 0; k-- {
			items = append(items, genSup())
		}
		k0 := rng.Range(1, 4)
		if i%6 == 5 { // now and then MANY insertions: nothing bounds how many payloads a receiver has to skip
			k0 = rng.Pick([]int{5, 8, 9, 16, 17, 33, 64})
		}
		for k := k0; k > 0; k-- {
			pos := rng.Intn(len(items) + 1)
			u := genUnsup(unsup[rng.Intn(len(unsup))])
			if k0 > 4 {
				u.crit = false // (with many insertions one critical one is almost certain; it is added below now and then)
				if len(u.body) > 64 {
					u.body = u.body[:64]
				}
			}
			items = append(items[:pos], append([]chainItem{u}, items[pos:]...)...)
		}
		if k0 > 4 && rng.Chance(1, 4) {
			pos := rng.Intn(len(items) + 1)
			u := genUnsup(unsup[rng.Intn(len(unsup))])
			u.crit = true
			items = append(items[:pos], append([]chainItem{u}, items[pos:]...)...)
		}
		if err := one(items, "several"); err != nil {
			return err
		}
	}
	return nil
}

func resBits(r *Rng) byte {
	if r.Bool() {
		return 0
	}
	return byte(r.Pick([]int{1, 2, 0x40, 0x7f, r.Intn(128)}))
}

func r2(r *Rng) []byte {
	if r.Chance(1, 10) {
		return r.Bytes(r.Pick([]int{1023, 1024}))
	}
	return r.Bytes(r.Pick([]int{0, 1, 3, 4, 5, 16, 100, r.Range(0, 1024)}))
}
