package main

import (
	"strings"
	"bytes"
	"crypto/hmac"
	"crypto/sha256"
	"fmt"
	"sort"

	"github.com/free5gc/ike/eap"
)

func init() { runners["C14"] = runC14; runners["C15"] = runC15 }

// strictEap: an independent check of RFC 3748 / 4187 / 5448 framing of an encoded packet against the value it encodes
func strictEap(e *SX, w []byte) string {
	if len(w) < 4 || int(w[2])<<8|int(w[3]) != len(w) {
		return "length field differs from the packet size"
	}
	if uint64(w[0]) != e.U(1) || uint64(w[1]) != e.U(2) {
		return "code / identifier octets"
	}
	d := e.At(3)
	if !d.IsL {
		if len(w) != 4 {
			return "packet without method data is not 4 octets"
		}
		return ""
	}
	if len(w) < 5 {
		return "method data missing"
	}
	body := w[4:]
	switch d.Head() {
	case "identity", "notification", "nak":
		ty := map[string]byte{"identity": 1, "notification": 2, "nak": 3}[d.Head()]
		if body[0] != ty || !bytes.Equal(body[1:], d.B(1)) {
			return "type octet / data of a simple method"
		}
	case "expanded":
		if len(body) < 8 || body[0] != 254 {
			return "expanded type header"
		}
		vid := uint64(body[1])<<16 | uint64(body[2])<<8 | uint64(body[3])
		vt := uint64(body[4])<<24 | uint64(body[5])<<16 | uint64(body[6])<<8 | uint64(body[7])
		if vid != d.U(1) || vt != d.U(2) || !bytes.Equal(body[8:], d.B(3)) {
			return "24-bit vendor id / 32-bit vendor type / vendor data"
		}
	case "aka":
		if len(body) < 4 || body[0] != 50 || uint64(body[1]) != d.U(1) || body[2] != 0 || body[3] != 0 {
			return "EAP-AKA' header (type 50, subtype, reserved zero)"
		}
		want := map[uint64][]byte{}
		for _, a := range d.Tail(2) {
			want[a.U(1)] = a.B(2)
		}
		rest := body[4:]
		last := -1
		seen := 0
		for len(rest) > 0 {
			if len(rest) < 2 {
				return "dangling octet after the attributes"
			}
			t, l := int(rest[0]), int(rest[1])
			if l == 0 || 4*l > len(rest) {
				return fmt.Sprintf("attribute %d: length %d words does not fit", t, l)
			}
			if t <= last {
				return "attributes not in ascending order / duplicated"
			}
			last = t
			a := rest[:4*l]
			v, ok := want[uint64(t)]
			if !ok {
				return fmt.Sprintf("attribute %d was never set", t)
			}
			seen++
			switch t {
			case 1, 2, 11:
				if l != 5 || a[2] != 0 || a[3] != 0 || !bytes.Equal(a[4:], v) {
					return fmt.Sprintf("attribute %d: 16-octet value with zero reserved", t)
				}
			case 24:
				if l != 1 || !bytes.Equal(a[2:], v) {
					return "AT_KDF: one word, 2-octet value"
				}
			case 3, 23:
				bits := int(a[2])<<8 | int(a[3])
				if bits != 8*len(v) || 4+len(v) > len(a) || !bytes.Equal(a[4:4+len(v)], v) || len(a)-4-len(v) > 3 {
					return fmt.Sprintf("attribute %d: exact bit length %d, value, at most 3 octets of padding (attribute %d octets)", t, 8*len(v), len(a))
				}
				for _, z := range a[4+len(v):] {
					if z != 0 {
						return "non-zero padding"
					}
				}
			case 134:
				if a[2] != 0 || a[3] != 0 || !bytes.Equal(a[4:], v) {
					return "AT_CHECKCODE: zero reserved then the checkcode"
				}
			}
			rest = rest[4*l:]
		}
		if seen != len(want) {
			return "an attribute that was set is missing"
		}
	}
	return ""
}

func genEapAny(r *Rng) *SX {
	e := genEap(r)
	if r.Chance(1, 3) { // all codes
		e.List[1] = Nn(uint64(r.Intn(256)))
	}
	return e
}

func evalC14(c *Ctx, e *SX) error {
	r := c.R
	cs := "(eap_marshal " + e.String() + ")"
	impl := implEapMarshal(e)
	r.ImplRuns++
	model, err := c.M.Ask(cs)
	if err != nil {
		return err
	}
	meth := "none"
	if e.At(3).IsL {
		meth = e.At(3).Head()
	}
	r.Count(cs, meth != "none", "method:"+meth)
	r.Sample(cs)
	if impl != model {
		r.Add(Finding{Kind: "correspondence", What: "EAP.Marshal differs from Impl.eap_marshal", Case: cs, Expected: model, Observed: impl})
	}
	fail := func(what, exp, obs string) { r.Add(Finding{Kind: "instance", What: what, Case: cs, Expected: exp, Observed: obs}) }
	b := okBody(impl)
	if b == nil {
		fail("a packet of the domain does not encode", "(ok ...)", impl)
		return nil
	}
	w := b[0].B0()
	if why := strictEap(e, w); why != "" {
		fail("encoded packet is not well-formed: "+why, "RFC 3748 / 4187 / 5448 framing", hx(w))
	}
	// encoding twice (and twenty times: map iteration order) gives identical octets
	ge := goEap(e)
	for k := 0; k < 20; k++ {
		w2, err := ge.Marshal()
		if err != nil || !bytes.Equal(w2, w) {
			fail("repeated encodings of the same unmodified packet differ", hx(w), hx(w2))
			break
		}
	}
	// ... and leaves the packet as it was: every value read back AFTER the encodings is still the value that was set
	if after, want := normPayload(sxEap(ge)).String(), normPayload(e).String(); after != want {
		fail("a value read back from a packet after it was encoded is not the value that was set", want, after)
	}
	dec := implEapUnmarshal(exact(w))
	decM, err := c.M.Ask("(eap_unmarshal " + hx(w) + ")")
	if err != nil {
		return err
	}
	if dec != decM {
		r.Add(Finding{Kind: "correspondence", What: "EAP.Unmarshal differs from Impl.eap_unmarshal", Case: "(eap_unmarshal " + hx(w) + ")", Expected: decM, Observed: dec})
	}
	want := normPayload(e).String()
	got := dec
	if db := okBody(dec); db != nil {
		got = normPayload(db[0]).String()
	}
	if got != want {
		fail("Unmarshal(Marshal(e)) differs from e (code, identifier, method data, attribute values)", want, got)
	}
	return nil
}

// setter / getter: (aka_set_get (aka st (at ..)...) type xvalue)
func evalSetGet(c *Ctx, prior *SX, ty int, v []byte, viaWire bool) error {
	r := c.R
	cs := fmt.Sprintf("(aka_set_get %s %d %s)", prior, ty, hx(v))
	var got []byte
	impl := run(func() string {
		a := goEapData(prior).(*eap.EapAkaPrime)
		before, _ := (&eap.EAP{Code: 1, Identifier: 7, EapTypeData: a}).Marshal()
		if err := a.SetAttr(eap.EapAkaPrimeAttrType(ty), v); err != nil {
			// a refused offer must leave the packet as it was (the attribute already present keeps its value and framing)
			after, _ := (&eap.EAP{Code: 1, Identifier: 7, EapTypeData: a}).Marshal()
			if !bytes.Equal(before, after) {
				return "(refused-but-altered " + hx(before) + " " + hx(after) + ")"
			}
			return "err"
		}
		g, err := a.GetAttr(eap.EapAkaPrimeAttrType(ty))
		if err != nil {
			return "get-failed"
		}
		got = g.GetValue()
		return okS(Hx(got), sxAka(a))
	})
	r.ImplRuns++
	r.Count(cs, len(prior.List) > 2, fmt.Sprintf("set:type=%d", ty))
	model, err := c.M.Ask(cs)
	if err != nil {
		return err
	}
	if impl != model {
		r.Add(Finding{Kind: "correspondence", What: "SetAttr/GetAttr differ from Impl.aka_set_attr / aka_get", Case: cs, Expected: model, Observed: impl})
	}
	// the size rules of the setter, for every size offered
	accept := false
	switch ty {
	case 1, 2, 11:
		accept = len(v) == 16
	case 24:
		accept = len(v) == 2
	case 3:
		accept = len(v) >= 4 && len(v) <= 16
	case 23, 134:
		accept = true
	}
	fail := func(what, exp, obs string) { r.Add(Finding{Kind: "instance", What: what, Case: cs, Expected: exp, Observed: obs}) }
	if !accept {
		if strings.HasPrefix(impl, "(refused-but-altered") {
			fail("a refused SetAttr alters the packet it was offered to", "err (packet unchanged)", impl)
		} else if impl != "err" {
			fail("the setter accepts a value of a wrong size / an unsupported attribute", "err", impl)
		}
		return nil
	}
	if impl == "err" || impl == "fault" || impl == "get-failed" {
		fail("the setter refuses a legal value", "(ok ...)", impl)
		return nil
	}
	if !bytes.Equal(got, v) {
		fail("the value read back differs from the value set", hx(v), hx(got))
	}
	if viaWire && !(ty == 23 && len(v) > 1016) && !(ty == 134 && len(v)%4 != 0) {
		// after encoding and decoding, the value read back is still the value set
		out := run(func() string {
			a := goEapData(prior).(*eap.EapAkaPrime)
			_ = a.SetAttr(eap.EapAkaPrimeAttrType(ty), v)
			w, err := (&eap.EAP{Code: 1, Identifier: 7, EapTypeData: a}).Marshal()
			if err != nil {
				return "marshal-err"
			}
			e2 := new(eap.EAP)
			if err := e2.Unmarshal(w); err != nil {
				return "unmarshal-err " + hx(w)
			}
			g, err := e2.EapTypeData.(*eap.EapAkaPrime).GetAttr(eap.EapAkaPrimeAttrType(ty))
			if err != nil {
				return "get-failed"
			}
			return hx(g.GetValue())
		})
		if out != hx(v) {
			fail("the value read back from a decoded packet differs from the value set", hx(v), out)
		}
	}
	return nil
}

func runC14(c *Ctx) error {
	c.R.Rule = "EAP packets: all codes / identifiers; Identity, Notification, Nak (>= 1 octet), Expanded (any vendor data, EAP-5G), EAP-AKA' with every subset of the settable " +
		"attributes (RES 4..16, KDF_INPUT 0..300, CHECKCODE 0/20/32); setter offered every size 0..300 for each attribute type; non-trivial = packet with method data / non-empty prior map; distinct by the case"
	if _, err := c.M.Ask(fmt.Sprintf("(aka_full %d)", b2i(akaFull))); err != nil {
		return err
	}
	rng := c.Rng
	if err := replayOrCorpus(c, "C14", func(s *SX) error {
		switch s.Head() {
		case "eap_marshal":
			return evalC14(c, s.At(1))
		case "aka_set_get":
			return evalSetGet(c, s.At(1), int(s.U(2)), s.B(3), true)
		}
		return nil
	}); err != nil || c.Replay != "" {
		return err
	}
	for i, n := 0, c.N(1200, 40000); i < n; i++ {
		if err := evalC14(c, genEapAny(rng)); err != nil {
			return err
		}
	}
	// setter: every size 0..300 for each attribute type (and a few unsupported types)
	for _, ty := range []int{1, 2, 3, 11, 23, 24, 134, 0, 4, 12, 255} {
		for sz := 0; sz <= 300; sz++ {
			if !c.Thor && sz > 40 && sz%7 != ty%7 && sz < 248 {
				continue
			}
			prior := L(A("aka"), Nn(1))
			if sz%3 == 0 {
				prior = genAka(rng)
			}
			if vl, ok := map[int]int{1: 16, 2: 16, 11: 16, 24: 2, 3: 8, 23: 10, 134: 20}[ty]; ok && sz%2 == 0 {
				// the attribute is already present with a valid value: an overwrite, or a refused offer that must leave it alone
				has := false
				for _, at := range prior.Tail(2) {
					if int(at.U(1)) == ty {
						has = true
					}
				}
				if !has {
					prior.Add(L(A("at"), Nn(uint64(ty)), Hx(rng.Bytes(vl))))
				}
			}
			if err := evalSetGet(c, prior, ty, rng.Bytes(sz), ty == 3 || ty == 23 || ty == 134 || sz == 16 || sz == 2); err != nil {
				return err
			}
		}
	}
	return nil
}

// ---------- C15 ----------

// zeroMac: the received octets with the AT_MAC value zeroed (independent attribute walk)
func zeroMac(w []byte) ([]byte, bool) {
	o := append([]byte(nil), w...)
	if len(o) < 8 {
		return o, false
	}
	rest := o[8:]
	for len(rest) >= 2 {
		l := int(rest[1]) * 4
		if l == 0 || l > len(rest) {
			return o, false
		}
		if rest[0] == 11 && l == 20 {
			for i := 4; i < 20; i++ {
				rest[i] = 0
			}
			return o, true
		}
		rest = rest[l:]
	}
	return o, false
}
func refMac(key, w []byte) []byte {
	z, _ := zeroMac(w)
	h := hmac.New(sha256.New, key)
	h.Write(z)
	return h.Sum(nil)[:16]
}

// akaWire: an independent encoder of EAP-AKA' packets with liberties: attribute order, reserved octets, padding octets
type wireAttr struct {
	ty       int
	body     []byte // everything after type and length
	reserved bool   // non-zero reserved octets where the library drops them
	padding  bool   // non-zero padding octets
	wide     bool   // zero padding of a whole word or more
}

func genWirePacket(r *Rng) (w []byte, class string) {
	var ats []wireAttr
	for _, t := range akaSettable {
		if !r.Chance(1, 2) && t != 11 {
			continue
		}
		var a wireAttr
		a.ty = t
		switch t {
		case 1, 2, 11:
			res := []byte{0, 0}
			if r.Chance(1, 6) {
				res = []byte{byte(r.Range(1, 255)), byte(r.Intn(256))}
				a.reserved = true
			}
			a.body = append(res, r.Bytes(16)...)
		case 24:
			a.body = r.Bytes(2)
		case 3, 23:
			n := r.Range(4, 16)
			if t == 23 {
				n = r.Pick([]int{0, 1, 5, 11, 16, 100})
			}
			v := r.Bytes(n)
			pad := (4 - (4+n)%4) % 4
			if r.Chance(1, 5) {
				// a field wider than the value needs (the fixed 16-octet RES field of the RFC 4187 10.8 figure, a network name
				// field one or more words longer): well-formed, the actual-length field says where the value ends
				pad += 4 * r.Range(1, 3)
				a.wide = true
			}
			p := make([]byte, pad)
			if pad > 0 && r.Chance(1, 6) {
				p[0] = byte(r.Range(1, 255))
				a.padding = true
			}
			a.body = append(append([]byte{byte(8 * n >> 8), byte(8 * n)}, v...), p...)
		case 134:
			a.body = append([]byte{0, 0}, r.Bytes(r.Pick([]int{0, 20, 32}))...)
		}
		ats = append(ats, a)
	}
	if r.Chance(1, 3) { // one to three attributes the library does not interpret, non-skippable (< 128) and skippable ones
		pool := []int{4, 12, 14, 22, 99, 129, 130, 132, 133, 135, 136, 137, 200, 255}
		for k, used := r.Range(1, 3), map[int]bool{}; k > 0; k-- {
			t := r.Pick(pool)
			if used[t] {
				continue
			}
			used[t] = true
			ats = append(ats, wireAttr{ty: t, body: append([]byte{byte(r.Intn(256)), byte(r.Intn(256))}, r.Bytes(4*r.Intn(4))...)})
		}
	}
	ordered := true
	if r.Chance(1, 3) {
		for i := len(ats) - 1; i > 0; i-- {
			j := r.Intn(i + 1)
			ats[i], ats[j] = ats[j], ats[i]
		}
	} else {
		sort.Slice(ats, func(i, j int) bool { return ats[i].ty < ats[j].ty })
	}
	for i := 1; i < len(ats); i++ {
		if ats[i].ty < ats[i-1].ty {
			ordered = false
		}
	}
	body := []byte{50, byte(r.Pick(akaSubtypes)), 0, 0}
	res, pad := false, false
	for _, a := range ats {
		body = append(body, byte(a.ty), byte((2+len(a.body))/4))
		body = append(body, a.body...)
		res = res || a.reserved
		pad = pad || a.padding
	}
	w = append([]byte{byte(r.Range(1, 2)), byte(r.Intn(256)), byte((4 + len(body)) >> 8), byte(4 + len(body))}, body...)
	switch {
	case !ordered:
		class = "receiver-reserialised-order"
	case res:
		class = "receiver-reserialised-reserved"
	case pad:
		class = "receiver-reserialised-padding"
	}
	return
}

func runC15(c *Ctx) error {
	r := c.R
	rng := c.Rng
	r.Rule = "K_aut of 32 octets and other lengths (0..80); EAP-AKA' packets built through the API (any identifier, subtype, attribute subset, padded and unpadded values); " +
		"sender code vs HMAC-SHA-256-128 over the wire form with AT_MAC zeroed (Go crypto/hmac, independent attribute walk); independence of the previous AT_MAC; receiver agreement " +
		"after decoding; sensitivity to one changed octet / key; independently encoded packets in any attribute order with arbitrary reserved / padding octets; distinct by the case"
	if c.Replay != "" {
		return nil
	}
	if _, err := c.M.Ask(fmt.Sprintf("(aka_full %d)", b2i(akaFull))); err != nil {
		return err
	}
	fail := func(what, cs, exp, obs, known string) {
		r.Add(Finding{Kind: "instance", What: what, Case: cs, Expected: exp, Observed: obs, Known: known})
	}
	for i, n := 0, c.N(800, 30000); i < n; i++ {
		key := rng.Bytes(32)
		if rng.Chance(1, 4) {
			key = rng.Bytes(rng.Pick([]int{0, 1, 16, 31, 33, 64, 65, 80}))
		}
		e := L(A("eap"), Nn(uint64(rng.Range(1, 2))), Nn(uint64(rng.Intn(256))), genAka(rng))
		if rng.Chance(1, 2) { // make sure some packets carry an AT_MAC already
			e.At(3).Add(L(A("at"), Nn(11), Hx(rng.Bytes(16))))
		}
		cs := fmt.Sprintf("(at_mac %s %s)", e, hx(key))
		var ge *eap.EAP
		var mac []byte
		impl := run(func() string {
			holdArgs = i%2 == 0 // half of the senders wipe the buffers they passed to the setters only after the code is computed
			defer releaseArgs()
			ge = goEap(e)
			m, err := ge.CalcEapAkaPrimeAtMAC(key)
			if err != nil {
				return "err"
			}
			mac = m
			return okS(Hx(m), sxEap(ge))
		})
		r.ImplRuns++
		r.Count(cs, true, fmt.Sprintf("api:keylen=%d", len(key)))
		if i%131 == 0 {
			r.Sample(cs)
		}
		model, err := c.M.Ask(cs)
		if err != nil {
			return err
		}
		if impl != model {
			r.Add(Finding{Kind: "correspondence", What: "CalcEapAkaPrimeAtMAC differs from Impl.calc_at_mac", Case: cs, Expected: model, Observed: impl})
		}
		if mac == nil {
			fail("no code computed for an EAP-AKA' packet", cs, "(ok ...)", impl, "")
			continue
		}
		// sender: transmit the packet with the code in AT_MAC
		_ = ge.EapTypeData.(*eap.EapAkaPrime).SetAttr(eap.AT_MAC, mac)
		wire, err2 := ge.Marshal()
		if err2 != nil {
			fail("packet with AT_MAC does not encode", cs, "ok", "err", "")
			continue
		}
		// the oracle of this runner is tied to the specification the theorems are about (Spec/AkaMac.v, extracted)
		if i%5 == 0 {
			zw0, _ := zeroMac(wire)
			sp, err := c.M.Ask(fmt.Sprintf("(spec_at_mac %s %s)", hx(wire), hx(key)))
			if err != nil {
				return err
			}
			if exp := L(Hx(zw0), Hx(refMac(key, wire))).String(); sp != exp {
				r.Add(Finding{Kind: "correspondence", What: "the runner's reference MAC differs from Spec.AkaMac.at_mac_spec", Case: fmt.Sprintf("(spec_at_mac %s %s)", hx(wire), hx(key)), Expected: sp, Observed: exp})
			}
		}
		if want := refMac(key, wire); !bytes.Equal(want, mac) {
			fail("code is not the first 16 octets of HMAC-SHA-256 over the wire form with AT_MAC zeroed", cs, hx(want), hx(mac), "")
		}
		// independent of the previous AT_MAC value
		g2 := goEap(e)
		_ = g2.EapTypeData.(*eap.EapAkaPrime).SetAttr(eap.AT_MAC, rng.Bytes(16))
		if m2, err := g2.CalcEapAkaPrimeAtMAC(key); err != nil || !bytes.Equal(m2, mac) {
			fail("code depends on the previous AT_MAC value", cs, hx(mac), hx(m2), "")
		}
		// receiver: decode the transmitted packet and recompute
		rx := new(eap.EAP)
		if err := rx.Unmarshal(wire); err != nil {
			fail("transmitted packet does not decode", cs, "ok", "err", "")
			continue
		}
		if m3, err := rx.CalcEapAkaPrimeAtMAC(key); err != nil || !bytes.Equal(m3, mac) {
			fail("receiver computes a different code than the one transmitted", cs, hx(mac), hx(m3), "")
		}
		// a differing octet / key gives a different code
		w2 := append([]byte(nil), wire...)
		pos := rng.Intn(len(w2))
		zw, _ := zeroMac(wire)
		w2[pos] ^= 1 << uint(rng.Intn(8))
		zw2, _ := zeroMac(w2)
		if !bytes.Equal(zw, zw2) {
			rx2 := new(eap.EAP)
			if err := rx2.Unmarshal(w2); err == nil {
				if b2, err := rx2.Marshal(); err == nil && bytes.Equal(b2, w2) { // still canonical: receiver's HMAC input is exactly w2
					if m4, err := rx2.CalcEapAkaPrimeAtMAC(key); err == nil && bytes.Equal(m4, mac) {
						fail("a packet differing in one octet yields the same code", cs, "different code", hx(m4), "")
					}
				}
			}
		}
		k2 := append([]byte(nil), key...)
		if len(k2) > 0 {
			k2[rng.Intn(len(k2))] ^= 0x40
			if m5, err := goEap(e).CalcEapAkaPrimeAtMAC(k2); err == nil && bytes.Equal(m5, mac) && len(key) <= 64 {
				fail("a different key yields the same code", cs, "different code", hx(m5), "")
			}
		}
	}
	// independently encoded packets: any attribute order, arbitrary reserved / padding octets
	for i, n := 0, c.N(600, 20000); i < n; i++ {
		key := rng.Bytes(32)
		w, class := genWirePacket(rng)
		if i%8 == 7 {
			w, class = genBigWirePacket(rng), ""
		}
		// the sender (independent implementation) computes the code over its own octets
		mac := refMac(key, w)
		tx := append([]byte(nil), w...)
		if z, ok := zeroMac(tx); ok {
			_ = z
			// write the code into the AT_MAC value
			rest := tx[8:]
			for len(rest) >= 2 {
				l := int(rest[1]) * 4
				if rest[0] == 11 && l == 20 {
					copy(rest[4:20], mac)
					break
				}
				rest = rest[l:]
			}
		}
		cs := fmt.Sprintf("(at_mac_rx %s %s)", hx(tx), hx(key))
		rx := new(eap.EAP)
		dec := implEapUnmarshal(exact(tx))
		decM, err := c.M.Ask("(eap_unmarshal " + hx(tx) + ")")
		if err != nil {
			return err
		}
		r.ImplRuns++
		cl := class
		if cl == "" {
			cl = "canonical"
		}
		r.Count(cs, true, "wire:"+cl)
		if dec != decM {
			r.Add(Finding{Kind: "correspondence", What: "EAP.Unmarshal differs from Impl.eap_unmarshal", Case: "(eap_unmarshal " + hx(tx) + ")", Expected: decM, Observed: dec})
		}
		if err := rx.Unmarshal(tx); err != nil {
			fail("a well-formed EAP-AKA' packet of an independent encoder is refused", cs, "ok", "err", "")
			continue
		}
		got, err2 := rx.CalcEapAkaPrimeAtMAC(key)
		if err2 != nil || !bytes.Equal(got, mac) {
			fail("receiver of an independently encoded packet computes a code different from the transmitted one (the code is computed over a re-serialisation, not over the received octets)",
				cs, hx(mac), hx(got), class)
		}
	}
	return nil
}

// genBigWirePacket: a well-formed, canonical EAP-AKA' packet of several KiB (the EAP length field allows 65535 octets)
// whose attribute boundaries are placed AT and AROUND the sizes readers and buffers commonly have (512, 1024, 4096,
// 8192 octets of method data): AT_RAND, AT_AUTN, AT_MAC, AT_KDF first, then skippable attributes the library does not
// interpret (ascending types 129..), sized so that one of them ends exactly at the chosen offset, then a few more
func genBigWirePacket(r *Rng) []byte {
	target := r.Pick([]int{512, 1024, 4096, 4096, 4096, 8192}) + r.Pick([]int{0, 0, 0, -4, 4, -8, 8})
	body := []byte{50, 1, 0, 0}
	add := func(ty int, val []byte) { // val: everything after type and length, a multiple of 4 minus 2 octets
		body = append(body, byte(ty), byte((2+len(val))/4))
		body = append(body, val...)
	}
	add(1, append([]byte{0, 0}, r.Bytes(16)...))
	add(2, append([]byte{0, 0}, r.Bytes(16)...))
	add(11, append([]byte{0, 0}, make([]byte, 16)...))
	add(24, []byte{0, 1})
	ty := 129
	for len(body) < target && ty < 250 {
		room := target - len(body)
		n := 1020
		if room < 1020 {
			n = room
		}
		if n < 4 {
			break
		}
		n -= n % 4
		add(ty, r.Bytes(n-2))
		ty++
	}
	for k := r.Range(1, 4); k > 0 && ty < 255; k-- {
		add(ty, r.Bytes(4*r.Range(1, 40)-2))
		ty++
	}
	n := 4 + len(body)
	return append([]byte{byte(r.Range(1, 2)), byte(r.Intn(256)), byte(n >> 8), byte(n)}, body...)
}
