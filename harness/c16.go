package main

import (
	"fmt"

	"github.com/free5gc/ike/eap"
)

func init() { runners["C16"] = runC16 }

func implAkaPrf(ik, ck, id []byte) (s string) {
	defer func() {
		if r := recover(); r != nil {
			s = "fault"
		}
	}()
	a, b, c, d, e, err := eap.EapAkaPrimePRF(scratchArg(1, ik), scratchArg(2, ck), string(id))
	if err != nil {
		return "err"
	}
	return fmt.Sprintf("(ok %s %s %s %s %s)", hx(a), hx(b), hx(c), hx(d), hx(e))
}

func runC16(c *Ctx) error {
	r := c.R
	r.Rule = "random IK', CK' (0..64 octets, bias to 0, 1, 16, 32, 64) and identities (0..255 arbitrary octets incl. non-UTF-8); " +
		"non-trivial = both keys non-empty; distinct by (ik, ck, id)"
	lens := []int{0, 1, 15, 16, 17, 31, 32, 33, 63, 64}
	n := c.N(500, 30000)
	for i := 0; i < n; i++ {
		var lk, lc int
		if c.Rng.Chance(1, 2) {
			lk, lc = c.Rng.Pick(lens), c.Rng.Pick(lens)
		} else {
			lk, lc = c.Rng.Range(0, 64), c.Rng.Range(0, 64)
		}
		ik, ck := c.Rng.Bytes(lk), c.Rng.Bytes(lc)
		id := c.Rng.Bytes(c.Rng.Range(0, 255))
		if c.Rng.Chance(1, 4) {
			id = []byte(fmt.Sprintf("%015d", c.Rng.U64()%1000000000000000))
		}
		if hs := c.Rng.hotString(); hs != "" && c.Rng.Chance(1, 2) { // dictionary of the changed functions' literals
			switch c.Rng.Intn(4) {
			case 0:
				id = []byte(hs)
			case 1:
				id = append([]byte(hs), id...)
			case 2:
				id = append(id, hs...)
			default:
				id = append(append(c.Rng.Bytes(c.Rng.Range(0, 4)), hs...), c.Rng.Bytes(c.Rng.Range(0, 12))...)
			}
			if len(id) > 255 {
				id = id[:255]
			}
		}
		// the triple itself, then - for half of them - the same octets with a field boundary moved (CK' | identity,
		// IK' | CK'), and the same keys with an identity differing in one octet: calls that are nearly, but not, the
		// call before
		triples := [][3][]byte{{ik, ck, id}}
		if c.Rng.Chance(1, 2) {
			if len(ck) > 1 && len(id) < 255 {
				triples = append(triples, [3][]byte{ik, ck[:len(ck)-1], append([]byte{ck[len(ck)-1]}, id...)})
			}
			if len(ik) > 1 && len(ck) < 64 {
				triples = append(triples, [3][]byte{ik[:len(ik)-1], append([]byte{ik[len(ik)-1]}, ck...), id})
			}
			if len(id) > 0 {
				id2 := append([]byte(nil), id...)
				id2[c.Rng.Intn(len(id2))] ^= 1 << uint(c.Rng.Intn(8))
				triples = append(triples, [3][]byte{ik, ck, id2})
			}
		}
		for _, t := range triples {
			ik, ck, id := t[0], t[1], t[2]
			lk, lc := len(ik), len(ck)
			cs := fmt.Sprintf("(aka_prf %s %s %s)", hx(ik), hx(ck), hx(id))
			impl := implAkaPrf(ik, ck, id)
			r.ImplRuns++
			mod, err := c.M.Ask(cs)
			if err != nil {
				return err
			}
			spec, err := c.M.Ask(fmt.Sprintf("(spec_aka_prf %s %s %s)", hx(ik), hx(ck), hx(id)))
			if err != nil {
				return err
			}
			bucket := "both-nonempty"
			if lk == 0 || lc == 0 {
				bucket = "empty-key"
			}
			r.Count(cs, lk > 0 && lc > 0, bucket)
			r.Sample(cs + " -> " + impl)
			if impl != mod {
				r.Add(Finding{Kind: "correspondence", What: "EapAkaPrimePRF differs from Impl.eap_aka_prime_prf", Case: cs, Expected: mod, Observed: impl})
			}
			// instance of the property on the implementation's own output
			want := spec
			if lk == 0 || lc == 0 {
				want = "err"
			}
			if impl != want {
				r.Add(Finding{Kind: "instance", What: "keys are not the prescribed slices of PRF'(IK'|CK', \"EAP-AKA'\"|Identity) / empty key not refused", Case: cs, Expected: want, Observed: impl})
			}
		}
	}
	return nil
}
