package main

import (
	"bytes"
	"fmt"
	"math/big"
	"os"
	"os/exec"
	"path/filepath"
	"runtime"
	"strings"
	"sync"

	ike "github.com/free5gc/ike"
	"github.com/free5gc/ike/eap"
	"github.com/free5gc/ike/message"
	"github.com/free5gc/ike/security"
	"github.com/free5gc/ike/security/dh"
	"github.com/free5gc/ike/security/encr"
	"github.com/free5gc/ike/security/esn"
	"github.com/free5gc/ike/security/integ"
	"github.com/free5gc/ike/security/prf"
)

func init() { runners["C18"] = runC18 }

// one operation of a goroutine's private sequence; everything it touches is created from its own rng,
// except the library's registries, the shared random source and (shared==true) a read-only input buffer
// read-only inputs shared by all goroutines of a run: a protected datagram (every goroutine opens it with its OWN SA
// object holding the same keys), a raw AES-CBC ciphertext (own cipher object), an EAP packet
type sharedFixtures struct {
	sk     []byte
	skCase skCase
	ct     []byte
	ctKey  []byte
	ctEncr string
	eapPkt []byte
}

var fx *sharedFixtures

const concKinds = 18

// the two messages of operation kind 15: the first cannot be encoded (its SECOND payload fails, after the first was
// already written), the second is an ordinary message
func failingThenValid(r *Rng) (bad, good *SX) {
	first := genPayload(r, payloadKinds[r.Intn(len(payloadKinds))])
	var second *SX
	switch r.Intn(3) {
	case 0:
		second = L(A("d"), Nn(3), Nn(4), Nn(2), L(Nn(7))) // Delete: SPI count 2, one SPI
	case 1:
		second = L(A("eap"), Nn(1), Nn(9), L(A("identity"), Hx(nil))) // EAP-Identity without data
	default:
		second = L(A("sk"), Nn(0), Hx(nil)) // empty Encrypted payload
	}
	return L(A("msg"), genHeader(r), L(first, second)), genMessage(r)
}

func concOp(r0 *Rng, shared []byte) string {
	kind := r0.Intn(concKinds)
	r := r0.Fork() // every operation draws exactly twice from its goroutine's generator, so the checker can re-derive it
	return concOpKind(kind, r, shared)
}

func concOpKind(kind int, r *Rng, shared []byte) string {
	return run(func() string {
		switch kind {
		case 16: // decoding EAP-AKA' packets with unassigned / malformed attributes: the error paths (which format values for messages)
			var sb strings.Builder
			for k := 0; k < 4; k++ {
				pkt := []byte{1, byte(r.Intn(256)), 0, 0, 50, 1, 0, 0}
				for a := r.Range(1, 3); a > 0; a-- {
					ty := byte(r.Range(30, 255))
					switch r.Intn(3) {
					case 0:
						pkt = append(pkt, ty, 0) // length 0
					case 1:
						pkt = append(pkt, ty, 3, 0, 0, 1, 2, 3, 4) // truncated: announces 12 octets
					default:
						pkt = append(pkt, ty, 2, 0, 0, 9, 9, 9, 9)
					}
				}
				pkt[2], pkt[3] = byte(len(pkt)>>8), byte(len(pkt))
				sb.WriteString(implEapUnmarshal(pkt))
			}
			return "eap-malformed:" + sb.String()
		case 15: // an encoding that fails half-way, then an ordinary one (compared with the model afterwards)
			bad, good := failingThenValid(r)
			return "encode2:" + implEncode(bad) + implEncode(good)
		case 12: // unprotect the shared protected datagram with an own SA object
			if fx == nil || fx.sk == nil {
				return "shared-unprotect:none"
			}
			k := fx.skCase
			sa, err := saFromKeys(k.s, k.ks.d, k.ks.ai, k.ks.ar, k.ks.ei, k.ks.er, k.ks.pi, k.ks.pr)
			if err != nil {
				return "shared-unprotect:keyerr"
			}
			m, err := ike.DecodeDecrypt(fx.sk, nil, sa, roleOf(other(k.role)))
			if err != nil {
				return "shared-unprotect:err"
			}
			return "shared-unprotect:" + normMsgNoNext(sxMsg(m))
		case 13: // decrypt the shared ciphertext with an own cipher object
			if fx == nil || fx.ct == nil {
				return "shared-decrypt:none"
			}
			return "shared-decrypt:" + implAesDec(fx.ctEncr, fx.ctKey, fx.ct)
		case 14: // decode the shared EAP packet
			if fx == nil || fx.eapPkt == nil {
				return "shared-eap:none"
			}
			return "shared-eap:" + implEapUnmarshal(fx.eapPkt)
		case 0: // encode
			m := genMessage(r)
			return "encode:" + implEncode(m)
		case 1: // decode own octets
			if b := okBody(implEncode(genMessage(r))); b != nil {
				return "decode:" + implDecode(b[0].B0())
			}
			return "decode:none"
		case 2: // decode the shared, read-only input buffer
			m := new(message.IKEMessage)
			if err := m.Decode(shared); err != nil {
				return "shared-decode:err"
			}
			// ... and work on the goroutine's OWN decoded message: encoding it must not touch the shared input either
			out := "shared-decode:" + sxMsg(m).String()
			if b, err := m.Encode(); err == nil {
				out += ":" + hx(b)
			}
			return out
		case 3, 4: // protect + unprotect with an own SA (real random source)
			k := genSkCase(r, r.Intn(9))
			sa, err := saFromKeys(k.s, k.ks.d, k.ks.ai, k.ks.ar, k.ks.ei, k.ks.er, k.ks.pi, k.ks.pr)
			if err != nil {
				return "sk:keyerr"
			}
			w, err := ike.EncodeEncrypt(goMsg(k.m), sa, roleOf(k.role))
			if err != nil {
				return "sk:protect-err"
			}
			m, err := ike.DecodeDecrypt(w, nil, sa, roleOf(other(k.role)))
			if err != nil {
				return "sk:unprotect-err"
			}
			return "sk:" + normMsgNoNext(sxMsg(m))
		case 17: // the composite entry point: NewIKESAKey (random exponent from the shared source, both exponentiations, key
			// derivation).  The exponent differs from run to run; schedule-independent facts: with the generator as the
			// peer's value the shared secret IS the local public value, so the keys must be those an independent derivation
			// obtains from the returned public value, which has the modulus length
			s := genSuite(r)
			g := []string{"2", "14"}[r.Intn(2)]
			prop := &message.Proposal{ProtocolID: message.TypeIKE}
			mk := func(ty uint8, id uint16) *message.Transform {
				return &message.Transform{TransformType: ty, TransformID: id}
			}
			prop.DiffieHellmanGroup = append(prop.DiffieHellmanGroup, mk(4, map[string]uint16{"2": 2, "14": 14}[g]))
			prop.EncryptionAlgorithm = append(prop.EncryptionAlgorithm, &message.Transform{TransformType: 1, TransformID: 12, AttributePresent: true,
				AttributeFormat: 1, AttributeType: 14, AttributeValue: uint16(encrKeyLen[s.e] * 8)})
			prop.IntegrityAlgorithm = append(prop.IntegrityAlgorithm, mk(3, map[string]uint16{"md5": 1, "sha1": 2, "sha256": 12}[s.i]))
			prop.PseudorandomFunction = append(prop.PseudorandomFunction, mk(2, map[string]uint16{"md5": 1, "sha1": 2, "sha256": 5}[s.p]))
			nonce, si, sr := r.Bytes(r.Range(16, 64)), r.U64(), r.U64()
			k, pub, err := security.NewIKESAKey(prop, []byte{2}, nonce, si, sr)
			if err != nil {
				return "newsa:err"
			}
			if len(pub) != dhLen[g] {
				return fmt.Sprintf("newsa:public-value-of-%d-octets", len(pub))
			}
			if ref, _ := implGenIkesa(s, nonce, pub, si, sr); ref != saKeysSX(k) {
				return "newsa:keys-differ-from-the-derivation-over-the-returned-public-value"
			}
			return "newsa:ok"
		case 5: // IKE SA key derivation
			s := genSuite(r)
			out, _ := implGenIkesa(s, r.Bytes(r.Range(1, 64)), r.Bytes(r.Range(1, 64)), r.U64(), r.U64())
			return "ikesa:" + out
		case 6: // Child SA derivation on an own IKE SA
			s := genSuite(r)
			ks := genKeys(r, s)
			sa, err := saFromKeys(s, ks.d, ks.ai, ks.ar, ks.ei, ks.er, ks.pi, ks.pr)
			if err != nil {
				return "child:keyerr"
			}
			return "child:" + implChild(sa, encrIDs[r.Intn(3)], []string{"none", "md5", "sha1", "sha256"}[r.Intn(4)], r.Bytes(32)) +
				implChild(sa, encrIDs[r.Intn(3)], "sha1", r.Bytes(16))
		case 7: // Diffie-Hellman
			g := []string{"2", "14"}[r.Intn(2)]
			x, y := r.Bytes(r.Range(1, 24)), r.Bytes(r.Range(1, 64))
			return "dh:" + implDhPublic(g, x) + implDhShared(g, x, y)
		case 8: // transform mapping over the shared registries
			var sb strings.Builder
			for k := 0; k < 8; k++ {
				kind := trKinds[r.Intn(len(trKinds))]
				t := &message.Transform{TransformType: kindType[kind], TransformID: uint16(r.Pick([]int{0, 1, 2, 5, 12, 14, 99})), AttributePresent: true,
					AttributeFormat: 1, AttributeType: 14, AttributeValue: uint16(r.Pick([]int{128, 192, 256, 64}))}
				sb.WriteString(implTrDecode(kind, t))
			}
			e, _ := encr.ToTransform(encr.StrToType(encrNames[encrIDs[r.Intn(3)]]))
			sb.WriteString(sxTransform(e).String())
			sb.WriteString(sxTransform(integ.ToTransform(integ.StrToType(integNames[hashIDs[r.Intn(3)]]))).String())
			sb.WriteString(sxTransform(prf.ToTransform(prf.StrToType(prfNames[hashIDs[r.Intn(3)]]))).String())
			sb.WriteString(sxTransform(dh.ToTransform(dh.StrToType("DH_2048_BIT_MODP"))).String())
			v, _ := esn.StrToType("ESN_ENABLE")
			sb.WriteString(sxTransform(esn.ToTransform(v)).String())
			return "map:" + sb.String()
		case 9: // EAP processing
			e := genEapAny(r)
			out := implEapMarshal(e)
			if b := okBody(out); b != nil {
				out += implEapUnmarshal(b[0].B0())
			}
			a, b2, c2, d2, e2, err := eap.EapAkaPrimePRF(r.Bytes(16), r.Bytes(16), "id")
			if err == nil {
				out += hx(a) + hx(b2) + hx(c2) + hx(d2) + hx(e2)
			}
			if e.At(3).IsL && e.At(3).Head() == "aka" {
				if m, err := goEap(e).CalcEapAkaPrimeAtMAC(r.Bytes(32)); err == nil {
					out += hx(m)
				}
			}
			return "eap:" + out
		case 10: // random number generation from the shared source: only range facts are schedule-independent
			n, err := security.GenerateRandomNumber()
			u, err2 := security.GenerateRandomUint8()
			_ = u
			if err != nil || err2 != nil {
				return "rand:err"
			}
			lo := new(big.Int).Lsh(big.NewInt(1), 128)
			if n.Cmp(lo) < 0 || n.BitLen() > 2048 {
				return "rand:out-of-range"
			}
			return "rand:ok"
		default: // builders + payload chain
			var c message.IKEPayloadContainer
			c.BuildNonce(r.Bytes(16))
			c.BuildNotification(uint8(r.Intn(256)), uint16(r.Intn(65536)), r.Bytes(4), r.Bytes(8))
			_ = c.BuildEAP5GNAS(uint8(r.Intn(256)), r.Bytes(r.Range(1, 40)))
			b, err := c.Encode()
			if err != nil {
				return "build:err"
			}
			return "build:" + hx(b)
		}
	})
}

func runC18(c *Ctx) error {
	setSolo(false) // for the whole run: the sequential prediction must draw exactly what the concurrent phase draws
	r := c.R
	rng := c.Rng
	r.Rule = "N goroutines (2..64) x GOMAXPROCS 2..16, each running its own operation sequence (encode, decode, decode of a shared read-only buffer, protect/unprotect, IKE and Child key " +
		"derivation, Diffie-Hellman, transform mapping, EAP codec / PRF' / AT_MAC, random numbers, builders) on its own objects, against the shared registries and the real random source; " +
		"every result compared with the sequential run of the same sequence; built with the Go race detector; non-trivial = every concurrent operation; distinct by (round, goroutine, step)"
	if c.Replay != "" {
		return nil
	}
	// cold starts first (see coldStart)
	if exe, err := os.Executable(); err == nil {
		for k, n := 0, c.N(3, 12); k < n; k++ {
			seed := rng.U64()
			cmd := exec.Command(exe)
			cmd.Env = append(os.Environ(), fmt.Sprintf("VERIF_COLD=%d", seed))
			out, err := cmd.CombinedOutput()
			r.ImplRuns++
			r.Count(fmt.Sprintf("(cold-start seed=%d)", seed), true, "cold-start")
			txt := string(out)
			for _, ln := range strings.Split(txt, "\n") {
				if strings.HasPrefix(ln, "COLD-MISMATCH") {
					r.Add(Finding{Kind: "instance", What: "the first uses of the library, made concurrently in a fresh process, return something else than the same operations alone",
						Case: fmt.Sprintf("(cold-start seed=%d)", seed), Expected: "the sequential result", Observed: ln})
				}
			}
			if !strings.Contains(txt, "COLD-DONE") {
				if len(txt) > 3000 {
					txt = txt[len(txt)-3000:]
				}
				if err != nil && strings.Contains(txt, "fatal error: concurrent map") {
					r.Add(Finding{Kind: "instance", What: "the Go runtime aborted a fresh process during its first, concurrent uses of the library", Case: fmt.Sprintf("(cold-start seed=%d)", seed), Expected: "no abort", Observed: txt})
				} else {
					r.Notes = appendOnce(r.Notes, "cold-start child did not finish: "+txt)
				}
			}
		}
	}
	raceOn := raceEnabled
	r.Notes = append(r.Notes, fmt.Sprintf("race detector compiled in: %v", raceOn))
	sharedMsg := okBody(implEncode(genMessage(rng)))
	for sharedMsg == nil {
		sharedMsg = okBody(implEncode(genMessage(rng)))
	}
	shared := sharedMsg[0].B0()
	sharedCopy := append([]byte(nil), shared...)
	// the other shared read-only inputs
	fx = &sharedFixtures{}
	for t := 0; t < 50 && fx.sk == nil; t++ {
		k := genSkCase(rng, rng.Intn(9))
		sa, err := saFromKeys(k.s, k.ks.d, k.ks.ai, k.ks.ar, k.ks.ei, k.ks.er, k.ks.pi, k.ks.pr)
		if err != nil {
			continue
		}
		if w, err := ike.EncodeEncrypt(goMsg(k.m), sa, roleOf(k.role)); err == nil {
			fx.sk, fx.skCase = w, k
		}
	}
	fx.ctEncr = encrIDs[rng.Intn(3)]
	fx.ctKey = rng.Bytes(encrKeyLen[fx.ctEncr])
	if cr, err := encr.StrToType(encrNames[fx.ctEncr]).NewCrypto(fx.ctKey); err == nil {
		fx.ct, _ = cr.Encrypt(rng.Bytes(rng.Range(1, 200)))
	}
	for t := 0; t < 50 && fx.eapPkt == nil; t++ {
		if b := okBody(implEapMarshal(genEapAny(rng))); b != nil {
			fx.eapPkt = b[0].B0()
		}
	}
	fxCopy := [][]byte{append([]byte(nil), fx.sk...), append([]byte(nil), fx.ct...), append([]byte(nil), fx.eapPkt...)}
	oldProcs := runtime.GOMAXPROCS(0)
	defer runtime.GOMAXPROCS(oldProcs)
	rounds := c.N(6, 40)
	steps := c.N(12, 40)
	for round := 0; round < rounds; round++ {
		n := []int{2, 4, 8, 16, 32, 64}[round%6]
		procs := []int{2, 3, 4, 8, 16}[round%5]
		runtime.GOMAXPROCS(procs)
		seeds := make([]uint64, n)
		for i := range seeds {
			seeds[i] = rng.U64()
		}
		// concurrent run
		got := make([][]string, n)
		var wg sync.WaitGroup
		start := make(chan struct{})
		for g := 0; g < n; g++ {
			wg.Add(1)
			go func(g int) {
				defer wg.Done()
				gr := NewRng(seeds[g])
				<-start
				for s := 0; s < steps; s++ {
					got[g] = append(got[g], concOp(gr, shared))
					if s%3 == 0 {
						runtime.Gosched()
					}
				}
			}(g)
		}
		close(start)
		wg.Wait()
		// sequential prediction, computed AFTER the concurrent run (a lazily filled shared table would otherwise be populated here first)
		want := make([][]string, n)
		for g := 0; g < n; g++ {
			gr := NewRng(seeds[g])
			for s := 0; s < steps; s++ {
				want[g] = append(want[g], concOp(gr, shared))
			}
		}
		for g := 0; g < n; g++ {
			for s := 0; s < steps; s++ {
				cs := fmt.Sprintf("(concurrent round=%d goroutines=%d gomaxprocs=%d goroutine=%d step=%d seed=%d)", round, n, procs, g, s, seeds[g])
				kind := want[g][s]
				if i := strings.IndexByte(kind, ':'); i > 0 {
					kind = kind[:i]
				}
				r.Count(cs, true, "op:"+kind)
				r.ImplRuns += 2
				if got[g][s] != want[g][s] {
					r.Add(Finding{Kind: "instance", What: "an operation returns a different result when run concurrently with unrelated operations (" + kind + ")",
						Case: cs, Expected: want[g][s], Observed: got[g][s]})
				}
			}
		}
		// kind 15 has a prediction that does not come from the implementation: the model's
		for g := 0; g < n; g++ {
			gr := NewRng(seeds[g])
			for s := 0; s < steps; s++ {
				kind, sub := gr.Intn(concKinds), gr.Fork()
				if kind != 15 {
					continue
				}
				bad, good := failingThenValid(sub)
				mb, err := c.M.Ask("(encode " + bad.String() + ")")
				if err != nil {
					return err
				}
				mg, err := c.M.Ask("(encode " + good.String() + ")")
				if err != nil {
					return err
				}
				if want := "encode2:" + mb + mg; got[g][s] != want {
					r.Add(Finding{Kind: "instance", What: "an encoding returns different octets after an unrelated encoding failed (state kept between calls outside the objects passed in)",
						Case: fmt.Sprintf("(encode-after-failed-encode %s %s)", bad, good), Expected: want, Observed: got[g][s]})
				}
			}
		}
		r.Hist[fmt.Sprintf("round:goroutines=%d,gomaxprocs=%d", n, procs)]++
		if !bytes.Equal(shared, sharedCopy) {
			r.Add(Finding{Kind: "instance", What: "a decoder wrote into its shared read-only input buffer", Case: "(shared-buffer)", Expected: hx(sharedCopy), Observed: hx(shared)})
		}
		for i, cur := range [][]byte{fx.sk, fx.ct, fx.eapPkt} {
			if !bytes.Equal(cur, fxCopy[i]) {
				what := []string{"DecodeDecrypt", "IKECrypto.Decrypt", "EAP.Unmarshal"}[i]
				r.Add(Finding{Kind: "instance", What: what + " wrote into its shared read-only input buffer", Case: fmt.Sprintf("(shared-input %d %s)", i, hx(fxCopy[i])), Expected: hx(fxCopy[i]), Observed: hx(cur)})
				copy(cur, fxCopy[i])
			}
		}
	}
	r.Sample(fmt.Sprintf("(concurrent rounds=%d steps=%d shared-input=%s)", rounds, steps, hx(shared)))
	// the model's sequential prediction for the shared buffer (value tie)
	mo, err := c.M.Ask("(decode " + hx(shared) + ")")
	if err != nil {
		return err
	}
	if d := implDecode(shared); d != mo {
		r.Add(Finding{Kind: "correspondence", What: "decode of the shared buffer differs from Impl.decode", Case: "(decode " + hx(shared) + ")", Expected: mo, Observed: d})
	}
	// race detector reports
	if p := os.Getenv("VERIF_RACE_LOG"); p != "" {
		files, _ := filepath.Glob(p + ".*")
		for _, f := range files {
			b, _ := os.ReadFile(f)
			txt := string(b)
			if strings.Contains(txt, "DATA RACE") && !strings.Contains(txt, "github.com/free5gc/ike") {
				// neither stack of any report passes through the library: the runner raced with itself
				r.Notes = appendOnce(r.Notes, "race report without a library frame (the runner's own state) ignored: "+txt)
				os.Remove(f)
				continue
			}
			if strings.Contains(txt, "DATA RACE") {
				if len(txt) > 3000 {
					txt = txt[:3000]
				}
				r.Add(Finding{Kind: "instance", What: "data race reported by the Go race detector", Case: "(race-report)", Expected: "no data race", Observed: txt})
			}
			os.Remove(f)
		}
	}
	return nil
}

// ---------- cold start ----------
// A registry or table that is built lazily on first use is only at risk during the FIRST uses of a process; every
// fixture the runner prepares warms the library up.  So the runner re-executes itself a few times as a fresh process
// (VERIF_COLD=<seed>) in which the very first calls into the library are made by 48 goroutines at once - operations that
// need no fixture - and are compared afterwards with the sequential run of the same operations.  Race-detector reports
// of the children land in the same log files as the parent's.
var coldKinds = []int{5, 6, 7, 8, 9, 10, 16, 17, 0, 1, 3}

func coldStart(seed uint64) {
	setSolo(false)
	const n = 48
	seeds := make([]uint64, n)
	sr := NewRng(seed)
	for i := range seeds {
		seeds[i] = sr.U64()
	}
	op := func(g int) string {
		gr := NewRng(seeds[g])
		return concOpKind(coldKinds[g%len(coldKinds)], gr.Fork(), nil)
	}
	got := make([]string, n)
	var wg sync.WaitGroup
	start := make(chan struct{})
	for g := 0; g < n; g++ {
		wg.Add(1)
		go func(g int) {
			defer wg.Done()
			<-start
			got[g] = op(g)
		}(g)
	}
	close(start)
	wg.Wait()
	for g := 0; g < n; g++ {
		if want := op(g); want != got[g] && !strings.HasPrefix(want, "rand:") {
			w, o := want, got[g]
			if len(w) > 300 {
				w = w[:300]
			}
			if len(o) > 300 {
				o = o[:300]
			}
			fmt.Printf("COLD-MISMATCH kind=%d goroutine=%d seed=%d alone=%s concurrent=%s\n", coldKinds[g%len(coldKinds)], g, seed, w, o)
		}
	}
	fmt.Println("COLD-DONE")
}
