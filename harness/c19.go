package main

import (
	"bytes"
	"fmt"
	"net"

	"github.com/free5gc/ike/eap"
	"github.com/free5gc/ike/message"
)

func init() { runners["C19"] = runC19 }

type builderCase struct {
	name string
	args *SX // (name args...) as sent to the model
	call func(c *message.IKEPayloadContainer) error
	want *SX // the payload the specification says is appended; nil = nothing appended; "err" atom = error expected
}

func genBuilder(r *Rng) builderCase {
	u8 := func() uint8 { return r.U8e() }
	u16 := func() uint16 { return r.U16e() }
	data := func(max int) []byte {
		if r.Chance(1, 30) {
			return r.Bytes(r.Pick([]int{65531, 65535, 65536, 70000}))
		}
		return genBytes(r, 0, max)
	}
	switch r.Intn(22) {
	case 0:
		p, t, spi, d := u8(), u16(), genSpi(r), data(300)
		if r.Chance(1, 20) {
			spi = r.Bytes(r.Pick([]int{256, 300, 70000}))
		}
		return builderCase{"notification", L(A("notification"), Nn(uint64(p)), Nn(uint64(t)), Hx(spi), Hx(d)),
			func(c *message.IKEPayloadContainer) error { c.BuildNotification(p, t, spi, d); return nil },
			L(A("n"), Nn(uint64(p)), Nn(uint64(t)), Hx(spi), Hx(d))}
	case 1:
		e, d := u8(), data(300)
		return builderCase{"certificate", L(A("certificate"), Nn(uint64(e)), Hx(d)),
			func(c *message.IKEPayloadContainer) error { c.BuildCertificate(e, d); return nil }, L(A("cert"), Nn(uint64(e)), Hx(d))}
	case 2:
		nx, d := u8(), data(300)
		return builderCase{"encrypted", L(A("encrypted"), Nn(uint64(nx)), Hx(d)),
			func(c *message.IKEPayloadContainer) error {
				c.BuildEncrypted(message.IkePayloadType(nx), d)
				return nil
			}, L(A("sk"), Nn(uint64(nx)), Hx(d))}
	case 3:
		g, d := u16(), data(300)
		return builderCase{"keyexchange", L(A("keyexchange"), Nn(uint64(g)), Hx(d)),
			func(c *message.IKEPayloadContainer) error { c.BUildKeyExchange(g, d); return nil }, L(A("ke"), Nn(uint64(g)), Hx(d))}
	case 4:
		t, d := u8(), data(300)
		return builderCase{"idi", L(A("idi"), Nn(uint64(t)), Hx(d)),
			func(c *message.IKEPayloadContainer) error { c.BuildIdentificationInitiator(t, d); return nil }, L(A("idi"), Nn(uint64(t)), Hx(d))}
	case 5:
		t, d := u8(), data(300)
		return builderCase{"idr", L(A("idr"), Nn(uint64(t)), Hx(d)),
			func(c *message.IKEPayloadContainer) error { c.BuildIdentificationResponder(t, d); return nil }, L(A("idr"), Nn(uint64(t)), Hx(d))}
	case 6:
		t, d := u8(), data(300)
		return builderCase{"auth", L(A("auth"), Nn(uint64(t)), Hx(d)),
			func(c *message.IKEPayloadContainer) error { c.BuildAuthentication(t, d); return nil }, L(A("auth"), Nn(uint64(t)), Hx(d))}
	case 7:
		t := u8()
		return builderCase{"configuration", L(A("configuration"), Nn(uint64(t))),
			func(c *message.IKEPayloadContainer) error { c.BuildConfiguration(t); return nil }, L(A("cp"), Nn(uint64(t)))}
	case 8:
		d := data(300)
		return builderCase{"nonce", L(A("nonce"), Hx(d)), func(c *message.IKEPayloadContainer) error { c.BuildNonce(d); return nil }, L(A("nonce"), Hx(d))}
	case 9:
		return builderCase{"tsi", L(A("tsi")), func(c *message.IKEPayloadContainer) error { c.BuildTrafficSelectorInitiator(); return nil }, L(A("tsi"))}
	case 10:
		return builderCase{"tsr", L(A("tsr")), func(c *message.IKEPayloadContainer) error { c.BuildTrafficSelectorResponder(); return nil }, L(A("tsr"))}
	case 11:
		return builderCase{"sa", L(A("sa")), func(c *message.IKEPayloadContainer) error { c.BuildSecurityAssociation(); return nil }, L(A("sa"))}
	case 12:
		p, sz, n := u8(), u8(), r.Intn(5)
		spis := make([]uint32, n)
		sl := L()
		for i := range spis {
			spis[i] = uint32(r.U64())
			sl.Add(Nn(uint64(spis[i])))
		}
		num := uint16(n)
		if r.Chance(1, 5) {
			num = u16()
		}
		return builderCase{"delete", L(A("delete"), Nn(uint64(p)), Nn(uint64(sz)), Nn(uint64(num)), sl),
			func(c *message.IKEPayloadContainer) error { c.BuildDeletePayload(p, sz, num, spis); return nil },
			L(A("d"), Nn(uint64(p)), Nn(uint64(sz)), Nn(uint64(num)), sl)}
	case 13:
		code, id := u8(), u8()
		return builderCase{"eap", L(A("eap"), Nn(uint64(code)), Nn(uint64(id))),
			func(c *message.IKEPayloadContainer) error { c.BuildEAP(eap.EapCode(code), id); return nil }, L(A("eap"), Nn(uint64(code)), Nn(uint64(id)), A("none"))}
	case 14:
		id := u8()
		return builderCase{"eapsuccess", L(A("eapsuccess"), Nn(uint64(id))),
			func(c *message.IKEPayloadContainer) error { c.BuildEAPSuccess(id); return nil }, L(A("eap"), Nn(3), Nn(uint64(id)), A("none"))}
	case 15:
		id := u8()
		return builderCase{"eapfailure", L(A("eapfailure"), Nn(uint64(id))),
			func(c *message.IKEPayloadContainer) error { c.BuildEAPfailure(id); return nil }, L(A("eap"), Nn(4), Nn(uint64(id)), A("none"))}
	case 16:
		id := u8()
		// TS 24.502 9.3.2.2.1: EAP-Request/5G-Start: vendor 10415, type 3, message id 1, spare 0
		return builderCase{"eap5gstart", L(A("eap5gstart"), Nn(uint64(id))),
			func(c *message.IKEPayloadContainer) error { c.BuildEAP5GStart(id); return nil },
			L(A("eap"), Nn(1), Nn(uint64(id)), L(A("expanded"), Nn(10415), Nn(3), Hx([]byte{1, 0})))}
	case 17:
		id := u8()
		nas := r.Bytes(r.Pick([]int{0, 1, 2, 100, 255, 256, 65535, 65536, 70000, r.Range(1, 2000)}))
		var want *SX
		if len(nas) == 0 || len(nas) > 65535 {
			want = A("err")
		} else {
			// TS 24.502 9.3.2.2.2: message id 2, spare 0, NAS-PDU length (2 octets), NAS-PDU
			vd := append([]byte{2, 0, byte(len(nas) >> 8), byte(len(nas))}, nas...)
			want = L(A("eap"), Nn(1), Nn(uint64(id)), L(A("expanded"), Nn(10415), Nn(3), Hx(vd)))
		}
		return builderCase{"eap5gnas", L(A("eap5gnas"), Nn(uint64(id)), Hx(nas)),
			func(c *message.IKEPayloadContainer) error { return c.BuildEAP5GNAS(id, nas) }, want}
	case 18:
		pdu, dscp := u8(), u8()
		qfis := r.Bytes(r.Pick([]int{0, 1, 2, 8, 63, 250, 251, 252, 255, 256, 300, r.Range(0, 300)}))
		isd, iss := r.Bool(), r.Bool()
		var want *SX
		// TS 24.502 9.3.1.1: length, PDU session id, number of QFIs, QFI list, flags (DCSI = bit 2, DSCPI = bit 1), optional DSCP
		n := 1 + 1 + 1 + len(qfis) + 1 + b2i(iss)
		if len(qfis) > 255 || n > 255 {
			want = A("err")
		} else {
			body := []byte{byte(n), pdu, byte(len(qfis))}
			body = append(body, qfis...)
			body = append(body, byte(2*b2i(isd)+b2i(iss)))
			if iss {
				body = append(body, dscp)
			}
			want = L(A("n"), Nn(0), Nn(55501), Hx(nil), Hx(body))
		}
		return builderCase{"qosinfo", L(A("qosinfo"), Nn(uint64(pdu)), Hx(qfis), Nn(uint64(b2i(isd))), Nn(uint64(b2i(iss))), Nn(uint64(dscp))),
			func(c *message.IKEPayloadContainer) error { return c.BuildNotify5G_QOS_INFO(pdu, qfis, isd, iss, dscp) }, want}
	case 19, 20:
		ip := net.IPv4(u8(), u8(), u8(), u8())
		s := ip.String()
		which := []string{"nasip4", "upip4"}[r.Intn(2)]
		nt := map[string]uint64{"nasip4": 55502, "upip4": 55504}[which]
		arg, want := Hx([]byte(ip.To4())), L(A("n"), Nn(0), Nn(nt), Hx(nil), Hx([]byte(ip.To4())))
		if r.Chance(1, 8) {
			s, arg, want = "", A("none"), nil
		}
		return builderCase{which, L(A(which), arg), func(c *message.IKEPayloadContainer) error {
			if which == "nasip4" {
				c.BuildNotifyNAS_IP4_ADDRESS(s)
			} else {
				c.BuildNotifyUP_IP4_ADDRESS(s)
			}
			return nil
		}, want}
	default:
		port := u16()
		if r.Chance(1, 8) {
			port = 0
		}
		var want *SX
		if port != 0 {
			want = L(A("n"), Nn(0), Nn(55506), Hx(nil), Hx([]byte{byte(port >> 8), byte(port)}))
		}
		return builderCase{"nastcpport", L(A("nastcpport"), Nn(uint64(port))),
			func(c *message.IKEPayloadContainer) error { c.BuildNotifyNAS_TCP_PORT(port); return nil }, want}
	}
}

func runC19(c *Ctx) error {
	r := c.R
	rng := c.Rng
	r.Rule = "every Build* function with random arguments (octet strings 0..70000 where a limit exists, NAS PDUs 0..70000, QFI lists 0..300, all flag combinations, " +
		"dotted-quad addresses, ports incl. 0) applied to random prior containers; sub-element builders; NewMessage / NewHeader with all flag combinations; " +
		"results compared with the model and with the TS 24.502 / argument-derived expected payload, then encoded; non-trivial = non-empty prior container or sub-container; distinct by the case"
	if c.Replay != "" {
		return nil
	}
	if _, err := c.M.Ask(fmt.Sprintf("(aka_full %d)", b2i(akaFull))); err != nil {
		return err
	}
	fail := func(what, cs, exp, obs string) {
		r.Add(Finding{Kind: "instance", What: what, Case: cs, Expected: exp, Observed: obs})
	}
	for i, n := 0, c.N(1500, 50000); i < n; i++ {
		prior := genPayloadList(rng)
		if rng.Chance(1, 4) {
			prior = L()
		}
		b := genBuilder(rng)
		cs := fmt.Sprintf("(build %s %s)", prior, b.args)
		var before, after string
		impl := run(func() string {
			cont := goPayloads(prior)
			before = sxPayloads(cont).String()
			if err := b.call(&cont); err != nil {
				return "err"
			}
			after = sxPayloads(cont).String()
			return "(ok " + after + ")"
		})
		r.ImplRuns++
		r.Count(cs, len(prior.List) > 0, "builder:"+b.name)
		if i%97 == 0 {
			r.Sample(cs)
		}
		// two calls of one builder yield payloads that share no mutable object (nothing is kept between calls)
		if i%3 == 0 {
			seed := rng.U64()
			b1, b2 := genBuilder(NewRng(seed)), genBuilder(NewRng(seed)) // equal arguments, allocated separately
			shared := run(func() string {
				var c1, c2 message.IKEPayloadContainer
				if err := b1.call(&c1); err != nil || len(c1) == 0 {
					return "-"
				}
				if err := b2.call(&c2); err != nil || len(c2) == 0 {
					return "-"
				}
				if hits := sharedMemory(c1[len(c1)-1], c2[len(c2)-1]); len(hits) > 0 {
					return fmt.Sprint(hits)
				}
				return "-"
			})
			if shared != "-" && shared != "fault" {
				fail("two payloads built by separate calls share a mutable object (state kept between builder calls)", fmt.Sprintf("(build-twice %s)", b1.args), "no shared memory", shared)
			}
		}
		// one scratch container used for two messages: build, hand the list to NewMessage, Reset, build again - the first
		// message (and the caller's own copy of the list) keep the payloads they had
		if i%3 == 1 {
			seed := rng.U64()
			hist := run(func() string {
				gr := NewRng(seed)
				var sc message.IKEPayloadContainer
				for k := gr.Range(1, 4); k > 0; k-- {
					_ = genBuilder(gr).call(&sc)
				}
				if len(sc) == 0 {
					return "-"
				}
				first := message.NewMessage(gr.U64(), gr.U64(), 34, false, true, 0, sc)
				held := sc
				snap := sxPayloads(held).String()
				enc1, err1 := first.Encode()
				sc.Reset()
				for k := gr.Range(1, 4); k > 0; k-- {
					_ = genBuilder(gr).call(&sc)
				}
				if now := sxPayloads(held).String(); now != snap {
					return "the payload list handed out before Reset changed: " + snap + " -> " + now
				}
				if now := sxPayloads(first.Payloads).String(); now != snap {
					return "the first message's payloads changed: " + snap + " -> " + now
				}
				if enc2, err2 := first.Encode(); (err1 == nil) != (err2 == nil) || !bytes.Equal(enc1, enc2) {
					return "the first message encodes differently: " + hx(enc1) + " -> " + hx(enc2)
				}
				return "-"
			})
			if hist != "-" && hist != "fault" {
				fail("builders called after Reset alter payloads built before it (the container's storage is re-used)", fmt.Sprintf("(build-reset-build seed=%d)", seed), "earlier payloads untouched", hist)
			}
		}
		model, err := c.M.Ask(cs)
		if err != nil {
			return err
		}
		if impl != model {
			r.Add(Finding{Kind: "correspondence", What: "builder differs from Impl.Build", Case: cs, Expected: model, Observed: impl})
		}
		// instance: exactly one payload with fields = arguments appended, earlier payloads untouched; oversize -> error
		var want string
		switch {
		case b.want != nil && !b.want.IsL && b.want.Atom == "err":
			want = "err"
		case b.want == nil:
			want = "(ok " + before + ")"
		default:
			w, _ := ParseSX(before)
			w.Add(b.want)
			want = "(ok " + w.String() + ")"
		}
		if impl != want {
			fail("builder "+b.name+" does not append exactly the specified payload / does not refuse oversize arguments", cs, want, impl)
		}
		// composed with Encode: an oversize field is an error, never a truncated field
		if impl != "err" && b.want != nil && b.want.IsL && rng.Chance(1, 3) {
			enc := implPayloadMarshalSX(b.want)
			encM, err := c.M.Ask("(payload_marshal " + b.want.String() + ")")
			if err != nil {
				return err
			}
			if enc != encM {
				r.Add(Finding{Kind: "correspondence", What: "Marshal of a built payload differs from the model", Case: cs, Expected: encM, Observed: enc})
			}
		}
	}
	// sub-element builders
	for i, n := 0, c.N(300, 6000); i < n; i++ {
		switch rng.Intn(4) {
		case 0:
			var cont message.ConfigurationAttributeContainer
			prior := L()
			for k := rng.Intn(4); k > 0; k-- {
				t, v := rng.U16e(), genBytes(rng, 0, 20)
				if rng.Chance(1, 2) { // the sizes configuration attributes really have: addresses, address + prefix
					v = rng.BytesE(rng.Pick([]int{4, 16, 16, 8, 17}))
				}
				cont.BuildConfigurationAttribute(t, v)
				prior.Add(L(A("a"), Nn(uint64(t)), Hx(v)))
			}
			t, v := rng.U16e(), genBytes(rng, 0, 300)
			if rng.Chance(1, 2) {
				v = rng.BytesE(rng.Pick([]int{4, 16, 16, 8, 17}))
			}
			cont.BuildConfigurationAttribute(t, v)
			got := L()
			for _, a := range cont {
				got.Add(L(A("a"), Nn(uint64(a.Type)), Hx(a.Value)))
			}
			cs := fmt.Sprintf("(build_cp_attr %s %d %s)", prior, t, hx(v))
			want := L(prior.List...)
			want.Add(L(A("a"), Nn(uint64(t)), Hx(v)))
			if err := subCheck(c, cs, got.String(), want.String(), len(prior.List) > 0); err != nil {
				return err
			}
		case 1:
			var cont message.IndividualTrafficSelectorContainer
			prior := L()
			for k := rng.Intn(3); k > 0; k-- {
				s := genSelector(rng)
				cont.BuildIndividualTrafficSelector(uint8(s.U(1)), uint8(s.U(2)), uint16(s.U(3)), uint16(s.U(4)), s.B(5), s.B(6))
				prior.Add(s)
			}
			s := genSelector(rng)
			cont.BuildIndividualTrafficSelector(uint8(s.U(1)), uint8(s.U(2)), uint16(s.U(3)), uint16(s.U(4)), s.B(5), s.B(6))
			got := sxSelectors("x", cont)
			got.List = got.List[1:]
			cs := fmt.Sprintf("(build_selector %s %d %d %d %d %s %s)", prior, s.U(1), s.U(2), s.U(3), s.U(4), s.At(5).Atom, s.At(6).Atom)
			want := L(prior.List...)
			want.Add(s)
			if err := subCheck(c, cs, got.String(), want.String(), len(prior.List) > 0); err != nil {
				return err
			}
		case 2:
			var cont message.ProposalContainer
			prior := L()
			for k := rng.Intn(3); k > 0; k-- {
				num, proto, spi := uint8(rng.Intn(256)), uint8(rng.Intn(256)), genSpi(rng)
				cont.BuildProposal(num, proto, spi)
				prior.Add(L(A("prop"), Nn(uint64(num)), Nn(uint64(proto)), Hx(spi), L(A("encr")), L(A("prf")), L(A("integ")), L(A("dh")), L(A("esn"))))
			}
			num, proto, spi := uint8(rng.Intn(256)), uint8(rng.Intn(256)), genSpi(rng)
			cont.BuildProposal(num, proto, spi)
			got := L()
			for _, p := range cont {
				got.Add(sxProposal(p))
			}
			cs := fmt.Sprintf("(build_proposal %s %d %d %s)", prior, num, proto, hx(spi))
			want := L(prior.List...)
			want.Add(L(A("prop"), Nn(uint64(num)), Nn(uint64(proto)), Hx(spi), L(A("encr")), L(A("prf")), L(A("integ")), L(A("dh")), L(A("esn"))))
			if err := subCheck(c, cs, got.String(), want.String(), len(prior.List) > 0); err != nil {
				return err
			}
		default:
			var cont message.TransformContainer
			prior := L()
			for k := rng.Intn(3); k > 0; k-- {
				cont.BuildTransform(1, 12, nil, nil, nil)
				prior.Add(L(A("tr"), Nn(1), Nn(12), Nn(0), Nn(0), Nn(0), Nn(0), Hx(nil)))
			}
			ty, id := rng.U8e(), rng.U16e()
			var at, av *uint16
			var vari []byte
			sat, sav := "none", "none"
			want := L(prior.List...)
			switch rng.Intn(3) {
			case 0:
				want.Add(L(A("tr"), Nn(uint64(ty)), Nn(uint64(id)), Nn(0), Nn(0), Nn(0), Nn(0), Hx(nil)))
			case 1:
				a, v := rng.U16e(), rng.U16e()
				at, av, sat, sav = &a, &v, fmt.Sprint(a), fmt.Sprint(v)
				want.Add(L(A("tr"), Nn(uint64(ty)), Nn(uint64(id)), Nn(1), Nn(1), Nn(uint64(a)), Nn(uint64(v)), Hx(nil)))
			default:
				a := rng.U16e()
				at, sat = &a, fmt.Sprint(a)
				vari = genBytes(rng, 1, 300)
				want.Add(L(A("tr"), Nn(uint64(ty)), Nn(uint64(id)), Nn(1), Nn(0), Nn(uint64(a)), Nn(0), Hx(vari)))
			}
			cont.BuildTransform(ty, id, at, av, vari)
			got := sxTransforms("x", cont)
			got.List = got.List[1:]
			cs := fmt.Sprintf("(build_transform %s %d %d %s %s %s)", prior, ty, id, sat, sav, hx(vari))
			if err := subCheck(c, cs, got.String(), want.String(), len(prior.List) > 0); err != nil {
				return err
			}
		}
	}
	// NewMessage / NewHeader
	for i, n := 0, c.N(200, 4000); i < n; i++ {
		ispi, rspi, ex, mid := rng.U64(), rng.U64(), uint8(rng.Intn(256)), uint32(rng.U64())
		resp, init := i&1 == 1, i&2 == 2
		ps := genPayloadList(rng)
		var m *message.IKEMessage
		impl := run(func() string {
			m = message.NewMessage(ispi, rspi, ex, resp, init, mid, goPayloads(ps))
			return L(sxMsg(m), Nn(uint64(b2i(m.IsResponse()))), Nn(uint64(b2i(m.IsInitiator())))).String()
		})
		cs := fmt.Sprintf("(new_message %s %s %d %d %d %d %s)", hx(be8(ispi)), hx(be8(rspi)), ex, b2i(resp), b2i(init), mid, ps)
		r.ImplRuns++
		r.Count(cs, true, fmt.Sprintf("new_message:resp=%v,init=%v", resp, init))
		model, err := c.M.Ask(cs)
		if err != nil {
			return err
		}
		if impl != model {
			r.Add(Finding{Kind: "correspondence", What: "NewMessage differs from Impl.new_message", Case: cs, Expected: model, Observed: impl})
		}
		if m != nil {
			flags := uint8(0)
			if resp {
				flags |= 0x20
			}
			if init {
				flags |= 0x08
			}
			h := m.IKEHeader
			if h.MajorVersion != 2 || h.MinorVersion != 0 || h.InitiatorSPI != ispi || h.ResponderSPI != rspi || h.ExchangeType != ex || h.MessageID != mid ||
				h.Flags != flags || m.IsResponse() != resp || m.IsInitiator() != init {
				fail("NewMessage header does not carry version 2.0, the given fields and exactly the requested flag bits", cs, fmt.Sprintf("flags=%d", flags), sxHeader(h).String())
			}
			nh := message.NewHeader(ispi, rspi, ex, resp, init, mid, 33, nil)
			if nh.Flags != flags || nh.NextPayload != 33 || nh.MajorVersion != 2 || nh.MinorVersion != 0 || nh.IsResponse() != resp || nh.IsInitiator() != init {
				fail("NewHeader does not carry the requested flag bits / next payload", cs, fmt.Sprintf("flags=%d", flags), sxHeader(nh).String())
			}
		}
	}
	// the exported sub-builder under the EAP-5G helpers: fields equal the arguments (24-bit vendor id, 32-bit vendor type,
	// data of any size), and the result owns its data
	for i, n := 0, c.N(200, 5000); i < n; i++ {
		vid, vty := uint32(rng.Pick([]int{0, 1, 10415, 0xffff, 0x10000, 0x7a28af, 0xffffff, rng.Intn(1 << 24)})), uint32(rng.U64())
		if rng.Chance(1, 3) {
			vty = uint32(rng.Pick([]int{0, 1, 3, 0xffff, 0x10000, 0x7fffffff, 0xffffffff}))
		}
		data := rng.Bytes(rng.Pick([]int{0, 1, 2, 4, 255, 256, 1000, rng.Range(0, 64)}))
		cs := fmt.Sprintf("(build_eap_expanded %d %d %s)", vid, vty, hx(data))
		arg := append([]byte(nil), data...)
		var got string
		out := run(func() string {
			x := message.BuildEapExpanded(vid, vty, arg)
			wipe(arg) // the caller's buffer is transient
			got = fmt.Sprintf("(expanded %d %d %s)", x.VendorID, x.VendorType, hx(x.VendorData))
			return got
		})
		r.ImplRuns++
		r.Count(cs, len(data) > 0, "sub-builder:build_eap_expanded")
		if want := fmt.Sprintf("(expanded %d %d %s)", vid, vty, hx(data)); out != want {
			fail("BuildEapExpanded does not return exactly the given vendor id, vendor type and data", cs, want, out)
		}
	}
	return nil
}

func implPayloadMarshalSX(p *SX) string { return implPayloadMarshal(p) }

func subCheck(c *Ctx, cs, got, want string, nontrivial bool) error {
	c.R.ImplRuns++
	c.R.Count(cs, nontrivial, "sub-builder:"+cs[1:indexSpace(cs)])
	model, err := c.M.Ask(cs)
	if err != nil {
		return err
	}
	if got != model {
		c.R.Add(Finding{Kind: "correspondence", What: "sub-element builder differs from Impl.Build", Case: cs, Expected: model, Observed: got})
	}
	if got != want {
		c.R.Add(Finding{Kind: "instance", What: "sub-element builder does not append exactly one element with the given fields", Case: cs, Expected: want, Observed: got})
	}
	return nil
}
func indexSpace(s string) int {
	for i := range s {
		if s[i] == ' ' {
			return i
		}
	}
	return len(s)
}
