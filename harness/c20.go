package main

import (
	"bytes"
	"fmt"
	"reflect"
	"unsafe"

	ike "github.com/free5gc/ike"
	"github.com/free5gc/ike/message"
)

func init() { runners["C20"] = runC20 }

type memRange struct {
	lo, hi uintptr
	path   string
}

// slicesOf collects the backing arrays of every slice reachable from v (exported or not)
func slicesOf(v reflect.Value, path string, out *[]memRange, seen map[uintptr]bool) {
	switch v.Kind() {
	case reflect.Ptr, reflect.Interface:
		if v.IsNil() {
			return
		}
		if v.Kind() == reflect.Ptr {
			if seen[v.Pointer()] {
				return
			}
			seen[v.Pointer()] = true
		}
		slicesOf(v.Elem(), path, out, seen)
	case reflect.Struct:
		for i := 0; i < v.NumField(); i++ {
			slicesOf(v.Field(i), path+"."+v.Type().Field(i).Name, out, seen)
		}
	case reflect.Slice:
		if v.IsNil() || v.Cap() == 0 {
			return
		}
		et := v.Type().Elem()
		switch et.Kind() {
		case reflect.Uint8, reflect.Uint16, reflect.Uint32, reflect.Uint64:
			lo := v.Pointer()
			*out = append(*out, memRange{lo, lo + uintptr(v.Cap())*et.Size(), path})
		default:
			for i := 0; i < v.Len(); i++ {
				slicesOf(v.Index(i), fmt.Sprintf("%s[%d]", path, i), out, seen)
			}
		}
	case reflect.Map:
		it := v.MapRange()
		for it.Next() {
			slicesOf(it.Value(), path+"[k]", out, seen)
		}
	}
}

// sharedMemory: do two values reach a common mutable object - the same pointer target or overlapping slice arrays?
func sharedMemory(a, b interface{}) []string {
	var ra, rb []memRange
	sa, sb := map[uintptr]bool{}, map[uintptr]bool{}
	slicesOf(reflect.ValueOf(a), "", &ra, sa)
	slicesOf(reflect.ValueOf(b), "", &rb, sb)
	var hits []string
	for p := range sa {
		if sb[p] {
			hits = append(hits, fmt.Sprintf("pointer %#x", p))
		}
	}
	for _, x := range ra {
		for _, y := range rb {
			if x.lo < y.hi && y.lo < x.hi {
				hits = append(hits, x.path+" ~ "+y.path)
			}
		}
	}
	return hits
}

func overlaps(r memRange, b []byte) bool {
	if cap(b) == 0 {
		return false
	}
	lo := uintptr(unsafe.Pointer(unsafe.SliceData(b)))
	hi := lo + uintptr(cap(b))
	return r.lo < hi && lo < r.hi
}

func aliasesOf(x interface{}, buf []byte) []string {
	var rs []memRange
	slicesOf(reflect.ValueOf(x), "", &rs, map[uintptr]bool{})
	var hits []string
	for _, r := range rs {
		if overlaps(r, buf) {
			hits = append(hits, r.path)
		}
	}
	return hits
}

func scribble(b []byte) {
	b = b[:cap(b)]
	for i := range b {
		b[i] ^= 0xa5
	}
}

func runC20(c *Ctx) error {
	r := c.R
	rng := c.Rng
	r.Rule = "decode / unprotect of accepted byte strings (encodings of domain messages and accepted mutations) inside a receive buffer that is then overwritten; " +
		"exact address-range comparison of every slice reachable from the decoded payloads against the buffer; Encode twice, buffer overwritten in between, address ranges of the returned buffer " +
		"against every slice of the message; protect: payload objects and header fields before / after; non-trivial = message with at least one payload; distinct by the case"
	if c.Replay != "" {
		return nil
	}
	if _, err := c.M.Ask(fmt.Sprintf("(aka_full %d)", b2i(akaFull))); err != nil {
		return err
	}
	fail := func(what, cs, exp, obs string) { r.Add(Finding{Kind: "instance", What: what, Case: cs, Expected: exp, Observed: obs}) }
	for i, n := 0, c.N(1500, 50000); i < n; i++ {
		msx := genMessage(rng)
		enc := okBody(implEncode(msx))
		if enc == nil {
			continue
		}
		wire := enc[0].B0()
		if i%9 == 0 {
			// an EAP payload whose EAP-AKA' packet comes from an independent encoder: attributes the library does not
			// interpret are carried through by the decoder (its attribute MAP then has entries only decoding can create)
			pkt, _ := genWirePacket(rng)
			h := make([]byte, 28)
			copy(h, rng.Bytes(16))
			h[16], h[17], h[18] = 48, 0x20, 35
			n := 28 + 4 + len(pkt)
			h[24], h[25], h[26], h[27] = byte(n>>24), byte(n>>16), byte(n>>8), byte(n)
			if rng.Chance(1, 3) { // any EAP code octet: the decoder goes by the length, not by the code
				pkt[0] = byte(rng.Pick([]int{0, 3, 4, 5, 255}))
			}
			wire = append(append(h, 0, 0, byte((4+len(pkt))>>8), byte(4+len(pkt))), pkt...)
		} else if i%9 == 4 {
			// datagrams with payloads the library skips (unsupported, not critical) - next to supported ones or alone: the
			// decoded message then has fewer payloads than the datagram, down to none, while the header was parsed from all of it
			var items []chainItem
			for _, p := range msx.At(2).List {
				if p.Head() != "sk" && rng.Chance(1, 2) {
					items = append(items, chainItem{sup: p})
				}
			}
			if rng.Chance(1, 3) {
				items = nil
			}
			for k := rng.Range(1, 3); k > 0; k-- {
				it := chainItem{ty: rng.Pick([]int{1, 7, 32, 49, 53, 54, 128, 200, 255}), body: rng.Bytes(rng.Pick([]int{0, 1, 8, 40}))}
				at := rng.Intn(len(items) + 1)
				items = append(items[:at], append([]chainItem{it}, items[at:]...)...)
			}
			if first, chain, ok := buildChain(items, 0); ok {
				h := make([]byte, 28)
				copy(h, rng.Bytes(16))
				h[16], h[17], h[18] = first, 0x20, 37
				n := 28 + len(chain)
				h[24], h[25], h[26], h[27] = byte(n>>24), byte(n>>16), byte(n>>8), byte(n)
				wire = append(h, chain...)
			}
		} else if rng.Chance(1, 3) { // accepted mutations as well
			w2 := mutate(rng, wire)
			if okBody(implDecode(exact(w2))) != nil {
				wire = w2
			}
		}
		cs := "(decode " + hx(wire) + ")"
		npl := len(msx.At(2).List)
		r.Count(cs, npl > 0, fmt.Sprintf("decode:payloads=%d", npl))
		if i%151 == 0 {
			r.Sample(cs)
		}
		// ---- decode: ownership of the decoded payloads ----
		buf := spare(wire, 0x11)
		m := new(message.IKEMessage)
		if err := m.Decode(buf); err != nil {
			continue
		}
		r.ImplRuns++
		before := sxPayloads(m.Payloads).String()
		// the encoding of the decoded message while the receive buffer still holds the datagram ...
		d0, err0, crashed0 := encodeGuard(m)
		hdrB := sxHeader(m.IKEHeader).String() // (after Encode: it recomputes the header's NextPayload bookkeeping)
		if hits := aliasesOf(m.Payloads, buf[:cap(buf)]); len(hits) > 0 {
			fail("a field of a decoded payload shares memory with the input buffer", cs, "no alias", fmt.Sprint(hits))
		}
		scribble(buf)
		if after := sxPayloads(m.Payloads).String(); after != before || sxHeader(m.IKEHeader).String() != hdrB {
			fail("overwriting the receive buffer changes the decoded message", cs, before, after)
		}
		// the model is pure: the decoded value is a function of the octets (correspondence of the value)
		mo, err := c.M.Ask(cs)
		if err != nil {
			return err
		}
		if b := okBody(mo); b == nil || b[0].At(2).String() != before {
			r.Add(Finding{Kind: "correspondence", What: "decoded payloads differ from Impl.decode", Case: cs, Expected: mo, Observed: before})
		}
		// ---- the decoded message is encoded repeatedly: byte-identical, payloads untouched ----
		// ... and after the buffer was overwritten: the message owns its data, so its encoding is the same
		if d1, err, crashed := encodeGuard(m); !crashed && !crashed0 && ((err == nil) != (err0 == nil) || !bytes.Equal(d0, d1)) {
			fail("the encoding of a decoded message changes when the receive buffer is overwritten", cs, hx(d0), hx(d1))
		}
		if d1, err, crashed := encodeGuard(m); crashed {
			r.Count("(note reencode-crash)", false, "note:encode-of-a-decoded-message-crashes (outside C20; C12 records it)")
			continue
		} else if err == nil {
			for k := 0; k < 5; k++ {
				dk, errk, _ := encodeGuard(m)
				if errk != nil || !bytes.Equal(dk, d1) {
					fail("repeated encodings of a decoded message are not byte-identical", cs, hx(d1), hx(dk))
					break
				}
			}
			if after := sxPayloads(m.Payloads).String(); after != before {
				fail("Encode alters a payload of a decoded message", cs, before, after)
			}
		}
		// ---- encode: purity, determinism, fresh buffer ----
		gm := goMsg(msx)
		pb := sxPayloads(gm.Payloads).String()
		e1, err1, crashed1 := encodeGuard(gm)
		if err1 != nil || crashed1 {
			continue
		}
		ecs := "(encode " + msx.String() + ")"
		if sxPayloads(gm.Payloads).String() != pb {
			fail("Encode alters a payload of the message", ecs, pb, sxPayloads(gm.Payloads).String())
		}
		if hits := aliasesOf(gm, e1); len(hits) > 0 {
			fail("the buffer returned by Encode is referenced by the message", ecs, "no alias", fmt.Sprint(hits))
		}
		keep := append([]byte(nil), e1...)
		scribble(e1)
		if sxPayloads(gm.Payloads).String() != pb {
			fail("writing to the buffer returned by Encode changes the message", ecs, pb, sxPayloads(gm.Payloads).String())
		}
		e2, err2, _ := encodeGuard(gm)
		if err2 != nil || !bytes.Equal(e2, keep) {
			fail("repeated encodings are not byte-identical", ecs, hx(keep), hx(e2))
		}
		// ---- protect: only the payload list and header bookkeeping change ----
		if i%4 == 0 {
			k := genSkCase(rng, i)
			sa, err := saFromKeys(k.s, k.ks.d, k.ks.ai, k.ks.ar, k.ks.ei, k.ks.er, k.ks.pi, k.ks.pr)
			if err != nil {
				return err
			}
			pm := goMsg(msx)
			orig := append(message.IKEPayloadContainer(nil), pm.Payloads...)
			ob := sxPayloads(orig).String()
			h0 := *pm.IKEHeader
			// the caller's own reference to the payload list it handed to the message (same backing array), and a second
			// message built from the same list: protecting pm must alter neither
			callerView := pm.Payloads
			h2 := *pm.IKEHeader
			pm2 := &message.IKEMessage{IKEHeader: &h2, Payloads: callerView}
			enc2a, err2a, _ := encodeGuard(pm2)
			var wireP []byte
			withScript(rng.Bytes(32), nil, func(*scriptReader) { wireP, err = ike.EncodeEncrypt(pm, sa, roleOf(k.role)) })
			pcs := fmt.Sprintf("(protect %s %s)", k.role, msx)
			if err == nil {
				if sxPayloads(orig).String() != ob {
					fail("protecting a message alters its original payload objects", pcs, ob, sxPayloads(orig).String())
				}
				for j := range callerView {
					if callerView[j] != orig[j] {
						fail("protecting a message overwrites the payload list the caller still holds (same backing array)", pcs, ob, sxPayloads(callerView).String())
						break
					}
				}
				if enc2b, err2b, _ := encodeGuard(pm2); (err2a == nil) != (err2b == nil) || !bytes.Equal(enc2a, enc2b) {
					fail("protecting a message changes the encoding of another message built from the same payload list", pcs, hx(enc2a), hx(enc2b))
				}
				h1 := *pm.IKEHeader
				if h1.InitiatorSPI != h0.InitiatorSPI || h1.ResponderSPI != h0.ResponderSPI || h1.MajorVersion != h0.MajorVersion || h1.MinorVersion != h0.MinorVersion ||
					h1.ExchangeType != h0.ExchangeType || h1.Flags != h0.Flags || h1.MessageID != h0.MessageID {
					fail("protecting a message alters header fields other than bookkeeping", pcs, sxHeader(&h0).String(), sxHeader(&h1).String())
				}
				if len(pm.Payloads) != 1 || pm.Payloads[0].Type() != message.TypeSK {
					fail("after protection the payload list is not the single Encrypted payload", pcs, "(sk ...)", sxPayloads(pm.Payloads).String())
				}
				// unprotect inside a receive buffer, then overwrite it
				rb := spare(wireP, 0x22)
				sa2, _ := saFromKeys(k.s, k.ks.d, k.ks.ai, k.ks.ar, k.ks.ei, k.ks.er, k.ks.pi, k.ks.pr)
				um, err := ike.DecodeDecrypt(rb, nil, sa2, roleOf(other(k.role)))
				if err == nil {
					ub := sxPayloads(um.Payloads).String()
					if hits := aliasesOf(um.Payloads, rb[:cap(rb)]); len(hits) > 0 {
						fail("a field of an unprotected payload shares memory with the input buffer", pcs, "no alias", fmt.Sprint(hits))
					}
					scribble(rb)
					if sxPayloads(um.Payloads).String() != ub {
						fail("overwriting the receive buffer changes the unprotected message", pcs, ub, sxPayloads(um.Payloads).String())
					}
				}
			}
		}
	}
	return nil
}

// encodeGuard: Encode with a panic reported as a value (a crash of the encoder on a decoded message is C12's / C03's
// business; this runner must survive it)
func encodeGuard(m *message.IKEMessage) (b []byte, err error, crashed bool) {
	defer func() {
		if r := recover(); r != nil {
			b, crashed = nil, true
		}
	}()
	b, err = m.Encode()
	return
}
