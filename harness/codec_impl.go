package main

import (
	"sort"
	"strconv"

	"github.com/free5gc/ike/eap"
	"github.com/free5gc/ike/message"
)

var kindCode = map[string]uint64{"sa": 33, "ke": 34, "idi": 35, "idr": 36, "cert": 37, "certreq": 38, "auth": 39, "nonce": 40,
	"n": 41, "d": 42, "v": 43, "tsi": 44, "tsr": 45, "sk": 46, "cp": 47, "eap": 48}

// exact returns a copy of b whose capacity equals its length (over-reads panic)
func exact(b []byte) []byte {
	c := make([]byte, len(b))
	copy(c, b)
	return c[:len(b):len(b)]
}

// rx lays a received datagram out the way callers hold one: alone in an array of exactly its size, or - what a socket
// read into a receive buffer gives - at the front of a larger array whose remaining capacity holds other octets.  The
// three layouts alternate; the value (the octets inside the length) is the same, so the outcome must be.
var rxCount int

func rx(b []byte) []byte {
	if !solo() {
		return spare(b, 0x5a)
	}
	rxCount++
	switch rxCount % 3 {
	case 0:
		return exact(b)
	case 1:
		return spare(b, 0x5a)
	}
	c := make([]byte, 2048+len(b))
	copy(c, b)
	for i := len(b); i < len(c); i++ {
		c[i] = 0xc3 ^ byte(i*13)
	}
	return c[:len(b)]
}

// scratchArg hands an argument to the library the way a caller with ONE scratch buffer per purpose does: two calls of
// three get their octets in the same array as the previous argument of that length (overwritten in place), one gets a
// fresh array.  A library that remembers the slice it was given - as a cache key, as a stored value - instead of the
// octets then sees its memory change.
var (
	scratchArenas = map[[2]int][]byte{}
	scratchCount  int
)

// (slot distinguishes the arguments of one call: two arguments of one call never share an array)
func scratchArg(slot int, b []byte) []byte {
	if !solo() || len(b) == 0 {
		return b
	}
	if scratchCount++; scratchCount%3 == 0 {
		return append([]byte(nil), b...)
	}
	a, ok := scratchArenas[[2]int{slot, len(b)}]
	if !ok {
		a = make([]byte, len(b))
		scratchArenas[[2]int{slot, len(b)}] = a
	}
	copy(a, b)
	return a
}

// spare returns a copy of b placed inside a larger buffer whose tail holds a different pattern
func spare(b []byte, pat byte) []byte {
	c := make([]byte, len(b)+96)
	copy(c, b)
	for i := len(b); i < len(c); i++ {
		c[i] = pat ^ byte(i*7)
	}
	return c[:len(b)]
}

func implEncode(m *SX) string {
	wdNote("encode", 0, nil, m)
	return run(func() string {
		b, err := goMsg(m).Encode()
		if err != nil {
			return "err"
		}
		return okS(Hx(b))
	})
}

func implDecode(b []byte) string {
	wdNote("decode", 0, b, nil)
	return run(func() string {
		m := new(message.IKEMessage)
		if err := m.Decode(b); err != nil {
			return "err"
		}
		return okS(sxMsg(m))
	})
}

func implDecodePayloads(next uint8, b []byte) string {
	wdNote("decode_payloads", int(next), b, nil)
	return run(func() string {
		var c message.IKEPayloadContainer
		if err := c.Decode(next, b); err != nil {
			return "err"
		}
		return okS(sxPayloads(c))
	})
}

func implContainerEncode(ps *SX) string {
	wdNote("container_encode", 0, nil, ps)
	return run(func() string {
		c := goPayloads(ps)
		b, err := c.Encode()
		if err != nil {
			return "err"
		}
		return okS(Hx(b))
	})
}

func implParseHeader(b []byte) string {
	wdNote("parse_header", 0, b, nil)
	return run(func() string {
		h, err := message.ParseHeader(b)
		if err != nil {
			return "err"
		}
		return okS(sxHeader(h), Hx(h.PayloadBytes))
	})
}

func newPayload(ty int) message.IKEPayload {
	switch ty {
	case 33:
		return new(message.SecurityAssociation)
	case 34:
		return new(message.KeyExchange)
	case 35:
		return new(message.IdentificationInitiator)
	case 36:
		return new(message.IdentificationResponder)
	case 37:
		return new(message.Certificate)
	case 38:
		return new(message.CertificateRequest)
	case 39:
		return new(message.Authentication)
	case 40:
		return new(message.Nonce)
	case 41:
		return new(message.Notification)
	case 42:
		return new(message.Delete)
	case 43:
		return new(message.VendorID)
	case 44:
		return new(message.TrafficSelectorInitiator)
	case 45:
		return new(message.TrafficSelectorResponder)
	case 46:
		return new(message.Encrypted)
	case 47:
		return new(message.Configuration)
	case 48:
		return message.NewPayloadEap()
	}
	return nil
}

func implPayloadUnmarshal(ty int, b []byte) string {
	wdNote("payload_unmarshal", ty, b, nil)
	return run(func() string {
		p := newPayload(ty)
		if err := p.Unmarshal(b); err != nil {
			return "err"
		}
		return okS(sxPayload(p))
	})
}

func implPayloadMarshal(p *SX) string {
	wdNote("payload_marshal", 0, nil, p)
	return run(func() string {
		b, err := goPayload(p).Marshal()
		if err != nil {
			return "err"
		}
		return okS(Hx(b))
	})
}

func implEapUnmarshal(b []byte) string {
	wdNote("eap_unmarshal", 0, b, nil)
	return run(func() string {
		e := new(eap.EAP)
		if err := e.Unmarshal(b); err != nil {
			return "err"
		}
		return okS(sxEap(e))
	})
}

func implEapMarshal(e *SX) string {
	wdNote("eap_marshal", 0, nil, e)
	return run(func() string {
		b, err := goEap(e).Marshal()
		if err != nil {
			return "err"
		}
		return okS(Hx(b))
	})
}

func implEapDataUnmarshal(ty int, b []byte) string {
	wdNote("eapdata_unmarshal", ty, b, nil)
	return run(func() string {
		var d eap.EapTypeData
		switch ty {
		case 1:
			d = new(eap.EapIdentity)
		case 2:
			d = new(eap.EapNotification)
		case 3:
			d = new(eap.EapNak)
		case 50:
			d = new(eap.EapAkaPrime)
		case 254:
			d = new(eap.EapExpanded)
		}
		if err := d.Unmarshal(b); err != nil {
			return "err"
		}
		return okS(sxEapData(d))
	})
}

// ---------- normal form used by the instance checks ("equal in every field") ----------

// normAka maps both (aka ...) and (akaraw ...) to (aka subtype (at type xvalue)...) sorted by type
func normEapData(d *SX) *SX {
	if !d.IsL {
		return d
	}
	switch d.Head() {
	case "aka":
		ats := append([]*SX(nil), d.Tail(2)...)
		sort.SliceStable(ats, func(i, j int) bool { return ats[i].U(1) < ats[j].U(1) })
		o := L(A("aka"), d.At(1))
		o.Add(ats...)
		return o
	case "akaraw":
		o := L(A("aka"), d.At(1))
		var ats []*SX
		for _, a := range d.Tail(3) {
			ats = append(ats, L(A("at"), a.At(1), a.At(4)))
		}
		sort.SliceStable(ats, func(i, j int) bool { return ats[i].U(1) < ats[j].U(1) })
		o.Add(ats...)
		return o
	}
	return d
}
func normPayload(p *SX) *SX {
	if p.Head() == "eap" {
		return L(A("eap"), p.At(1), p.At(2), normEapData(p.At(3)))
	}
	return p
}
func normPayloads(ps *SX) *SX {
	o := L()
	for _, p := range ps.List {
		o.Add(normPayload(p))
	}
	return o
}

// normMsg: NextPayload is bookkeeping (type of the first payload), EAP-AKA' by its API-visible content
func normMsg(m *SX) *SX {
	h := m.At(1)
	first := uint64(0)
	if len(m.At(2).List) > 0 {
		first = kindCode[m.At(2).At(0).Head()]
	}
	nh := L(h.List[:7]...)
	nh.Add(A(strconv.FormatUint(first, 10)))
	return L(A("msg"), nh, normPayloads(m.At(2)))
}

// okBody returns the s-expressions after "ok" of an outcome string, or nil
func okBody(out string) []*SX {
	if len(out) < 4 || out[:4] != "(ok " {
		return nil
	}
	s, err := ParseSX(out)
	if err != nil {
		return nil
	}
	return s.Tail(1)
}
