package main

import (
	"bufio"
	"encoding/json"
	"os"
	"path/filepath"
	"strings"
)

func b2i(b bool) int {
	if b {
		return 1
	}
	return 0
}

func (s *SX) B0() []byte {
	w := L(s)
	return w.B(0)
}

// replayOrCorpus: with -replay, evaluate only the recorded case(s); otherwise run the property's
// corpus file (one case per line, '#' comments) before the generated stream.
// Cases are wrapped as (<op> <arg>...) ; f receives the whole case.
func replayOrCorpus(c *Ctx, prop string, f func(*SX) error) error {
	if c.Replay != "" {
		raw, err := os.ReadFile(c.Replay)
		if err != nil {
			return err
		}
		var v struct {
			Finding        *Finding  `json:"finding"`
			Correspondence []Finding `json:"correspondence"`
		}
		if err := json.Unmarshal(raw, &v); err != nil {
			return err
		}
		var cases []string
		if v.Finding != nil {
			cases = append(cases, v.Finding.Case)
		}
		for _, x := range v.Correspondence {
			cases = append(cases, x.Case)
		}
		for _, cs := range cases {
			s, err := ParseSX(cs)
			if err != nil {
				return err
			}
			if err := f(s); err != nil {
				return err
			}
		}
		return nil
	}
	if c.Corpus == "" {
		return nil
	}
	fh, err := os.Open(filepath.Join(c.Corpus, prop+".txt"))
	if err != nil {
		return nil
	}
	defer fh.Close()
	sc := bufio.NewScanner(fh)
	sc.Buffer(make([]byte, 1<<20), 1<<24)
	for sc.Scan() {
		line := strings.TrimSpace(sc.Text())
		if line == "" || line[0] == '#' {
			continue
		}
		s, err := ParseSX(line)
		if err != nil {
			return err
		}
		c.R.Hist["corpus"]++
		if err := f(s); err != nil {
			return err
		}
	}
	return nil
}
