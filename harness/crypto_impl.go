package main

import (
	"crypto/rand"
	"errors"
	"fmt"
	"io"
	"strings"

	"github.com/free5gc/ike/security"
	"github.com/free5gc/ike/security/dh"
	"github.com/free5gc/ike/security/encr"
	"github.com/free5gc/ike/security/integ"
	"github.com/free5gc/ike/security/prf"
)

// scriptReader replaces crypto/rand.Reader: it serves the scripted octets; a read that covers a
// failing position (or runs past the end) returns an error and consumes the script through it.
type scriptReader struct {
	data  []byte
	fails map[int]bool
	pos   int
	reads int
}

func (s *scriptReader) Read(p []byte) (int, error) {
	s.reads++
	// a third of the scripts deliver short reads (1..7 octets per call, nil error): legal for an io.Reader, and what a
	// caller that does not use io.ReadFull would silently turn into a partly unfilled buffer
	if len(s.data) > 0 && s.data[0]%3 == 0 && len(p) > 0 {
		if chunk := int(s.data[0]>>4)%7 + 1; len(p) > chunk {
			p = p[:chunk]
		}
	}
	for i := 0; i < len(p); i++ {
		if s.pos+i >= len(s.data) {
			s.pos = len(s.data)
			return 0, errors.New("scripted random source exhausted")
		}
		if s.fails[s.pos+i] {
			s.pos = s.pos + i + 1
			return 0, errors.New("scripted random source failure")
		}
	}
	copy(p, s.data[s.pos:s.pos+len(p)])
	s.pos += len(p)
	return len(p), nil
}
func (s *scriptReader) left() int { return len(s.data) - s.pos }

var realRand io.Reader = rand.Reader

func withScript(data []byte, fails []int, f func(*scriptReader)) {
	sr := &scriptReader{data: data, fails: map[int]bool{}}
	for _, p := range fails {
		sr.fails[p] = true
	}
	old := rand.Reader
	rand.Reader = sr
	defer func() { rand.Reader = old }()
	f(sr)
}

func rndSX(data []byte, fails []int) *SX {
	s := L(A("rnd"), Hx(data))
	for _, p := range fails {
		s.Add(Nn(uint64(p)))
	}
	return s
}
func parseRnd(s *SX) ([]byte, []int) {
	var f []int
	for i := 2; i < len(s.List); i++ {
		f = append(f, int(s.U(i)))
	}
	return s.B(1), f
}

var encrNames = map[string]string{"128": "ENCR_AES_CBC_128", "192": "ENCR_AES_CBC_192", "256": "ENCR_AES_CBC_256"}
var integNames = map[string]string{"md5": "AUTH_HMAC_MD5_96", "sha1": "AUTH_HMAC_SHA1_96", "sha256": "AUTH_HMAC_SHA2_256_128"}
var prfNames = map[string]string{"md5": "PRF_HMAC_MD5", "sha1": "PRF_HMAC_SHA1", "sha256": "PRF_HMAC_SHA2_256"}
var encrKeyLen = map[string]int{"128": 16, "192": 24, "256": 32}  // RFC 3602
var integKeyLen = map[string]int{"md5": 16, "sha1": 20, "sha256": 32} // RFC 2403, 2404, 4868
var integOutLen = map[string]int{"md5": 12, "sha1": 12, "sha256": 16}
var prfKeyLen = map[string]int{"md5": 16, "sha1": 20, "sha256": 32} // RFC 7296 2.13: preferred key size = output size
var encrIDs = []string{"128", "192", "256"}
var hashIDs = []string{"md5", "sha1", "sha256"}

type suite struct{ e, i, p string }

func (s suite) String() string { return s.e + " " + s.i + " " + s.p }
func genSuite(r *Rng) suite    { return suite{encrIDs[r.Intn(3)], hashIDs[r.Intn(3)], hashIDs[r.Intn(3)]} }

func newSA(s suite) *security.IKESAKey {
	return &security.IKESAKey{EncrInfo: encr.StrToType(encrNames[s.e]), IntegInfo: integ.StrToType(integNames[s.i]),
		PrfInfo: prf.StrToType(prfNames[s.p]), DhInfo: dh.StrToType("DH_2048_BIT_MODP")}
}

// saFromKeys builds an IKESAKey holding the given keys exactly as GenerateKeyForIKESA leaves it
func saFromKeys(s suite, d, ai, ar, ei, er, pi, pr []byte) (*security.IKESAKey, error) {
	k := newSA(s)
	cp := func(b []byte) []byte { return append([]byte(nil), b...) }
	k.SK_d, k.SK_ai, k.SK_ar, k.SK_ei, k.SK_er, k.SK_pi, k.SK_pr = cp(d), cp(ai), cp(ar), cp(ei), cp(er), cp(pi), cp(pr)
	k.Prf_d = k.PrfInfo.Init(k.SK_d)
	k.Integ_i = k.IntegInfo.Init(k.SK_ai)
	k.Integ_r = k.IntegInfo.Init(k.SK_ar)
	var err error
	if k.Encr_i, err = k.EncrInfo.NewCrypto(k.SK_ei); err != nil {
		return nil, err
	}
	if k.Encr_r, err = k.EncrInfo.NewCrypto(k.SK_er); err != nil {
		return nil, err
	}
	k.Prf_i = k.PrfInfo.Init(k.SK_pi)
	k.Prf_r = k.PrfInfo.Init(k.SK_pr)
	if k.Integ_i == nil || k.Integ_r == nil {
		return nil, errors.New("integrity key of the wrong size")
	}
	return k, nil
}

type keyset struct{ d, ai, ar, ei, er, pi, pr []byte }

func genKeys(r *Rng, s suite) keyset {
	return keyset{r.Bytes(prfKeyLen[s.p]), r.Bytes(integKeyLen[s.i]), r.Bytes(integKeyLen[s.i]), r.Bytes(encrKeyLen[s.e]),
		r.Bytes(encrKeyLen[s.e]), r.Bytes(prfKeyLen[s.p]), r.Bytes(prfKeyLen[s.p])}
}
func (k keyset) sx() string {
	return strings.Join([]string{hx(k.d), hx(k.ai), hx(k.ar), hx(k.ei), hx(k.er), hx(k.pi), hx(k.pr)}, " ")
}
func saKeysSX(k *security.IKESAKey) string {
	return fmt.Sprintf("(ok %s %s %s %s %s %s %s)", hx(k.SK_d), hx(k.SK_ai), hx(k.SK_ar), hx(k.SK_ei), hx(k.SK_er), hx(k.SK_pi), hx(k.SK_pr))
}

type hasher interface {
	Reset()
	Write([]byte) (int, error)
	Sum([]byte) []byte
}

func probeObj(h hasher, d []byte) string {
	if h == nil {
		return "nil"
	}
	h.Reset()
	_, _ = h.Write(d)
	return hx(h.Sum(nil))
}
