package main

import (
	"encoding/json"
	"os"
	"sort"
)

// Change-directed search.  tools/srcfacts writes, for every function of /repo's current tree, a fingerprint of its text
// and the literals it contains (VERIF_SRCDICT); tools/srcfacts/baseline.json holds the same for the tree the model was
// transcribed from (VERIF_SRCBASE).  Literals of functions that changed since then - above all the NEW ones - are used
// by the generators as a dictionary (sizes at and around them, strings as prefixes / suffixes / whole values), and the
// quick tier draws three times as many cases.  This only steers the search; it is not an obligation: a run on a
// rewritten but equivalent function finds nothing and passes.
type fnDict struct {
	Fingerprint string   `json:"fingerprint"`
	Strings     []string `json:"strings"`
	Ints        []int64  `json:"ints"`
}

var (
	hotStrings   []string
	hotInts      []int
	changedFuncs []string
)

func loadDict() {
	cur, base := map[string]*fnDict{}, map[string]*fnDict{}
	rd := func(env string, into *map[string]*fnDict) bool {
		p := os.Getenv(env)
		if p == "" {
			return false
		}
		b, err := os.ReadFile(p)
		if err != nil {
			return false
		}
		return json.Unmarshal(b, into) == nil
	}
	if !rd("VERIF_SRCDICT", &cur) || !rd("VERIF_SRCBASE", &base) {
		return
	}
	ss, is := map[string]bool{}, map[int]bool{}
	for fn, d := range cur {
		b := base[fn]
		if b != nil && b.Fingerprint == d.Fingerprint {
			continue
		}
		changedFuncs = append(changedFuncs, fn)
		oldS, oldI := map[string]bool{}, map[int64]bool{}
		if b != nil {
			for _, s := range b.Strings {
				oldS[s] = true
			}
			for _, i := range b.Ints {
				oldI[i] = true
			}
		}
		for _, s := range d.Strings {
			if !oldS[s] {
				ss[s] = true
			}
		}
		for _, i := range d.Ints {
			if !oldI[i] && i <= 1<<20 {
				is[int(i)] = true
			}
		}
	}
	for s := range ss {
		hotStrings = append(hotStrings, s)
	}
	for i := range is {
		hotInts = append(hotInts, i)
	}
	sort.Strings(hotStrings)
	sort.Ints(hotInts)
	sort.Strings(changedFuncs)
}

// hotSize: a size at or next to a literal of a changed function, if one fits the range
func (r *Rng) hotSize(lo, hi int) (int, bool) {
	if len(hotInts) == 0 || !r.Chance(1, 5) {
		return 0, false
	}
	v := hotInts[r.Intn(len(hotInts))] + []int{0, 0, 0, -1, 1, -4, 4, -16, 16}[r.Intn(9)]
	if v < lo || v > hi {
		return 0, false
	}
	return v, true
}

// hotString: a string literal of a changed function, or "" (most of the time when there is none)
func (r *Rng) hotString() string {
	if len(hotStrings) == 0 {
		return ""
	}
	return hotStrings[r.Intn(len(hotStrings))]
}
