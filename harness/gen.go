package main

// Generators of the "encodable domain" of properties C01/C03/C05 (structured, valid messages) as
// s-expression trees.  Sizes are biased to boundaries.

var edgeLens = []int{0, 1, 2, 3, 4, 5, 7, 8, 15, 16, 17, 31, 32, 33, 63, 64, 255, 256}

func genLen(r *Rng, min, max int) int {
	if max < min {
		return min
	}
	var n int
	switch r.Intn(10) {
	case 0, 1, 2:
		n = r.Pick(edgeLens)
	case 3:
		n = r.Range(min, max)
	default:
		n = r.Range(min, min+40)
	}
	if n < min {
		n = min
	}
	if n > max {
		n = max
	}
	return n
}
func genBytes(r *Rng, min, max int) []byte { return r.BytesE(genLen(r, min, max)) }

var attrTypeEdges = []int{0, 1, 13, 14, 15, 127, 128, 142, 255, 256, 16383, 16384, 32767}

func genAttrType(r *Rng) uint64 {
	if r.Chance(3, 5) {
		return uint64(r.Pick(attrTypeEdges))
	}
	return uint64(r.Intn(32768))
}

func genTransform(r *Rng, ty int) *SX {
	id := uint64(r.U16e())
	if r.Chance(1, 2) {
		id = uint64(r.Pick([]int{0, 1, 2, 5, 12, 14, 255, 256, 65535}))
	}
	switch r.Intn(4) {
	case 0, 1: // no attribute
		return L(A("tr"), Nn(uint64(ty)), Nn(id), Nn(0), Nn(0), Nn(0), Nn(0), Hx(nil))
	case 2: // TV
		v := uint64(r.U16e())
		if r.Chance(1, 2) {
			v = uint64(r.Pick([]int{0, 128, 192, 256, 65535}))
		}
		return L(A("tr"), Nn(uint64(ty)), Nn(id), Nn(1), Nn(1), Nn(genAttrType(r)), Nn(v), Hx(nil))
	default: // TLV, non-empty value
		return L(A("tr"), Nn(uint64(ty)), Nn(id), Nn(1), Nn(0), Nn(genAttrType(r)), Nn(0), Hx(genBytes(r, 1, 300)))
	}
}

var spiEdges = []int{0, 1, 4, 8, 247, 248, 251, 252, 255}

func genSpi(r *Rng) []byte {
	if r.Chance(1, 2) {
		return r.BytesE(r.Pick(spiEdges))
	}
	return r.BytesE(r.Range(0, 255))
}

func genProposal(r *Rng) *SX {
	p := L(A("prop"), Nn(uint64(r.U8e())), Nn(uint64(r.U8e())), Hx(genSpi(r)))
	total := 0
	names := []string{"encr", "prf", "integ", "dh", "esn"}
	groups := make([]*SX, 5)
	for i := range groups {
		groups[i] = L(A(names[i]))
		n := 0
		if r.Chance(3, 5) {
			n = r.Range(1, 3)
		}
		for j := 0; j < n; j++ {
			groups[i].Add(genTransform(r, i+1))
			total++
		}
	}
	if total == 0 {
		k := r.Intn(5)
		groups[k].Add(genTransform(r, k+1))
	}
	p.Add(groups...)
	return p
}

func genSelector(r *Rng) *SX {
	if r.Bool() {
		return L(A("sel"), Nn(7), Nn(uint64(r.U8e())), Nn(uint64(r.U16e())), Nn(uint64(r.U16e())), Hx(r.BytesE(4)), Hx(r.BytesE(4)))
	}
	return L(A("sel"), Nn(8), Nn(uint64(r.U8e())), Nn(uint64(r.U16e())), Nn(uint64(r.U16e())), Hx(r.BytesE(16)), Hx(r.BytesE(16)))
}

// settable EAP-AKA' attributes with the value sizes the setter accepts
func genAkaAttr(r *Rng, ty int) *SX {
	var v []byte
	switch ty {
	case 1, 2, 11:
		v = r.BytesE(16)
	case 24:
		v = r.BytesE(2)
	case 3:
		v = r.BytesE(r.Range(4, 16))
	case 23:
		v = r.BytesE(r.Pick([]int{0, 1, 2, 3, 4, 5, 11, 16, 100, 250, 251, 252, 253, 255, 256, 300, r.Range(0, 300)}))
	case 134:
		v = r.BytesE(r.Pick([]int{0, 20, 32}))
	}
	return L(A("at"), Nn(uint64(ty)), Hx(v))
}

var akaSettable = []int{1, 2, 3, 11, 23, 24, 134}
var akaSubtypes = []int{1, 2, 4, 5, 12, 13, 14}

func genAka(r *Rng) *SX {
	st := uint64(r.Pick(akaSubtypes))
	if r.Chance(1, 5) {
		st = uint64(r.U8e())
	}
	a := L(A("aka"), Nn(st))
	for _, t := range akaSettable {
		if r.Chance(1, 2) {
			a.Add(genAkaAttr(r, t))
		}
	}
	// SetAttr order is irrelevant for a map; shuffle to exercise it
	for i := len(a.List) - 1; i > 2; i-- {
		j := 2 + r.Intn(i-1)
		a.List[i], a.List[j] = a.List[j], a.List[i]
	}
	return a
}

func genEap(r *Rng) *SX {
	id := Nn(uint64(r.U8e()))
	switch r.Intn(8) {
	case 0:
		return L(A("eap"), Nn(3), id, A("none"))
	case 1:
		return L(A("eap"), Nn(4), id, A("none"))
	}
	code := Nn(uint64(r.Range(1, 2)))
	switch r.Intn(6) {
	case 0:
		return L(A("eap"), code, id, L(A("identity"), Hx(genBytes(r, 1, 300))))
	case 1:
		return L(A("eap"), code, id, L(A("notification"), Hx(genBytes(r, 1, 300))))
	case 2:
		return L(A("eap"), code, id, L(A("nak"), Hx(genBytes(r, 1, 40))))
	case 3:
		vid, vt := uint64(r.Intn(1<<24)), r.U64()&0xffffffff
		if r.Bool() {
			vid, vt = 10415, 3
		}
		return L(A("eap"), code, id, L(A("expanded"), Nn(vid), Nn(vt), Hx(genBytes(r, 0, 300))))
	default:
		return L(A("eap"), code, id, genAka(r))
	}
}

var payloadKinds = []string{"sa", "ke", "idi", "idr", "cert", "certreq", "auth", "nonce", "n", "d", "v", "tsi", "tsr", "cp", "eap"}

func genPayload(r *Rng, kind string) *SX {
	u8 := func() *SX { return Nn(uint64(r.U8e())) }
	u16 := func() *SX { return Nn(uint64(r.U16e())) }
	switch kind {
	case "sa":
		s := L(A("sa"))
		for i, n := 0, r.Pick([]int{0, 1, 1, 1, 2, 3, 4}); i < n; i++ {
			s.Add(genProposal(r))
		}
		return s
	case "ke":
		return L(A("ke"), u16(), Hx(genBytes(r, 1, 300)))
	case "idi", "idr", "auth":
		return L(A(kind), u8(), Hx(genBytes(r, 1, 300)))
	case "cert", "certreq":
		return L(A(kind), u8(), Hx(genBytes(r, 1, 300)))
	case "nonce", "v":
		return L(A(kind), Hx(genBytes(r, 0, 300)))
	case "n":
		return L(A("n"), u8(), u16(), Hx(genSpi(r)), Hx(genBytes(r, 0, 300)))
	case "d":
		if r.Bool() {
			return L(A("d"), u8(), Nn(0), Nn(0), L())
		}
		n := r.Pick([]int{0, 1, 1, 2, 3, 17})
		sp := L()
		for i := 0; i < n; i++ {
			sp.Add(Nn(r.U64() & 0xffffffff))
		}
		return L(A("d"), u8(), Nn(4), Nn(uint64(n)), sp)
	case "tsi", "tsr":
		s := L(A(kind))
		n := r.Pick([]int{1, 1, 2, 3, 5})
		if r.Chance(1, 40) {
			n = 255
		}
		for i := 0; i < n; i++ {
			s.Add(genSelector(r))
		}
		return s
	case "cp":
		s := L(A("cp"), u8())
		for i, n := 0, r.Range(1, 5); i < n; i++ {
			s.Add(L(A("a"), Nn(uint64(r.Intn(32768))), Hx(genBytes(r, 0, 40))))
		}
		return s
	case "eap":
		return genEap(r)
	}
	panic("kind")
}

func genHeader(r *Rng) *SX {
	ex := uint64(r.U8e())
	if r.Bool() {
		ex = uint64(r.Range(34, 37))
	}
	return L(Hx(r.BytesE(8)), Hx(r.BytesE(8)), Nn(uint64(r.Intn(16))), Nn(uint64(r.Intn(16))), Nn(ex), Nn(uint64(r.U8e())),
		Nn(r.U64()&0xffffffff), Nn(uint64(r.U8e())))
}

// genPayloadList: 0..6 payloads of the encodable domain; occasionally one large payload
func genPayloadList(r *Rng) *SX {
	ps := L()
	n := r.Pick([]int{0, 1, 1, 2, 2, 3, 3, 4, 5, 6})
	for i := 0; i < n; i++ {
		ps.Add(genPayload(r, payloadKinds[r.Intn(len(payloadKinds))]))
	}
	if r.Chance(1, 60) {
		big := r.Pick([]int{65531, 65530, 65000, 4096})
		ps.Add(L(A("nonce"), Hx(r.BytesE(big))))
	}
	return ps
}

func genMessage(r *Rng) *SX { return L(A("msg"), genHeader(r), genPayloadList(r)) }

// kindsOf: which payload kinds a payload list uses (for the input-distribution histogram)
func kindsOf(ps *SX) []string {
	var k []string
	for _, p := range ps.List {
		k = append(k, p.Head())
	}
	return k
}
