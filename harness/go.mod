module verifharness

go 1.21

require (
	github.com/free5gc/ike v0.0.0
	github.com/pkg/errors v0.9.1 // indirect
)

replace github.com/free5gc/ike => /repo
