package main

import (
	"flag"
	"fmt"
	"os"
	"sort"
	"time"
)

type Ctx struct {
	M      *Model
	R      *Report
	Rng    *Rng
	Tier   string
	Thor   bool
	Replay string
	Corpus string
}

// scale picks the case count for the tier.
func (c *Ctx) N(quick, thorough int) int {
	if c.Thor {
		return thorough
	}
	if len(changedFuncs) > 0 { // change-directed: the source differs from the tree the model was transcribed from
		return quick * 3
	}
	return quick
}

var runners = map[string]func(*Ctx) error{}

func main() {
	if cs := os.Getenv("VERIF_COLD"); cs != "" { // child of the C18 runner: see coldStart
		var seed uint64
		fmt.Sscan(cs, &seed)
		os.Unsetenv("VERIF_COLD")
		coldStart(seed)
		return
	}
	prop := flag.String("prop", "", "property id")
	tier := flag.String("tier", "quick", "quick|thorough")
	seed := flag.Uint64("seed", 1, "PRNG seed")
	model := flag.String("model", "", "path of the model driver")
	out := flag.String("out", "", "report file")
	replay := flag.String("replay", "", "replay file (re-run the recorded case only)")
	corpus := flag.String("corpus", "", "corpus directory")
	flag.Parse()
	loadDict()
	run, ok := runners[*prop]
	if !ok {
		ids := []string{}
		for k := range runners {
			ids = append(ids, k)
		}
		sort.Strings(ids)
		fmt.Fprintln(os.Stderr, "unknown property; have", ids)
		os.Exit(2)
	}
	m, err := StartModel(*model)
	if err != nil {
		fmt.Fprintln(os.Stderr, "cannot start model:", err)
		os.Exit(2)
	}
	ctx := &Ctx{M: m, R: NewReport(*prop, *tier, *seed), Rng: NewRng(*seed), Tier: *tier, Thor: *tier == "thorough", Replay: *replay, Corpus: *corpus}
	if len(changedFuncs) > 0 {
		cf := changedFuncs
		if len(cf) > 12 {
			cf = cf[:12]
		}
		ctx.R.Notes = append(ctx.R.Notes, fmt.Sprintf("change-directed search: %d function(s) differ from the tree the model was transcribed from %v; dictionary: %d strings %v, %d sizes %v",
			len(changedFuncs), cf, len(hotStrings), hotStrings, len(hotInts), hotInts))
	}
	limit := 60 * time.Second
	if *tier == "thorough" {
		limit = 180 * time.Second
	}
	startWatchdog(ctx, *out, limit)
	err = run(ctx)
	ctx.R.ModelReqs = m.Requests
	ctx.R.OracleCalls = m.OracleCalls
	m.Close()
	if err != nil {
		fmt.Fprintln(os.Stderr, "harness error:", err)
		ctx.R.Notes = append(ctx.R.Notes, "harness error: "+err.Error())
		_ = ctx.R.Write(*out)
		os.Exit(2)
	}
	if err := ctx.R.Write(*out); err != nil {
		fmt.Fprintln(os.Stderr, err)
		os.Exit(2)
	}
	fmt.Printf("harness %s: %d evaluations, %d distinct non-trivial, %d findings\n", *prop, ctx.R.Evaluations, ctx.R.Nontrivial, ctx.R.FindingCount)
}
