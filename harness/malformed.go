package main

import (
	"encoding/binary"
)

// The malformed stream: (a) mutations of valid encodings, (b) boundary sweeps that are exhaustive by
// construction over every 8-bit size field and the boundary values of every 16-bit length field,
// combined with every remaining-buffer length in a window around the boundary, (c) random octets.

type rawCase struct {
	Op   string // decode | parse_header | decode_payloads | unmarshal | eap_unmarshal | eapdata_unmarshal
	Arg  int    // next payload type / payload type / eap method type
	Data []byte
	Src  string // which generator produced it (for the distribution)
}

var u16Edges = []int{0, 1, 2, 3, 4, 5, 6, 7, 8, 9, 10, 11, 12, 13, 14, 15, 16, 17, 20, 24, 28, 40, 255, 256, 257,
	65520, 65521, 65522, 65523, 65524, 65525, 65526, 65527, 65528, 65529, 65530, 65531, 65532, 65533, 65534, 65535}

func put16(b []byte, off, v int) {
	if off+2 <= len(b) {
		binary.BigEndian.PutUint16(b[off:], uint16(v))
	}
}

func window(center, radius, max int) []int {
	var w []int
	for k := center - radius; k <= center+radius; k++ {
		if k >= 0 && k <= max {
			w = append(w, k)
		}
	}
	return w
}

func fill(r *Rng, n int) []byte {
	if r == nil {
		return make([]byte, n)
	}
	return r.Bytes(n)
}

// sweepNotify: every SPI size 0..255 x body lengths around 4+spi and the small lengths
func sweepNotify(r *Rng, emit func(rawCase)) {
	for spi := 0; spi < 256; spi++ {
		lens := append(window(4+spi, 9, 400), []int{0, 1, 2, 3, 4, 5}...)
		for _, l := range lens {
			b := fill(r, l)
			if l > 1 {
				b[1] = byte(spi)
			}
			emit(rawCase{"unmarshal", 41, b, "sweep-notify"})
		}
	}
}

// sweepProposal: every SPI size x proposal length field around 8+spi x body length around both
func sweepProposal(r *Rng, emit func(rawCase), thorough bool) {
	step := 1
	for spi := 0; spi < 256; spi += step {
		for _, pl := range append(window(8+spi, 5, 70000), 0, 7, 8, 9, 16, 65535) {
			for _, l := range append(window(pl, 2, 700), window(8+spi, 2, 700)...) {
				if !thorough && r.Intn(4) != 0 && l != pl {
					continue
				}
				b := fill(r, l)
				if l >= 8 {
					b[0] = 0
					put16(b, 2, pl)
					b[6] = byte(spi)
					b[7] = 1
				}
				// a plausible transform after the SPI when there is room
				if off := 8 + spi; off+8 <= l && pl >= off+8 {
					copy(b[off:], []byte{0, 0, 0, 8, 1, 0, 0, 12})
					put16(b, off+2, pl-off)
				}
				emit(rawCase{"unmarshal", 33, b, "sweep-proposal"})
			}
		}
	}
}

// sweepTransform: transform length field x attribute length field x remaining buffer
func sweepTransform(r *Rng, emit func(rawCase)) {
	for tl := 0; tl <= 30; tl++ {
		for _, al := range append([]int{}, u16Edges...) {
			for _, l := range window(tl, 3, 64) {
				for _, fmtbit := range []byte{0, 0x80} {
					n := 8 + l
					b := fill(r, n)
					b[0] = 0
					put16(b, 2, n)
					b[6] = 0
					b[7] = 1
					t := b[8:]
					if len(t) >= 8 {
						t[0] = 0
						put16(t, 2, tl)
						t[4] = 1
					}
					if len(t) >= 12 {
						t[8] = (t[8] & 0x7f) | fmtbit
						put16(t, 10, al)
					}
					emit(rawCase{"unmarshal", 33, b, "sweep-transform"})
				}
			}
		}
	}
}

func sweepDelete(r *Rng, emit func(rawCase)) {
	for spi := 0; spi < 256; spi++ {
		for _, num := range []int{0, 1, 2, 3, 4, 5, 63, 64, 255, 256, 257, 16383, 16384, 65535} {
			lens := append(window(4+spi*num, 5, 600), 0, 1, 2, 3, 4, 5, 6, 7, 8, 9, 10, 11, 12)
			for _, l := range lens {
				b := fill(r, l)
				if l >= 4 {
					b[1] = byte(spi)
					put16(b, 2, num)
				}
				emit(rawCase{"unmarshal", 42, b, "sweep-delete"})
			}
		}
	}
}

func sweepCP(r *Rng, emit func(rawCase)) {
	for _, al := range u16Edges {
		for _, l := range append(window(8+al, 5, 300), 0, 1, 2, 3, 4, 5, 6, 7, 8, 9, 10, 11, 12, 13) {
			b := fill(r, l)
			if l >= 8 {
				put16(b, 6, al)
			}
			emit(rawCase{"unmarshal", 47, b, "sweep-cp"})
		}
	}
}

func sweepTS(r *Rng, emit func(rawCase)) {
	for cnt := 0; cnt < 256; cnt++ {
		for _, ty := range []byte{7, 8, 0, 9} {
			for _, sl := range []int{0, 8, 15, 16, 17, 39, 40, 41, 65535} {
				for _, l := range []int{0, 3, 4, 7, 8, 19, 20, 21, 43, 44, 45, 60, 84} {
					if cnt > 3 && r.Intn(8) != 0 {
						continue
					}
					b := fill(r, l)
					if l >= 1 {
						b[0] = byte(cnt)
					}
					for off := 4; off+4 <= l; off += int(sl%64) + 1 {
						b[off] = ty
						put16(b, off+2, sl)
						if sl == 0 {
							break
						}
					}
					emit(rawCase{"unmarshal", 44 + cnt%2, b, "sweep-ts"})
				}
			}
		}
	}
}

// sweepChain: generic payload header length field x remaining length, supported and unsupported types
func sweepChain(r *Rng, emit func(rawCase)) {
	for _, pl := range u16Edges {
		for _, l := range append(window(pl, 3, 300), 0, 1, 2, 3, 4, 5) {
			for _, nx := range []int{40, 43, 33, 41, 1, 49, 255} {
				b := fill(r, l)
				if l >= 4 {
					b[0] = 0
					b[1] &= 0x80
					put16(b, 2, pl)
				}
				emit(rawCase{"decode_payloads", nx, b, "sweep-chain"})
			}
		}
	}
}

func sweepHeader(r *Rng, emit func(rawCase)) {
	for l := 0; l <= 40; l++ {
		for _, tot := range []uint32{0, 27, 28, 29, uint32(l), 0xffffffff} {
			b := fill(r, l)
			if l >= 28 {
				binary.BigEndian.PutUint32(b[24:], tot)
				b[16] = 40
			}
			emit(rawCase{"parse_header", 0, b, "sweep-header"})
			emit(rawCase{"decode", 0, b, "sweep-header"})
		}
	}
}

func sweepEap(r *Rng, emit func(rawCase)) {
	for l := 0; l <= 24; l++ {
		for _, fl := range []int{0, 3, 4, 5, l - 1, l, l + 1, 65535} {
			for _, ty := range []byte{1, 2, 3, 50, 254, 0, 4, 255} {
				if fl < 0 {
					continue
				}
				b := fill(r, l)
				put16(b, 2, fl)
				if l >= 5 {
					b[4] = ty
				}
				emit(rawCase{"eap_unmarshal", 0, b, "sweep-eap"})
				emit(rawCase{"unmarshal", 48, b, "sweep-eap"})
			}
		}
	}
	for _, ty := range []int{1, 2, 3, 50, 254} {
		for l := 0; l <= 20; l++ {
			b := fill(r, l)
			if l > 0 && r.Bool() {
				b[0] = byte(ty)
			}
			emit(rawCase{"eapdata_unmarshal", ty, b, "sweep-eapdata"})
		}
	}
}

// sweepAka: attribute type x every length octet x remaining window (and bit-length variety for RES/KDF_INPUT)
func sweepAka(r *Rng, emit func(rawCase), thorough bool) {
	types := []int{1, 2, 3, 11, 23, 24, 134, 0, 4, 12, 14, 22, 99, 255}
	if thorough {
		types = nil
		for t := 0; t < 256; t++ {
			types = append(types, t)
		}
	}
	for _, t := range types {
		for l := 0; l < 256; l++ {
			rem := append(window(4*l-2, 4, 1100), 0, 1, 2, 3)
			for _, k := range rem {
				if l > 8 && !thorough && r.Intn(3) != 0 {
					continue
				}
				b := make([]byte, 4+2+k)
				b[0], b[1] = 50, byte(r.Intn(16))
				b[4], b[5] = byte(t), byte(l)
				copy(b[6:], fill(r, k))
				if (t == 3 || t == 23) && k >= 2 {
					bits := r.Pick([]int{0, 8, 32, 33, 40, 128, 8 * (4*l - 4), 8*(4*l-4) + 8, 8*(4*l-4) - 8, 65535, r.Intn(65536)})
					if bits < 0 {
						bits = 0
					}
					put16(b, 6, bits)
				} else if k >= 2 && r.Intn(2) == 0 {
					// every other attribute type too: the first 16 bits of the value look like an actual length, in octets
					// or in bits, at and around what the window holds (a decoder that interprets them for a type that has
					// no such field must show)
					v := 4*l - 4
					n := r.Pick([]int{0, 1, 2, 3, 5, v, v - 1, v - 2, v - 3, v - 5, k - 2, k - 3, 8 * v, 8*v - 8, 8 * (k - 2), r.Intn(4*l + 8)})
					if n < 0 {
						n = 0
					}
					put16(b, 6, n)
				}
				emit(rawCase{"eapdata_unmarshal", 50, b, "sweep-aka"})
			}
		}
	}
}

// mutate: one mutation of a valid encoding
func mutate(r *Rng, w []byte) []byte {
	b := append([]byte(nil), w...)
	if len(b) == 0 {
		return r.Bytes(r.Intn(8))
	}
	switch r.Intn(8) {
	case 0: // bit flip
		i := r.Intn(len(b))
		b[i] ^= 1 << uint(r.Intn(8))
	case 1: // truncate
		b = b[:r.Intn(len(b))]
	case 2: // extend
		b = append(b, r.Bytes(r.Range(1, 12))...)
	case 3: // overwrite a 16-bit field with an edge value
		i := r.Intn(len(b))
		put16(b, i, r.Pick(u16Edges))
	case 4: // overwrite an octet with an edge value
		b[r.Intn(len(b))] = byte(r.Pick([]int{0, 1, 3, 4, 5, 7, 8, 127, 128, 247, 248, 251, 252, 254, 255}))
	case 5: // several random octets
		for k := r.Range(1, 4); k > 0; k-- {
			b[r.Intn(len(b))] = byte(r.Intn(256))
		}
	case 6: // drop an inner span
		i := r.Intn(len(b))
		j := i + r.Intn(len(b)-i+1)
		b = append(b[:i], b[j:]...)
	case 7: // duplicate an inner span
		i := r.Intn(len(b))
		j := i + r.Intn(len(b)-i+1)
		b = append(b[:j], append(append([]byte(nil), b[i:j]...), b[j:]...)...)
	}
	if len(b) > 65535 {
		b = b[:65535]
	}
	return b
}

func randomOctets(r *Rng) []byte {
	if r.Chance(9, 10) {
		return r.Bytes(r.Intn(97))
	}
	// log-uniform tail up to 65535
	n := 1 << uint(r.Range(6, 15))
	return r.Bytes(n + r.Intn(n))
}
