package main

import (
	"sync/atomic"
	"bufio"
	"crypto/aes"
	"crypto/md5"
	"crypto/sha1"
	"crypto/sha256"
	"encoding/hex"
	"fmt"
	"io"
	"os"
	"os/exec"
	"strings"
)

// Model is the extracted Coq model running as a child process (ocaml/modeldriver).
// Raw digests and the AES block function are answered here, by Go's standard library:
// they are the parameters of the theorems, everything built on them is Coq code.
type Model struct {
	cmd         *exec.Cmd
	in          io.WriteCloser
	out         *bufio.Reader
	OracleCalls int
	Requests    int
}

func StartModel(path string) (*Model, error) {
	cmd := exec.Command(path)
	in, err := cmd.StdinPipe()
	if err != nil {
		return nil, err
	}
	outp, err := cmd.StdoutPipe()
	if err != nil {
		return nil, err
	}
	cmd.Stderr = os.Stderr
	if err := cmd.Start(); err != nil {
		return nil, err
	}
	m := &Model{cmd: cmd, in: in, out: bufio.NewReaderSize(outp, 1<<20)}
	if r, err := m.Ask("(ping)"); err != nil || r != "pong" {
		return nil, fmt.Errorf("model driver does not answer: %q %v", r, err)
	}
	return m, nil
}

func (m *Model) Close() {
	m.in.Close()
	_ = m.cmd.Wait()
}

func (m *Model) answer(q string) (string, error) {
	f := strings.Fields(q)
	arg := func(i int) []byte {
		if i >= len(f) {
			return nil
		}
		b, _ := hex.DecodeString(f[i])
		return b
	}
	switch f[0] {
	case "?md5":
		s := md5.Sum(arg(1))
		return hex.EncodeToString(s[:]), nil
	case "?sha1":
		s := sha1.Sum(arg(1))
		return hex.EncodeToString(s[:]), nil
	case "?sha256":
		s := sha256.Sum256(arg(1))
		return hex.EncodeToString(s[:]), nil
	case "?aesenc", "?aesdec":
		key, blk := arg(1), arg(2)
		c, err := aes.NewCipher(key)
		if err != nil || len(blk) != 16 {
			return "", fmt.Errorf("oracle %s: bad key/block size %d/%d", f[0], len(key), len(blk))
		}
		o := make([]byte, 16)
		if f[0] == "?aesenc" {
			c.Encrypt(o, blk)
			// monitored hypothesis of the theorems: D k (E k b) = b
			back := make([]byte, 16)
			c.Decrypt(back, o)
			if string(back) != string(blk) {
				return "", fmt.Errorf("oracle: AES D(E(b)) != b")
			}
		} else {
			c.Decrypt(o, blk)
		}
		return hex.EncodeToString(o), nil
	}
	return "", fmt.Errorf("unknown oracle query %q", f[0])
}

// Ask sends one request line and returns the result line, answering oracle queries meanwhile.
func (m *Model) Ask(req string) (string, error) {
	m.Requests++
	atomic.StoreInt32(&wdModelWait, 1)
	defer func() { atomic.StoreInt32(&wdModelWait, 0); tick() }()
	if _, err := io.WriteString(m.in, req+"\n"); err != nil {
		return "", err
	}
	for {
		line, err := m.out.ReadString('\n')
		if err != nil {
			return "", fmt.Errorf("model driver died: %v", err)
		}
		line = strings.TrimRight(line, "\n")
		if strings.HasPrefix(line, "?") {
			m.OracleCalls++
			a, err := m.answer(line)
			if err != nil {
				return "", err
			}
			if _, err := io.WriteString(m.in, a+"\n"); err != nil {
				return "", err
			}
			continue
		}
		if strings.HasPrefix(line, "!") {
			return line, fmt.Errorf("model driver error: %s (request %.200s)", line, req)
		}
		return line, nil
	}
}

func hx(b []byte) string { return "x" + hex.EncodeToString(b) }
