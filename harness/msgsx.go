package main

import (
	"encoding/binary"
	"fmt"

	"github.com/free5gc/ike/eap"
	"github.com/free5gc/ike/message"
)

// ---------- Go values -> s-expressions (the observation) ----------

func be8(v uint64) []byte { b := make([]byte, 8); binary.BigEndian.PutUint64(b, v); return b }

func sxTransform(t *message.Transform) *SX {
	p := uint64(0)
	if t.AttributePresent {
		p = 1
	}
	return L(A("tr"), Nn(uint64(t.TransformType)), Nn(uint64(t.TransformID)), Nn(p), Nn(uint64(t.AttributeFormat)),
		Nn(uint64(t.AttributeType)), Nn(uint64(t.AttributeValue)), Hx(t.VariableLengthAttributeValue))
}
func sxTransforms(tag string, l message.TransformContainer) *SX {
	s := L(A(tag))
	for _, t := range l {
		s.Add(sxTransform(t))
	}
	return s
}
func sxProposal(p *message.Proposal) *SX {
	return L(A("prop"), Nn(uint64(p.ProposalNumber)), Nn(uint64(p.ProtocolID)), Hx(p.SPI),
		sxTransforms("encr", p.EncryptionAlgorithm), sxTransforms("prf", p.PseudorandomFunction),
		sxTransforms("integ", p.IntegrityAlgorithm), sxTransforms("dh", p.DiffieHellmanGroup),
		sxTransforms("esn", p.ExtendedSequenceNumbers))
}
func sxSelectors(tag string, l message.IndividualTrafficSelectorContainer) *SX {
	s := L(A(tag))
	for _, t := range l {
		s.Add(L(A("sel"), Nn(uint64(t.TSType)), Nn(uint64(t.IPProtocolID)), Nn(uint64(t.StartPort)), Nn(uint64(t.EndPort)),
			Hx(t.StartAddress), Hx(t.EndAddress)))
	}
	return s
}

func sxEapData(d eap.EapTypeData) *SX {
	switch v := d.(type) {
	case nil:
		return A("none")
	case *eap.EapIdentity:
		return L(A("identity"), Hx(v.IdentityData))
	case *eap.EapNotification:
		return L(A("notification"), Hx(v.NotificationData))
	case *eap.EapNak:
		return L(A("nak"), Hx(v.NakData))
	case *eap.EapExpanded:
		return L(A("expanded"), Nn(uint64(v.VendorID)), Nn(uint64(v.VendorType)), Hx(v.VendorData))
	case *eap.EapAkaPrime:
		return sxAka(v)
	}
	return A(fmt.Sprintf("unknown-eap-data-%T", d))
}
func sxEap(e *eap.EAP) *SX {
	if e == nil {
		return A("nil-eap")
	}
	return L(A("eap"), Nn(uint64(e.Code)), Nn(uint64(e.Identifier)), sxEapData(e.EapTypeData))
}

func sxPayload(p message.IKEPayload) *SX {
	switch v := p.(type) {
	case *message.SecurityAssociation:
		s := L(A("sa"))
		for _, pr := range v.Proposals {
			s.Add(sxProposal(pr))
		}
		return s
	case *message.KeyExchange:
		return L(A("ke"), Nn(uint64(v.DiffieHellmanGroup)), Hx(v.KeyExchangeData))
	case *message.IdentificationInitiator:
		return L(A("idi"), Nn(uint64(v.IDType)), Hx(v.IDData))
	case *message.IdentificationResponder:
		return L(A("idr"), Nn(uint64(v.IDType)), Hx(v.IDData))
	case *message.Certificate:
		return L(A("cert"), Nn(uint64(v.CertificateEncoding)), Hx(v.CertificateData))
	case *message.CertificateRequest:
		return L(A("certreq"), Nn(uint64(v.CertificateEncoding)), Hx(v.CertificationAuthority))
	case *message.Authentication:
		return L(A("auth"), Nn(uint64(v.AuthenticationMethod)), Hx(v.AuthenticationData))
	case *message.Nonce:
		return L(A("nonce"), Hx(v.NonceData))
	case *message.Notification:
		return L(A("n"), Nn(uint64(v.ProtocolID)), Nn(uint64(v.NotifyMessageType)), Hx(v.SPI), Hx(v.NotificationData))
	case *message.Delete:
		sp := L()
		for _, x := range v.SPIs {
			sp.Add(Nn(uint64(x)))
		}
		return L(A("d"), Nn(uint64(v.ProtocolID)), Nn(uint64(v.SPISize)), Nn(uint64(v.NumberOfSPI)), sp)
	case *message.VendorID:
		return L(A("v"), Hx(v.VendorIDData))
	case *message.TrafficSelectorInitiator:
		return sxSelectors("tsi", v.TrafficSelectors)
	case *message.TrafficSelectorResponder:
		return sxSelectors("tsr", v.TrafficSelectors)
	case *message.Encrypted:
		return L(A("sk"), Nn(uint64(v.NextPayload)), Hx(v.EncryptedData))
	case *message.Configuration:
		s := L(A("cp"), Nn(uint64(v.ConfigurationType)))
		for _, a := range v.ConfigurationAttribute {
			s.Add(L(A("a"), Nn(uint64(a.Type)), Hx(a.Value)))
		}
		return s
	case *message.PayloadEap:
		return sxEap(v.EAP)
	}
	return A(fmt.Sprintf("unknown-payload-%T", p))
}

func sxPayloads(c message.IKEPayloadContainer) *SX {
	s := L()
	for _, p := range c {
		s.Add(sxPayload(p))
	}
	return s
}

func sxHeader(h *message.IKEHeader) *SX {
	return L(Hx(be8(h.InitiatorSPI)), Hx(be8(h.ResponderSPI)), Nn(uint64(h.MajorVersion)), Nn(uint64(h.MinorVersion)),
		Nn(uint64(h.ExchangeType)), Nn(uint64(h.Flags)), Nn(uint64(h.MessageID)), Nn(uint64(h.NextPayload)))
}
func sxMsg(m *message.IKEMessage) *SX {
	return L(A("msg"), sxHeader(m.IKEHeader), sxPayloads(m.Payloads))
}

// ---------- s-expressions -> Go values (building the input) ----------

type setterRefused struct{ err error }

func goTransform(s *SX) *message.Transform {
	return &message.Transform{TransformType: uint8(s.U(1)), TransformID: uint16(s.U(2)), AttributePresent: s.U(3) != 0,
		AttributeFormat: uint8(s.U(4)), AttributeType: uint16(s.U(5)), AttributeValue: uint16(s.U(6)), VariableLengthAttributeValue: s.B(7)}
}
func goTransforms(s *SX) message.TransformContainer {
	var c message.TransformContainer
	for _, t := range s.Tail(1) {
		c = append(c, goTransform(t))
	}
	return c
}
func goProposal(s *SX) *message.Proposal {
	return &message.Proposal{ProposalNumber: uint8(s.U(1)), ProtocolID: uint8(s.U(2)), SPI: s.B(3),
		EncryptionAlgorithm: goTransforms(s.At(4)), PseudorandomFunction: goTransforms(s.At(5)), IntegrityAlgorithm: goTransforms(s.At(6)),
		DiffieHellmanGroup: goTransforms(s.At(7)), ExtendedSequenceNumbers: goTransforms(s.At(8))}
}
func goSelectors(s *SX) message.IndividualTrafficSelectorContainer {
	var c message.IndividualTrafficSelectorContainer
	for _, t := range s.Tail(1) {
		c = append(c, &message.IndividualTrafficSelector{TSType: uint8(t.U(1)), IPProtocolID: uint8(t.U(2)), StartPort: uint16(t.U(3)),
			EndPort: uint16(t.U(4)), StartAddress: t.B(5), EndAddress: t.B(6)})
	}
	return c
}
func goEapData(s *SX) eap.EapTypeData {
	if !s.IsL {
		if s.Atom == "none" {
			return nil
		}
		panic("bad eap data " + s.Atom)
	}
	switch s.Head() {
	case "identity":
		return &eap.EapIdentity{IdentityData: s.B(1)}
	case "notification":
		return &eap.EapNotification{NotificationData: s.B(1)}
	case "nak":
		return &eap.EapNak{NakData: s.B(1)}
	case "expanded":
		return &eap.EapExpanded{VendorID: uint32(s.U(1)), VendorType: uint32(s.U(2)), VendorData: s.B(3)}
	case "aka":
		a := eap.NewEapAkaPrime(eap.EapAkaSubtype(s.U(1)))
		// construction history: a third of the packets are serialised at some points WHILE they are being built (as a
		// caller that logs, or computes AT_MAC over, a half-built packet does); encoding is pure, so the finished value - and
		// everything done with it - must be the same
		h := valHash(s)
		for i, at := range s.Tail(2) {
			arg := at.B(2)
			if err := a.SetAttr(eap.EapAkaPrimeAttrType(at.U(1)), arg); err != nil {
				panic(setterRefused{err})
			}
			// the caller's buffer is transient: it is wiped / re-used once the setter has returned - at once, or (holdArgs)
			// when the runner says so, e.g. between computing AT_MAC and sending the packet
			if holdArgs {
				heldArgs = append(heldArgs, arg)
			} else {
				wipe(arg)
			}
			if h%3 == 0 && (h>>(8+uint(i%40)))&1 == 1 {
				quiet(func() { _, _ = a.Marshal() })
			}
		}
		return a
	case "akaraw":
		return goAkaRaw(s)
	}
	panic("bad eap data " + s.Head())
}
func goEap(s *SX) *eap.EAP {
	e := &eap.EAP{Code: eap.EapCode(s.U(1)), Identifier: uint8(s.U(2)), EapTypeData: goEapData(s.At(3))}
	layout(e, s)
	if valHash(s)%4 == 1 { // a value that has been encoded before (see goMsg)
		quiet(func() { _, _ = e.Marshal() })
	}
	return e
}
func goPayload(s *SX) message.IKEPayload {
	switch s.Head() {
	case "sa":
		sa := &message.SecurityAssociation{}
		for _, p := range s.Tail(1) {
			sa.Proposals = append(sa.Proposals, goProposal(p))
		}
		return sa
	case "ke":
		return &message.KeyExchange{DiffieHellmanGroup: uint16(s.U(1)), KeyExchangeData: s.B(2)}
	case "idi":
		return &message.IdentificationInitiator{IDType: uint8(s.U(1)), IDData: s.B(2)}
	case "idr":
		return &message.IdentificationResponder{IDType: uint8(s.U(1)), IDData: s.B(2)}
	case "cert":
		return &message.Certificate{CertificateEncoding: uint8(s.U(1)), CertificateData: s.B(2)}
	case "certreq":
		return &message.CertificateRequest{CertificateEncoding: uint8(s.U(1)), CertificationAuthority: s.B(2)}
	case "auth":
		return &message.Authentication{AuthenticationMethod: uint8(s.U(1)), AuthenticationData: s.B(2)}
	case "nonce":
		return &message.Nonce{NonceData: s.B(1)}
	case "n":
		return &message.Notification{ProtocolID: uint8(s.U(1)), NotifyMessageType: uint16(s.U(2)), SPI: s.B(3), NotificationData: s.B(4)}
	case "d":
		d := &message.Delete{ProtocolID: uint8(s.U(1)), SPISize: uint8(s.U(2)), NumberOfSPI: uint16(s.U(3))}
		for i := range s.At(4).List {
			d.SPIs = append(d.SPIs, uint32(s.At(4).U(i)))
		}
		return d
	case "v":
		return &message.VendorID{VendorIDData: s.B(1)}
	case "tsi":
		return &message.TrafficSelectorInitiator{TrafficSelectors: goSelectors(s)}
	case "tsr":
		return &message.TrafficSelectorResponder{TrafficSelectors: goSelectors(s)}
	case "sk":
		return &message.Encrypted{NextPayload: uint8(s.U(1)), EncryptedData: s.B(2)}
	case "cp":
		c := &message.Configuration{ConfigurationType: uint8(s.U(1))}
		for _, a := range s.Tail(2) {
			c.ConfigurationAttribute = append(c.ConfigurationAttribute, &message.IndividualConfigurationAttribute{Type: uint16(a.U(1)), Value: a.B(2)})
		}
		return c
	case "eap":
		return &message.PayloadEap{EAP: goEap(s)}
	}
	panic("bad payload " + s.String())
}
func goPayloadsRaw(s *SX) message.IKEPayloadContainer {
	var c message.IKEPayloadContainer
	for _, p := range s.List {
		c = append(c, goPayload(p))
	}
	return c
}
func goPayloads(s *SX) message.IKEPayloadContainer {
	c := goPayloadsRaw(s)
	layout(&c, s)
	return c
}
func goHeader(h *SX) *message.IKEHeader {
	return &message.IKEHeader{InitiatorSPI: binary.BigEndian.Uint64(h.B(0)), ResponderSPI: binary.BigEndian.Uint64(h.B(1)),
		MajorVersion: uint8(h.U(2)), MinorVersion: uint8(h.U(3)), ExchangeType: uint8(h.U(4)), Flags: uint8(h.U(5)),
		MessageID: uint32(h.U(6)), NextPayload: uint8(h.U(7))}
}
func goMsg(s *SX) *message.IKEMessage {
	m := &message.IKEMessage{IKEHeader: goHeader(s.At(1)), Payloads: goPayloadsRaw(s.At(2))}
	layout(m, s)
	switch valHash(s) % 8 {
	case 1, 5:
		// a quarter of the message values have been encoded once before they are used (a retransmission, a logged copy):
		// encoding alters nothing but header bookkeeping that the next encoding recomputes, so nothing may depend on it
		quiet(func() { _, _ = m.Encode() })
	case 3:
		// an eighth are message OBJECTS used before for another message (a reply built in the object of the decoded
		// request, a scratch message): encoded with other payloads, payload list reset, then given the payloads of s
		own := m.Payloads
		quiet(func() {
			m.Payloads = message.IKEPayloadContainer{&message.Nonce{NonceData: []byte("payload of the message this object held before")},
				&message.VendorID{VendorIDData: []byte{1, 2, 3, 4, 5, 6, 7}}}
			_, _ = m.Encode()
			m.Payloads.Reset()
		})
		m.Payloads = own
	}
	return m
}

// valHash: a hash of the value's own text (a case always gets the same layout and the same construction history)
func valHash(s *SX) uint64 {
	h := uint64(1469598103934665603)
	for _, ch := range []byte(s.String()) {
		h = (h ^ uint64(ch)) * 1099511628211
	}
	return h
}

// quiet runs f and swallows a panic (the caller evaluates the same operation again, observed)
func quiet(f func()) {
	defer func() { _ = recover() }()
	f()
}

// layout: two thirds of the values (chosen by a hash of the value itself, so that a case always gets the same layout) are
// re-laid out as sub-slices of shared arenas (see pack.go); one third keep every slice in its own exact-capacity array
func layout(x interface{}, s *SX) {
	if packSeed != 0 {
		packValue(x, packSeed)
		return
	}
	if h := valHash(s); h%3 != 0 {
		packValue(x, h|1)
	}
}

// outcome helpers ------------------------------------------------------------

// run evaluates f; a panic is the outcome "fault", a refused SetAttr while building the input "setter-refused"
func run(f func() string) (out string) {
	tick()
	defer func() {
		tick()
		if r := recover(); r != nil {
			if _, ok := r.(setterRefused); ok {
				out = "setter-refused"
				return
			}
			out = "fault"
		}
	}()
	return f()
}
func okS(items ...*SX) string {
	l := L(A("ok"))
	l.Add(items...)
	return l.String()
}

var (
	holdArgs bool
	heldArgs [][]byte
)

func wipe(b []byte) {
	for j := range b {
		b[j] ^= 0xee
	}
}

// releaseArgs wipes the buffers that were handed to setters since holdArgs was set, and ends the hold
func releaseArgs() {
	for _, b := range heldArgs {
		wipe(b)
	}
	heldArgs, holdArgs = nil, false
}
