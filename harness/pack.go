package main

import (
	"reflect"
)

// Caller memory layout.  A Go value with slice fields can be laid out in memory in many ways that are all the same
// VALUE: every slice in its own array with exact capacity (what generators and decoders produce), or - what real
// callers do - sub-slices of one table / one receive buffer, so that the spare capacity of one field IS another field.
// Library code that appends to, or re-slices, a caller's slice is invisible under the first layout and corrupts a
// neighbouring field under the second.  packValue rewrites a value in place into the second layout: every settable
// []byte field is carved out of ONE octet arena and every settable slice of the same element type out of ONE arena of
// that type, in an order shuffled by the given generator (so that the arena order differs from the order in which the
// library walks the fields), each slice keeping the whole rest of the arena as capacity, arenas ending in a sentinel.
// The value denoted is unchanged.  The returned function reports whether the sentinels are still intact.

var packSeed uint64 // 0 = off; runners set it per case; goMsg / goPayloads / goEap apply it

type packSite struct {
	v reflect.Value // settable slice
}

func collectSlices(v reflect.Value, out map[reflect.Type][]packSite, seen map[uintptr]bool) {
	switch v.Kind() {
	case reflect.Ptr:
		if v.IsNil() || seen[v.Pointer()] {
			return
		}
		seen[v.Pointer()] = true
		collectSlices(v.Elem(), out, seen)
	case reflect.Interface:
		if !v.IsNil() {
			collectSlices(v.Elem(), out, seen)
		}
	case reflect.Struct:
		for i := 0; i < v.NumField(); i++ {
			f := v.Field(i)
			if !f.CanSet() && f.Kind() != reflect.Ptr && f.Kind() != reflect.Interface {
				continue
			}
			collectSlices(f, out, seen)
		}
	case reflect.Slice:
		if v.IsNil() {
			return
		}
		if v.CanSet() && v.Len() > 0 {
			out[v.Type()] = append(out[v.Type()], packSite{v})
		}
		if k := v.Type().Elem().Kind(); k == reflect.Ptr || k == reflect.Interface || k == reflect.Struct || k == reflect.Slice {
			for i := 0; i < v.Len(); i++ {
				collectSlices(v.Index(i), out, seen)
			}
		}
	}
}

const packSentinel = 16

func packValue(x interface{}, seed uint64) (intact func() bool) {
	r := NewRng(seed)
	sites := map[reflect.Type][]packSite{}
	collectSlices(reflect.ValueOf(x), sites, map[uintptr]bool{})
	var checks []func() bool
	for ty, ss := range sites {
		total := 0
		for _, s := range ss {
			total += s.v.Len()
		}
		// shuffle (Fisher-Yates with the case's generator); the map iteration order does not matter for the result's value
		for i := len(ss) - 1; i > 0; i-- {
			j := r.Intn(i + 1)
			ss[i], ss[j] = ss[j], ss[i]
		}
		arena := reflect.MakeSlice(ty, 0, total+packSentinel)
		type placed struct{ start, end int }
		var pl []placed
		for _, s := range ss {
			start := arena.Len()
			arena = reflect.AppendSlice(arena, s.v)
			pl = append(pl, placed{start, arena.Len()})
		}
		// sentinel tail: copies of element 0 (pointer-like) or 0xA5 (octets)
		sentStart := arena.Len()
		full := arena.Slice3(0, arena.Len(), arena.Cap())
		full = full.Slice(0, arena.Cap())
		for i := sentStart; i < full.Len(); i++ {
			if ty.Elem().Kind() == reflect.Uint8 {
				full.Index(i).SetUint(0xA5)
			}
		}
		snap := reflect.MakeSlice(ty, full.Len()-sentStart, full.Len()-sentStart)
		reflect.Copy(snap, full.Slice(sentStart, full.Len()))
		for i, s := range ss {
			// len = the field's own length, cap = the rest of the arena
			s.v.Set(full.Slice3(pl[i].start, pl[i].end, full.Len()))
		}
		checks = append(checks, func() bool {
			return reflect.DeepEqual(full.Slice(sentStart, full.Len()).Interface(), snap.Interface())
		})
	}
	return func() bool {
		for _, c := range checks {
			if !c() {
				return false
			}
		}
		return true
	}
}

// packed applies the current case's layout (if any) to a freshly built value
func packed(x interface{}) {
	if packSeed != 0 {
		packValue(x, packSeed)
	}
}
