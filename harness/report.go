package main

import (
	"crypto/sha256"
	"encoding/json"
	"os"
	"sort"
	"strings"
)

// Finding is one disagreement: kind "instance" = the property itself fails on the
// implementation for this input (a failing input); kind "correspondence" = model and
// implementation differ on an observable the theorem is about (the tie is broken).
type Finding struct {
	Kind     string `json:"kind"`
	What     string `json:"what"`
	Case     string `json:"case"`
	Expected string `json:"expected"`
	Observed string `json:"observed"`
	Known    string `json:"known,omitempty"`
}

type Report struct {
	Property     string         `json:"property"`
	Tier         string         `json:"tier"`
	Seed         uint64         `json:"seed"`
	Evaluations  int            `json:"evaluations"`
	Nontrivial   int            `json:"distinct_nontrivial"`
	Rule         string         `json:"rule"`
	ImplRuns     int            `json:"traces_validated_against_impl"`
	ModelReqs    int            `json:"model_requests"`
	OracleCalls  int            `json:"oracle_calls"`
	Hist         map[string]int `json:"histogram"`
	Samples      []string       `json:"samples"`
	Findings     []Finding      `json:"findings"`
	Exhaustive   bool           `json:"exhaustive,omitempty"`
	Notes        []string       `json:"notes,omitempty"`
	seen         map[[32]byte]bool
	maxFindings  int
	best         map[string]int
	FindingCount int `json:"finding_count"`
}

func NewReport(prop, tier string, seed uint64) *Report {
	return &Report{Property: prop, Tier: tier, Seed: seed, Hist: map[string]int{}, Findings: []Finding{}, Samples: []string{}, seen: map[[32]byte]bool{}, maxFindings: 20}
}

// Count registers one evaluated case; nontrivial cases are counted once per distinct key.
func (r *Report) Count(key string, nontrivial bool, bucket string) {
	tick()
	r.Evaluations++
	if bucket != "" {
		r.Hist[bucket]++
	}
	if nontrivial {
		h := sha256.Sum256([]byte(key))
		if !r.seen[h] {
			r.seen[h] = true
			r.Nontrivial++
		}
	}
}

func (r *Report) Sample(s string) {
	if len(r.Samples) < 6 {
		if len(s) > 600 {
			s = s[:600] + "..."
		}
		r.Samples = append(r.Samples, s)
	}
}

// Add keeps, per (kind, what, entry point), the shortest case seen: the replay is a minimal one.
func (r *Report) Add(f Finding) {
	r.FindingCount++
	op := f.Case
	if i := strings.IndexByte(op, ' '); i > 0 {
		op = op[:i]
	}
	key := f.Kind + "|" + f.What + "|" + op + "|" + f.Known
	if r.best == nil {
		r.best = map[string]int{}
	}
	if i, ok := r.best[key]; ok {
		if len(f.Case) < len(r.Findings[i].Case) {
			r.Findings[i] = f
		}
		return
	}
	if len(r.Findings) < 60 {
		r.best[key] = len(r.Findings)
		r.Findings = append(r.Findings, f)
	}
}

func (r *Report) Write(path string) error {
	sort.SliceStable(r.Findings, func(i, j int) bool { // failing inputs first, shortest first
		if r.Findings[i].Kind != r.Findings[j].Kind {
			return r.Findings[i].Kind == "instance"
		}
		return len(r.Findings[i].Case) < len(r.Findings[j].Case)
	})
	b, err := json.MarshalIndent(r, "", " ")
	if err != nil {
		return err
	}
	return os.WriteFile(path, b, 0o644)
}
