package main

// SplitMix64: every random choice of a run derives from one state seeded by VERIF_SEED.
type Rng struct{ s uint64 }

func NewRng(seed uint64) *Rng { return &Rng{s: seed*0x9E3779B97F4A7C15 + 0x1234567} }
func (r *Rng) U64() uint64 {
	r.s += 0x9E3779B97F4A7C15
	z := r.s
	z = (z ^ (z >> 30)) * 0xBF58476D1CE4E5B9
	z = (z ^ (z >> 27)) * 0x94D049BB133111EB
	return z ^ (z >> 31)
}
func (r *Rng) Intn(n int) int {
	if n <= 0 {
		return 0
	}
	return int(r.U64() % uint64(n))
}
func (r *Rng) Range(lo, hi int) int { // inclusive; biased towards the literals of changed functions (dict.go)
	if v, ok := r.hotSize(lo, hi); ok {
		return v
	}
	return lo + r.Intn(hi-lo+1)
}
func (r *Rng) Bool() bool               { return r.U64()&1 == 1 }
func (r *Rng) Chance(num, den int) bool { return r.Intn(den) < num }
func (r *Rng) Bytes(n int) []byte {
	b := make([]byte, n)
	for i := range b {
		if i%8 == 0 {
			v := r.U64()
			for j := 0; j < 8 && i+j < n; j++ {
				b[i+j] = byte(v >> (8 * j))
			}
		}
	}
	return b
}

// BytesE: an octet string of the given size that is, one time in five, of a special shape: all zeros, all ones, zero
// octets at the end or at the start (NUL-terminated strings, leading-zero integers), or a well-known structured value of
// that size (IPv4-mapped / loopback / multicast addresses for 16 octets, any / broadcast / loopback for 4)
func (r *Rng) BytesE(n int) []byte {
	b := r.Bytes(n)
	if n == 0 || !r.Chance(1, 5) {
		return b
	}
	switch r.Intn(7) {
	case 0:
		for i := range b {
			b[i] = 0
		}
	case 1:
		for i := range b {
			b[i] = 0xff
		}
	case 2:
		for i, k := n-1, r.Range(1, 3); i >= 0 && k > 0; i, k = i-1, k-1 {
			b[i] = 0
		}
	case 3:
		for i, k := 0, r.Range(1, 3); i < n && k > 0; i, k = i+1, k-1 {
			b[i] = 0
		}
	case 4, 6:
		switch n {
		case 16:
			copy(b, [][]byte{
				{0, 0, 0, 0, 0, 0, 0, 0, 0, 0, 0xff, 0xff, b[12], b[13], b[14], b[15]}, // ::ffff:a.b.c.d
				{0, 0, 0, 0, 0, 0, 0, 0, 0, 0, 0, 0, 0, 0, 0, 1},                       // ::1
				{0xff, 2, 0, 0, 0, 0, 0, 0, 0, 0, 0, 0, 0, 0, 0, 1},                    // ff02::1
				{0xfe, 0x80, 0, 0, 0, 0, 0, 0, b[8], b[9], b[10], b[11], b[12], b[13], b[14], b[15]},
				{0, 0, 0, 0, 0, 0, 0, 0, 0, 0, 0xff, 0xff, 10, 0, 0, b[15]},
			}[r.Intn(5)])
		case 4:
			copy(b, [][]byte{{127, 0, 0, 1}, {255, 255, 255, 255}, {0, 0, 0, 0}, {10, 0, 0, 1}, {224, 0, 0, 1}}[r.Intn(5)])
		default:
			b[n-1] = 0
		}
	default:
		b[r.Intn(n)] = byte(r.Pick([]int{0, 0x25, 0x2f, 0x40, 0x7f, 0x80, 0xff})) // one special octet somewhere
	}
	return b
}
func (r *Rng) Pick(xs []int) int { return xs[r.Intn(len(xs))] }
func (r *Rng) Fork() *Rng        { return NewRng(r.U64()) }

// numeric fields: a quarter of the draws are boundary values of the width (0, 1, the sign bit, all ones, ...)
func (r *Rng) U16e() uint16 {
	if r.Chance(1, 4) {
		return uint16(r.Pick([]int{0, 0, 1, 2, 0x7f, 0x80, 0xff, 0x100, 0x3fff, 0x4000, 0x7fff, 0x8000, 0x8001, 0xfffe, 0xffff}))
	}
	return uint16(r.Intn(65536))
}
func (r *Rng) U8e() uint8 {
	if r.Chance(1, 4) {
		return uint8(r.Pick([]int{0, 0, 1, 2, 3, 4, 5, 0x0f, 0x10, 0x7f, 0x80, 0xfe, 0xff})) // (small codes: enumerated types)
	}
	return uint8(r.Intn(256))
}
