package main

// SplitMix64: every random choice of a run derives from one state seeded by VERIF_SEED.
type Rng struct{ s uint64 }

func NewRng(seed uint64) *Rng { return &Rng{s: seed*0x9E3779B97F4A7C15 + 0x1234567} }
func (r *Rng) U64() uint64 {
	r.s += 0x9E3779B97F4A7C15
	z := r.s
	z = (z ^ (z >> 30)) * 0xBF58476D1CE4E5B9
	z = (z ^ (z >> 27)) * 0x94D049BB133111EB
	return z ^ (z >> 31)
}
func (r *Rng) Intn(n int) int {
	if n <= 0 {
		return 0
	}
	return int(r.U64() % uint64(n))
}
func (r *Rng) Range(lo, hi int) int { // inclusive; biased towards the literals of changed functions (dict.go)
	if v, ok := r.hotSize(lo, hi); ok {
		return v
	}
	return lo + r.Intn(hi-lo+1)
}
func (r *Rng) Bool() bool         { return r.U64()&1 == 1 }
func (r *Rng) Chance(num, den int) bool { return r.Intn(den) < num }
func (r *Rng) Bytes(n int) []byte {
	b := make([]byte, n)
	for i := range b {
		if i%8 == 0 {
			v := r.U64()
			for j := 0; j < 8 && i+j < n; j++ {
				b[i+j] = byte(v >> (8 * j))
			}
		}
	}
	return b
}
func (r *Rng) Pick(xs []int) int { return xs[r.Intn(len(xs))] }
func (r *Rng) Fork() *Rng        { return NewRng(r.U64()) }

// numeric fields: a quarter of the draws are boundary values of the width (0, 1, the sign bit, all ones, ...)
func (r *Rng) U16e() uint16 {
	if r.Chance(1, 4) {
		return uint16(r.Pick([]int{0, 0, 1, 2, 0x7f, 0x80, 0xff, 0x100, 0x3fff, 0x4000, 0x7fff, 0x8000, 0x8001, 0xfffe, 0xffff}))
	}
	return uint16(r.Intn(65536))
}
func (r *Rng) U8e() uint8 {
	if r.Chance(1, 4) {
		return uint8(r.Pick([]int{0, 0, 1, 2, 0x0f, 0x10, 0x7f, 0x80, 0xfe, 0xff}))
	}
	return uint8(r.Intn(256))
}
