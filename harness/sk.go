package main

import (
	"bytes"
	"encoding/binary"
	"fmt"
	"strconv"
	"strings"

	ike "github.com/free5gc/ike"
	"github.com/free5gc/ike/message"
	"github.com/free5gc/ike/security"
	ikeCrypto "github.com/free5gc/ike/security/IKECrypto"
)

func init() {
	runners["C01"] = runC01
	runners["C06"] = runC06
	runners["C02"] = runC02
	runners["C17"] = runC17
}

// spy cipher installed in the public interface-typed fields Encr_i / Encr_r
type spyCipher struct {
	inner ikeCrypto.IKECrypto
	name  string
	log   *[]string
}

func (s *spyCipher) Encrypt(p []byte) ([]byte, error) {
	*s.log = append(*s.log, "enc-"+s.name)
	return s.inner.Encrypt(p)
}
func (s *spyCipher) Decrypt(c []byte) ([]byte, error) {
	*s.log = append(*s.log, "dec-"+s.name)
	return s.inner.Decrypt(c)
}
func installSpy(k *security.IKESAKey) *[]string {
	log := &[]string{}
	k.Encr_i = &spyCipher{k.Encr_i, "i", log}
	k.Encr_r = &spyCipher{k.Encr_r, "r", log}
	return log
}

func roleOf(s string) message.Role { return message.Role(s == "i") }
func other(role string) string {
	if role == "i" {
		return "r"
	}
	return "i"
}

// implProtect: EncodeEncrypt with a scripted random source -> "((ok xoctets) left)" | "(err left)" | "fault"
func implProtect(k *security.IKESAKey, role string, m *SX, script []byte, fails []int) (out string, wire []byte) {
	wdNote("protect-"+role, 0, script, m)
	out = run(func() string {
		gm := goMsg(m)
		var res string
		withScript(script, fails, func(sr *scriptReader) {
			b, err := ike.EncodeEncrypt(gm, k, roleOf(role))
			if err != nil {
				res = fmt.Sprintf("(err %d)", sr.left())
				return
			}
			wire = b
			res = fmt.Sprintf("((ok %s) %d)", hx(b), sr.left())
		})
		return res
	})
	return
}

// implUnprotect: DecodeDecrypt -> "((ok <msg>) (calls ...))" | "(err (calls ...))" | "(fault (calls ...))"
// hdr: "nohdr" | "parsed" (ParseHeader of the same octets)
func implUnprotect(k *security.IKESAKey, role string, raw []byte, hdr string) string {
	wdNote("unprotect-"+role+"-"+hdr, 0, raw, nil)
	var log *[]string
	if k != nil {
		log = installSpy(k)
		defer func() {
			k.Encr_i = k.Encr_i.(*spyCipher).inner
			k.Encr_r = k.Encr_r.(*spyCipher).inner
		}()
	} else {
		log = &[]string{}
	}
	calls := func() string {
		if len(*log) == 0 {
			return "(calls)"
		}
		return "(calls " + strings.Join(*log, " ") + ")"
	}
	res := run(func() string {
		var h *message.IKEHeader
		if hdr == "parsed" {
			var err error
			h, err = message.ParseHeader(raw)
			if err != nil {
				return "hdr-err"
			}
		}
		if hdr == "parsed-elsewhere" {
			// the receiver parsed the header in place in its receive buffer (the datagram followed by whatever the buffer
			// held before), copied the datagram out, and has reused the buffer since: IKEHeader.PayloadBytes - documented to
			// alias the parsed buffer - now shows other octets.  The header FIELDS are those of the datagram.
			rb := make([]byte, len(raw)+37)
			copy(rb, raw)
			for i := len(raw); i < len(rb); i++ {
				rb[i] = 0x5a
			}
			var err error
			h, err = message.ParseHeader(rb)
			if err != nil {
				return "hdr-err"
			}
			for i := range rb {
				rb[i] ^= 0xc3
			}
		}
		var kk *security.IKESAKey
		if k != nil {
			kk = k
		}
		m, err := ike.DecodeDecrypt(raw, h, kk, roleOf(role))
		if err != nil {
			return "err"
		}
		if m == nil {
			return "no-value-no-error"
		}
		return okS(sxMsg(m))
	})
	return "(" + res + " " + calls() + ")"
}

// ignoreNext: header field NextPayload is bookkeeping (46 after unprotection)
func normMsgNoNext(m *SX) string {
	n := normMsg(m)
	h := n.At(1)
	h.List[7] = A("0")
	return n.String()
}

// scriptFor: what the random source will deliver (padding, IV): mostly random octets, sometimes all zeros / all ones
// (an IV or padding of a special shape must change nothing)
func scriptFor(r *Rng, n int) []byte {
	b := r.Bytes(n)
	switch r.Intn(12) {
	case 0:
		for i := range b {
			b[i] = 0xff
		}
	case 1:
		for i := range b {
			b[i] = 0
		}
	}
	return b
}

type skCase struct {
	s      suite
	ks     keyset
	role   string
	m      *SX
	script []byte
}

func (k skCase) String() string {
	return fmt.Sprintf("(sk %s (%s) %s %s %s)", k.s, k.ks.sx(), k.role, k.m, rndSX(k.script, nil))
}
func parseSkCase(s *SX) skCase {
	ksx := s.At(4)
	sc, _ := parseRnd(s.At(7))
	return skCase{suite{s.At(1).Atom, s.At(2).Atom, s.At(3).Atom}, keyset{ksx.B(0), ksx.B(1), ksx.B(2), ksx.B(3), ksx.B(4), ksx.B(5), ksx.B(6)},
		s.At(5).Atom, s.At(6), sc}
}

func genSkCase(r *Rng, si int) skCase {
	s := suite{encrIDs[si%3], hashIDs[(si/3)%3], hashIDs[r.Intn(3)]}
	m := genMessage(r)
	if r.Chance(1, 8) {
		m = L(A("msg"), genHeader(r), L()) // empty payload list
	}
	if r.Chance(1, 70) {
		// the largest protected messages: inner payloads of 65471 .. 65500 octets (the SK payload fits the 16-bit payload
		// length up to 65487 inner octets for every suite; one octet more must be refused by both sides)
		inner := r.Pick([]int{65471, 65472, 65480, 65487, 65487, 65488, 65500})
		m = L(A("msg"), genHeader(r), L(L(A("v"), Hx(r.Bytes(inner-4)))))
	}
	return skCase{s, pooledKeys(r, s), []string{"i", "r"}[r.Intn(2)], m, scriptFor(r, 32)}
}

// pooledKeys: half of the cases re-use one of a few earlier key sets of the same suite, so that a long-lived SA object
// (caseSA) sees a HISTORY of unrelated messages - longer ones before shorter ones, both directions, forged ones in
// between - and not only the few operations of one case
var skKeyPool = map[string][]keyset{}

func pooledKeys(r *Rng, s suite) keyset {
	if !solo() {
		return genKeys(r, s)
	}
	p := skKeyPool[s.String()]
	if len(p) > 0 && r.Chance(1, 2) {
		return p[r.Intn(len(p))]
	}
	k := genKeys(r, s)
	if len(p) < 3 {
		skKeyPool[s.String()] = append(p, k)
	} else {
		p[r.Intn(len(p))] = k
	}
	return k
}

func modelSA(c *Ctx, id string, k skCase) error {
	_, err := c.M.Ask(fmt.Sprintf("(sa_keys %s %s %s)", id, k.s, k.ks.sx()))
	return err
}

// caseSA: the implementation's SA object for a case.  Half of the key sets get ONE long-lived object for all operations
// of the run that use these keys (either role, genuine and forged input), the other half a fresh object per operation:
// the properties must hold either way (state left behind by an earlier operation must not matter).
var saCache = map[string]*security.IKESAKey{}

func caseSA(k skCase) (*security.IKESAKey, error) {
	key := k.s.String() + k.ks.sx()
	long := len(k.ks.ai) > 0 && k.ks.ai[0]&1 == 0
	if long {
		if sa, ok := saCache[key]; ok {
			return sa, nil
		}
	}
	sa, err := saFromKeys(k.s, k.ks.d, k.ks.ai, k.ks.ar, k.ks.ei, k.ks.er, k.ks.pi, k.ks.pr)
	if err == nil && long {
		if len(saCache) > 256 {
			saCache = map[string]*security.IKESAKey{}
		}
		saCache[key] = sa
	}
	return sa, err
}

// protectBoth: protect with implementation and model; reports correspondence; returns the wire (nil if not protected)
func protectBoth(c *Ctx, k skCase, what string) ([]byte, string, error) {
	sa, err := caseSA(k)
	if err != nil {
		return nil, "", err
	}
	impl, wire := implProtect(sa, k.role, k.m, k.script, nil)
	c.R.ImplRuns++
	if err := modelSA(c, "p", k); err != nil {
		return nil, "", err
	}
	model, err := c.M.Ask(fmt.Sprintf("(protect p %s %s %s)", k.role, k.m, rndSX(k.script, nil)))
	if err != nil {
		return nil, "", err
	}
	if impl != model {
		c.R.Add(Finding{Kind: "correspondence", What: "EncodeEncrypt differs from Impl.encode_encrypt" + what, Case: k.String(), Expected: model, Observed: impl})
	}
	return wire, impl, nil
}

func unprotectBoth(c *Ctx, k skCase, role string, raw []byte, hdr string, what string) (string, error) {
	sa, err := caseSA(k)
	if err != nil {
		return "", err
	}
	impl := implUnprotect(sa, role, rx(raw), hdr)
	c.R.ImplRuns++
	if err := modelSA(c, "u", k); err != nil {
		return "", err
	}
	mh := hdr
	if mh == "parsed-elsewhere" {
		mh = "parsed" // same header fields; the model has no aliasing
	}
	model, err := c.M.Ask(fmt.Sprintf("(unprotect u %s %s %s)", role, hx(raw), mh))
	if err != nil {
		return "", err
	}
	if impl != model {
		c.R.Add(Finding{Kind: "correspondence", What: "DecodeDecrypt differs from Impl.decode_decrypt" + what,
			Case: fmt.Sprintf("(unsk %s (%s) %s %s %s)", k.s, k.ks.sx(), role, hx(raw), hdr), Expected: model, Observed: impl})
	}
	return impl, nil
}

// fits16: the protected form still fits the 16-bit payload length
func protectedFits(inner int, icv int) bool {
	pad := 16 - inner%16
	return 4+16+inner+pad+icv <= 65535
}

// ---------- C01 ----------
func evalC01(c *Ctx, k skCase) error {
	r := c.R
	cs := k.String()
	wire, impl, err := protectBoth(c, k, "")
	if err != nil {
		return err
	}
	kinds := kindsOf(k.m.At(2))
	r.Count(cs, true, fmt.Sprintf("suite:%s/%s role:%s", k.s.e, k.s.i, k.role))
	r.Hist[fmt.Sprintf("payloads=%d", len(kinds))]++
	r.Sample(cs)
	inner := okBody(implContainerEncode(k.m.At(2)))
	if inner == nil {
		r.Add(Finding{Kind: "instance", What: "payloads of the encodable domain do not encode", Case: cs, Expected: "ok", Observed: "err"})
		return nil
	}
	if !protectedFits(len(inner[0].B0()), integOutLen[k.s.i]) {
		r.Hist["too-large-for-sk"]++
		return nil
	}
	if wire == nil {
		r.Add(Finding{Kind: "instance", What: "a message of the encodable domain is not protected", Case: cs, Expected: "(ok ...)", Observed: impl})
		return nil
	}
	want := "((ok " + normMsgNoNextFromOriginal(k.m) + ") (calls dec-" + k.role + "))"
	for _, hdr := range []string{"nohdr", "parsed", "parsed-elsewhere"} {
		got, err := unprotectBoth(c, k, other(k.role), wire, hdr, "")
		if err != nil {
			return err
		}
		gn := got
		if b := okBody(strings.TrimSuffix(strings.TrimPrefix(got, "("), " (calls dec-"+k.role+"))")); b != nil {
			gn = "((ok " + normMsgNoNext(b[0]) + ") (calls dec-" + k.role + "))"
		}
		if gn != want {
			r.Add(Finding{Kind: "instance", What: "unprotecting (" + hdr + ") a protected message in the opposite role does not return the original", Case: cs, Expected: want, Observed: gn})
		}
	}
	// with no SA keys the entry points are the plain codec
	plainI := run(func() string {
		b, err := ike.EncodeEncrypt(goMsg(k.m), nil, roleOf(k.role))
		if err != nil {
			return "err"
		}
		return okS(Hx(b))
	})
	if e := implEncode(k.m); plainI != e {
		r.Add(Finding{Kind: "instance", What: "EncodeEncrypt without keys differs from Encode", Case: cs, Expected: e, Observed: plainI})
	}
	if b := okBody(plainI); b != nil {
		w := b[0].B0()
		// whether or not the receiver pre-parsed the header (in the same buffer or in another one)
		for _, hdr := range []string{"nohdr", "parsed", "parsed-elsewhere"} {
			d := implUnprotect(nil, k.role, rx(w), hdr)
			if e := "(" + implDecode(w) + " (calls))"; d != e {
				r.Add(Finding{Kind: "instance", What: "DecodeDecrypt without keys (" + hdr + ") differs from Decode", Case: cs, Expected: e, Observed: d})
			}
			mh := hdr
			if mh == "parsed-elsewhere" {
				mh = "parsed"
			}
			dm, err := c.M.Ask(fmt.Sprintf("(unprotect nil %s %s %s)", k.role, hx(w), mh))
			if err != nil {
				return err
			}
			if d != dm {
				r.Add(Finding{Kind: "correspondence", What: "DecodeDecrypt without keys (" + hdr + ") differs from Impl.decode_decrypt", Case: cs, Expected: dm, Observed: d})
			}
		}
	}
	return nil
}

func normMsgNoNextFromOriginal(m *SX) string { return normMsgNoNext(m) }

func runC01(c *Ctx) error {
	c.R.Rule = "messages of the encodable domain (incl. empty payload lists) x 9 suites x both sender roles x random keys x scripted IV/padding; " +
		"unprotected in the opposite role by a fresh key object, with and without a pre-parsed header; no-key path compared with the plain codec; distinct by the case"
	if err := replayOrCorpus(c, "C01", func(s *SX) error {
		if s.Head() == "sk" {
			return evalC01(c, parseSkCase(s))
		}
		return nil
	}); err != nil || c.Replay != "" {
		return err
	}
	for i, n := 0, c.N(450, 20000); i < n; i++ {
		if err := evalC01(c, genSkCase(c.Rng, i)); err != nil {
			return err
		}
	}
	return nil
}

// ---------- C06: RFC 7296 3.14 layout, independent verification, reference-built messages ----------

// refProtect builds a protected datagram from the RFC text with an arbitrary legal padding:
// header | SK generic header | IV | CBC(inner | pad | padlen) | trunc HMAC over everything before
type prePayload struct {
	ty, flags byte
	body      []byte
}

func refProtect(c *Ctx, k skCase, hdrSX *SX, inner []byte, firstType byte, iv, pad []byte, pre ...prePayload) ([]byte, error) {
	ek, ak := k.ks.ei, k.ks.ai
	if k.role == "r" {
		ek, ak = k.ks.er, k.ks.ar
	}
	pt := append(append(append([]byte(nil), inner...), pad...), byte(len(pad)))
	body, err := c.M.Ask(fmt.Sprintf("(cbc_enc %s %s %s)", hx(ek), hx(iv), hx(pt)))
	if err != nil {
		return nil, err
	}
	ct := L(A(body)).B(0)
	icv := integOutLen[k.s.i]
	skLen := 4 + 16 + len(ct) + icv
	total := 28 + skLen
	for _, p := range pre {
		total += 4 + len(p.body)
	}
	h := goHeader(hdrSX)
	b := make([]byte, 28, total)
	binary.BigEndian.PutUint64(b[0:], h.InitiatorSPI)
	binary.BigEndian.PutUint64(b[8:], h.ResponderSPI)
	b[16] = 46
	if len(pre) > 0 {
		b[16] = pre[0].ty
	}
	b[17] = h.MajorVersion<<4 | h.MinorVersion
	b[18] = h.ExchangeType
	b[19] = h.Flags
	binary.BigEndian.PutUint32(b[20:], h.MessageID)
	binary.BigEndian.PutUint32(b[24:], uint32(total))
	// payloads in front of the Encrypted payload (RFC 7296 allows unprotected payloads before SK; unsupported
	// non-critical ones are skipped by a receiver, and everything up to the checksum is covered by it)
	for i, p := range pre {
		next := byte(46)
		if i+1 < len(pre) {
			next = pre[i+1].ty
		}
		n := 4 + len(p.body)
		b = append(b, next, p.flags, byte(n>>8), byte(n))
		b = append(b, p.body...)
	}
	b = append(b, firstType, 0, byte(skLen>>8), byte(skLen))
	b = append(b, iv...)
	b = append(b, ct...)
	mac := stdHmac(k.s.i, ak, b)
	b = append(b, mac[:icv]...)
	return b, nil
}

func evalC06(c *Ctx, k skCase) error {
	r := c.R
	cs := k.String()
	innerB := okBody(implContainerEncode(k.m.At(2)))
	if innerB == nil || !protectedFits(len(innerB[0].B0()), integOutLen[k.s.i]) {
		return nil
	}
	inner := innerB[0].B0()
	wire, impl, err := protectBoth(c, k, "")
	if err != nil {
		return err
	}
	r.Count(cs, true, fmt.Sprintf("suite:%s/%s role:%s", k.s.e, k.s.i, k.role))
	r.Sample(cs)
	fail := func(what, exp, obs string) {
		r.Add(Finding{Kind: "instance", What: what, Case: cs, Expected: exp, Observed: obs})
	}
	if wire == nil {
		fail("message not protected", "(ok ...)", impl)
		return nil
	}
	// (a) the implementation's output equals the RFC construction with the IV / padding it drew
	padLen := 16 - len(inner)%16 - 1
	first := byte(0)
	if len(k.m.At(2).List) > 0 {
		first = byte(kindCode[k.m.At(2).At(0).Head()])
	}
	ref, err := refProtect(c, k, k.m.At(1), inner, first, k.script[padLen+1:padLen+17], k.script[:padLen])
	if err != nil {
		return err
	}
	if !bytes.Equal(ref, wire) {
		fail("protected octets differ from header | SK(next = first inner type) | IV | CBC(inner | pad | pad length) | trunc HMAC(sender's key, everything before), lengths final",
			hx(ref), hx(wire))
	}
	// (b) reference-built messages with any legal padding are accepted and decoded correctly
	rng := c.Rng
	if err := evalPrefixedSK(c, k, inner, first, padLen); err != nil {
		return err
	}
	for t := 0; t < 2; t++ {
		pl := padLen + 16*rng.Intn((255-padLen)/16+1)
		if 4+16+len(inner)+pl+1+integOutLen[k.s.i] > 65535 {
			pl = padLen
		}
		rb, err := refProtect(c, k, k.m.At(1), inner, first, rng.Bytes(16), rng.Bytes(pl))
		if err != nil {
			return err
		}
		r.Hist["ref-pad:"+strconv.Itoa(pl/64*64)+"+"]++
		got, err := unprotectBoth(c, k, other(k.role), rb, []string{"nohdr", "parsed", "parsed-elsewhere"}[(t+rng.Intn(2)*2)%3], " (reference-built message)")
		if err != nil {
			return err
		}
		want := "((ok " + normMsgNoNext(k.m) + ") (calls dec-" + k.role + "))"
		gn := got
		if b := okBody(strings.TrimSuffix(strings.TrimPrefix(got, "("), " (calls dec-"+k.role+"))")); b != nil {
			gn = "((ok " + normMsgNoNext(b[0]) + ") (calls dec-" + k.role + "))"
		}
		if gn != want {
			fail(fmt.Sprintf("a reference-built protected message with pad length %d is not accepted / decoded to its payloads", pl), want, gn)
		}
	}
	return nil
}

// evalPrefixedSK: a reference-built protected message with unsupported payloads in front of the Encrypted payload:
// non-critical ones are skipped and the message decodes to its inner payloads; a critical one makes it fail
func evalPrefixedSK(c *Ctx, k skCase, inner []byte, first byte, padLen int) error {
	r, rng := c.R, c.Rng
	unsupTy := func() byte {
		if rng.Bool() {
			return byte(rng.Range(1, 32))
		}
		return byte(rng.Range(49, 255))
	}
	var pre []prePayload
	anyCrit := false
	for n := rng.Range(1, 2); n > 0; n-- {
		p := prePayload{ty: unsupTy(), flags: resBits(rng), body: rng.Bytes(rng.Pick([]int{0, 1, 7, 16, 40}))}
		if rng.Chance(1, 5) {
			p.flags |= 0x80
			anyCrit = true
		}
		pre = append(pre, p)
	}
	if 28+4+16+len(inner)+padLen+1+integOutLen[k.s.i]+2*44 > 65000 {
		return nil
	}
	rb, err := refProtect(c, k, k.m.At(1), inner, first, rng.Bytes(16), rng.Bytes(padLen), pre...)
	if err != nil {
		return err
	}
	hdr := []string{"nohdr", "parsed"}[rng.Intn(2)]
	got, err := unprotectBoth(c, k, other(k.role), rb, hdr, " (reference-built message with unsupported payloads before SK)")
	if err != nil {
		return err
	}
	tc := fmt.Sprintf("(unsk %s (%s) %s %s %s)", k.s, k.ks.sx(), other(k.role), hx(rb), hdr)
	r.Count(tc, true, fmt.Sprintf("prefixed-sk:critical=%v", anyCrit))
	want := "((ok " + normMsgNoNext(k.m) + ") (calls dec-" + k.role + "))"
	if anyCrit {
		want = "(err (calls))"
	}
	gn := got
	if b := okBody(strings.TrimSuffix(strings.TrimPrefix(got, "("), " (calls dec-"+k.role+"))")); b != nil {
		gn = "((ok " + normMsgNoNext(b[0]) + ") (calls dec-" + k.role + "))"
	}
	if gn != want {
		what := "a protected message with non-critical unsupported payloads before the Encrypted payload does not decode as the same message without them"
		if anyCrit {
			what = "a protected message with a critical unsupported payload before the Encrypted payload is not rejected before any key is applied"
		}
		r.Add(Finding{Kind: "instance", What: what, Case: tc, Expected: want, Observed: gn})
	}
	return nil
}

func runC06(c *Ctx) error {
	c.R.Rule = "messages of the encodable domain x 9 suites x both directions x random keys; implementation output compared octet for octet with the RFC 7296 3.14 " +
		"construction (Go crypto/hmac, textbook CBC over the raw AES block); reference-built messages with every legal pad length class and arbitrary pad octets fed to DecodeDecrypt; distinct by the case"
	if err := replayOrCorpus(c, "C06", func(s *SX) error {
		if s.Head() == "sk" {
			return evalC06(c, parseSkCase(s))
		}
		return nil
	}); err != nil || c.Replay != "" {
		return err
	}
	for i, n := 0, c.N(400, 15000); i < n; i++ {
		if err := evalC06(c, genSkCase(c.Rng, i)); err != nil {
			return err
		}
	}
	return nil
}

// ---------- C02: tampering ----------
func evalC02(c *Ctx, k skCase, exhaustive bool) error {
	r := c.R
	cs := k.String()
	innerB := okBody(implContainerEncode(k.m.At(2)))
	if innerB == nil || !protectedFits(len(innerB[0].B0()), integOutLen[k.s.i]) || len(innerB[0].B0()) > 600 {
		return nil
	}
	wire, _, err := protectBoth(c, k, "")
	if err != nil || wire == nil {
		return err
	}
	rng := c.Rng
	recv := other(k.role)
	try := func(kind string, kk skCase, role string, raw []byte, hdr string) error {
		got, err := unprotectBoth(c, kk, role, raw, hdr, " ("+kind+")")
		if err != nil {
			return err
		}
		tc := fmt.Sprintf("(unsk %s (%s) %s %s %s)", kk.s, kk.ks.sx(), role, hx(raw), hdr)
		r.Count(tc, true, "tamper:"+kind)
		// exception: the first-payload octet no longer names SK AND the datagram no longer presents an Encrypted payload
		// (the plain chain walk - the model's, not the implementation's - finds no SK first) -> handled as an unprotected
		// datagram, no key applied.  A datagram that still presents SK behind skipped unsupported payloads is NOT excepted.
		if len(raw) >= 28 && raw[16] != 46 && hdr != "explicit" {
			presentsSK := false
			if pd, err := c.M.Ask("(decode " + hx(raw) + ")"); err != nil {
				return err
			} else if b := okBody(pd); b != nil && len(b[0].At(2).List) > 0 && b[0].At(2).At(0).Head() == "sk" {
				presentsSK = true
			}
			if !presentsSK {
				if strings.Contains(got, "dec-") || strings.Contains(got, "enc-") || strings.HasPrefix(got, "(fault") {
					r.Add(Finding{Kind: "instance", What: "a key was applied to / crash on a datagram that does not present an Encrypted payload (" + kind + ")", Case: tc, Expected: "plain handling", Observed: got})
				}
				return nil
			}
		}
		if strings.HasPrefix(got, "((ok") {
			r.Add(Finding{Kind: "instance", What: "a modified / foreign protected message is accepted (" + kind + ")", Case: tc, Expected: "(err (calls))", Observed: got})
		} else if strings.HasPrefix(got, "(fault") {
			r.Add(Finding{Kind: "instance", What: "unprotection crashes (" + kind + ")", Case: tc, Expected: "(err (calls))", Observed: got})
		} else if got != "(err (calls))" && got != "(hdr-err (calls))" {
			r.Add(Finding{Kind: "instance", What: "ciphertext handed to the cipher before / without a valid checksum (" + kind + ")", Case: tc, Expected: "(err (calls))", Observed: got})
		}
		return nil
	}
	hdrs := []string{"nohdr", "parsed"}
	// single-bit flips: exhaustive for this message, or a sample
	nbits := len(wire) * 8
	for bit := 0; bit < nbits; bit++ {
		if !exhaustive && rng.Intn(nbits) >= 160 && bit >= 28*8+32 && bit < nbits-16*8 {
			continue
		}
		b := append([]byte(nil), wire...)
		b[bit/8] ^= 1 << uint(bit%8)
		if err := try("bit-flip", k, recv, b, hdrs[bit%2]); err != nil {
			return err
		}
	}
	// every proper prefix (sampled when not exhaustive), extensions
	for l := 0; l < len(wire); l++ {
		if !exhaustive && l > 64 && l < len(wire)-40 && rng.Intn(8) != 0 {
			continue
		}
		if err := try("prefix", k, recv, wire[:l], hdrs[l%2]); err != nil {
			return err
		}
	}
	for _, e := range []int{1, 12, 16, 17, 32} {
		if err := try("extension", k, recv, append(append([]byte(nil), wire...), rng.Bytes(e)...), hdrs[e%2]); err != nil {
			return err
		}
	}
	// unsupported non-critical payloads in FRONT of an SK payload whose body is shorter than a checksum (the datagram as a
	// whole is long, the SK body is not), and in front of the genuine SK payload with the header length adjusted
	for i := 0; i < 6; i++ {
		icv := integOutLen[k.s.i]
		ty := byte(rng.Pick([]int{1, 32, 49, 200, 255}))
		pl := rng.Pick([]int{0, 8, 12, 16, 40, 64})
		skBody := rng.Bytes(rng.Range(0, icv-1))
		if i >= 4 {
			skBody = wire[32:] // the genuine SK body behind an inserted payload: the checksum no longer matches
		}
		x := append([]byte(nil), wire[:28]...)
		x[16] = ty
		x = append(x, 46, 0, byte((4+pl)>>8), byte(4+pl))
		x = append(x, rng.Bytes(pl)...)
		x = append(x, wire[28], 0, byte((4+len(skBody))>>8), byte(4+len(skBody)))
		x = append(x, skBody...)
		binary.BigEndian.PutUint32(x[24:], uint32(len(x)))
		if err := try("prefixed-short-sk", k, recv, x, hdrs[i%2]); err != nil {
			return err
		}
	}
	// structured extensions: well-formed generic payload headers appended after the SK payload (the chain walker
	// continues with the SK's next-payload type; non-critical unknown types are skipped)
	for i, ext := range [][]byte{{0, 0, 0, 4}, {0, 0, 0, 8, 1, 2, 3, 4}, {0, 0, 0, 4, 0, 0, 0, 4}, {0, 0x7f, 0, 5, 9}, {49, 0, 0, 4, 0, 0, 0, 6, 1, 2}, {46, 0, 0, 4}} {
		x := append(append([]byte(nil), wire...), ext...)
		if err := try("structured-extension", k, recv, x, hdrs[i%2]); err != nil {
			return err
		}
		// the same with the header length field adjusted, as an attacker would
		y := append([]byte(nil), x...)
		binary.BigEndian.PutUint32(y[24:], uint32(len(y)))
		if err := try("structured-extension", k, recv, y, hdrs[(i+1)%2]); err != nil {
			return err
		}
	}
	// multi-octet edits
	for t := 0; t < 12; t++ {
		b := append([]byte(nil), wire...)
		for j := rng.Range(2, 6); j > 0; j-- {
			b[rng.Intn(len(b))] ^= byte(rng.Range(1, 255))
		}
		if err := try("multi-edit", k, recv, b, hdrs[t%2]); err != nil {
			return err
		}
	}
	// splice with a second message under the same keys (header of one, body of the other)
	k2 := k
	k2.m = genMessage(rng)
	k2.script = rng.Bytes(32)
	if in2 := okBody(implContainerEncode(k2.m.At(2))); in2 != nil && len(in2[0].B0()) < 600 {
		w2, _, err := protectBoth(c, k2, "")
		if err != nil {
			return err
		}
		if w2 != nil && !bytes.Equal(w2, wire) {
			for _, cut := range []int{16, 20, 24, 28, 32, 48} {
				if cut <= len(wire) && cut <= len(w2) {
					sp := append(append([]byte(nil), wire[:cut]...), w2[cut:]...)
					if !bytes.Equal(sp, wire) && !bytes.Equal(sp, w2) {
						if err := try("splice", k, recv, sp, hdrs[cut%2]); err != nil {
							return err
						}
					}
				}
			}
		}
	}
	// unrelated key sets; reflection to the producing role
	ku := k
	ku.ks = genKeys(rng, k.s)
	if err := try("other-keys", ku, recv, wire, "nohdr"); err != nil {
		return err
	}
	kh := k // same cipher keys, other integrity keys and vice versa
	kh.ks.ai, kh.ks.ar = ku.ks.ai, ku.ks.ar
	if err := try("other-integrity-keys", kh, recv, wire, "parsed"); err != nil {
		return err
	}
	if err := try("reflection", k, k.role, wire, "nohdr"); err != nil {
		return err
	}
	if err := try("reflection", k, k.role, wire, "parsed"); err != nil {
		return err
	}
	// short SK bodies (fewer octets than the checksum) and short datagrams with a supplied header
	for l := 0; l <= 20; l++ {
		b := append([]byte(nil), wire[:28]...)
		b = append(b, 0, 0, byte((4+l)>>8), byte(4+l))
		b = append(b, rng.Bytes(l)...)
		binary.BigEndian.PutUint32(b[24:], uint32(len(b)))
		if err := try("short-sk-body", k, recv, b, hdrs[l%2]); err != nil {
			return err
		}
	}
	r.Sample(cs)
	return nil
}

func runC02(c *Ctx) error {
	c.R.Rule = "per protected message: single-bit flips (exhaustive for the first messages, sampled 160+ per message afterwards, header and checksum always complete), " +
		"every/sampled proper prefix, extensions, multi-octet edits, header/body splices of two messages under the same keys, unrelated keys, swapped integrity keys, " +
		"reflection, SK bodies shorter than the checksum; spy cipher in Encr_i/Encr_r; distinct by (keys, role, octets)"
	if err := replayOrCorpus(c, "C02", func(s *SX) error {
		switch s.Head() {
		case "sk":
			return evalC02(c, parseSkCase(s), true)
		case "unsk":
			ksx := s.At(4)
			k := skCase{s: suite{s.At(1).Atom, s.At(2).Atom, s.At(3).Atom}, ks: keyset{ksx.B(0), ksx.B(1), ksx.B(2), ksx.B(3), ksx.B(4), ksx.B(5), ksx.B(6)}}
			got, err := unprotectBoth(c, k, s.At(5).Atom, s.B(6), s.At(7).Atom, " (replay)")
			if err == nil && !strings.HasPrefix(got, "(err (calls))") && !strings.HasPrefix(got, "(hdr-err") {
				c.R.Add(Finding{Kind: "instance", What: "replayed datagram is not rejected cleanly", Case: s.String(), Expected: "(err (calls))", Observed: got})
			}
			return err
		}
		return nil
	}); err != nil || c.Replay != "" {
		return err
	}
	for i, n := 0, c.N(18, 600); i < n; i++ {
		k := genSkCase(c.Rng, i)
		if i%6 == 1 { // empty payload lists (liveness checks): the SK's next-payload field is 0
			k.m = L(A("msg"), genHeader(c.Rng), L())
		}
		if err := evalC02(c, k, i < c.N(2, 40)); err != nil {
			return err
		}
	}
	return nil
}

// ---------- C17: histories on one long-lived SA object ----------
func runC17(c *Ctx) error {
	r := c.R
	r.Rule = "histories over {protect as either role, unprotect genuine, unprotect tampered / truncated / garbage, derive Child SA} on one IKESAKey object, " +
		"length up to 64 (thorough 512), all 9 suites; after every operation its result is compared with the model's and with the same operation on a fresh object " +
		"holding the same keys; distinct by (history prefix)"
	rng := c.Rng
	if c.Replay != "" {
		return nil
	}
	integs := []string{"none", "md5", "sha1", "sha256"}
	for h, nh := 0, c.N(14, 120); h < nh; h++ {
		s := suite{encrIDs[h%3], hashIDs[(h/3)%3], hashIDs[rng.Intn(3)]}
		ks := genKeys(rng, s)
		k := skCase{s: s, ks: ks}
		long, err := saFromKeys(s, ks.d, ks.ai, ks.ar, ks.ei, ks.er, ks.pi, ks.pr)
		if err != nil {
			return err
		}
		if _, err := c.M.Ask(fmt.Sprintf("(sa_keys long %s %s)", s, ks.sx())); err != nil {
			return err
		}
		fresh := func() *security.IKESAKey {
			f, _ := saFromKeys(s, ks.d, ks.ai, ks.ar, ks.ei, ks.er, ks.pi, ks.pr)
			return f
		}
		n := rng.Pick([]int{4, 16, 64})
		if h == 0 {
			n = c.N(64, 512)
		}
		var genuine [][]byte // messages protected by a fresh peer, with their sender role
		var groles []string
		hist := []string{}
		var justAccepted []byte // a genuine datagram the long-lived object accepted in the previous step
		var justRole string
		var lastChild []string // transforms and nonce of the previous Child SA derivation of this history
		var accepted [][]byte  // genuine datagrams the long-lived object has accepted, with the receiving role
		var acceptedRoles []string
		for step := 0; step < n; step++ {
			var op, implLong, implFresh, model string
			atCtx(fmt.Sprintf("(history %s (%s) %s)", s, ks.sx(), strings.Join(hist, " ")))
			choice := rng.Intn(5)
			if justAccepted != nil && rng.Chance(2, 3) {
				choice = 5
			}
			switch choice {
			case 5: // a forgery made from the datagram that was accepted a moment ago: same checksum octets, another octet changed
				raw := append([]byte(nil), justAccepted...)
				icv := integOutLen[s.i]
				pos := rng.Pick([]int{20 + rng.Intn(4), 32 + rng.Intn(16), 18, 19})
				if body := len(raw) - icv - 48; body > 0 && rng.Bool() {
					pos = 48 + rng.Intn(body)
				}
				raw[pos] ^= 1 << uint(rng.Intn(8))
				role := justRole
				justAccepted = nil
				op = fmt.Sprintf("(unprotect %s %s nohdr)", role, hx(raw))
				implLong = implUnprotect(long, role, rx(raw), "nohdr")
				implFresh = implUnprotect(fresh(), role, rx(raw), "nohdr")
				model, err = c.M.Ask(fmt.Sprintf("(unprotect long %s %s nohdr)", role, hx(raw)))
				if err != nil {
					return err
				}
				if strings.HasPrefix(implLong, "((ok") {
					r.Add(Finding{Kind: "instance", What: "a forgery of the message accepted just before (checksum octets kept, another octet changed) is accepted", Case: strings.Join(append(hist, op), " "), Expected: "(err (calls))", Observed: implLong})
				}
			case 0, 1: // protect as either role
				role := []string{"i", "r"}[rng.Intn(2)]
				m := genMessage(rng)
				if in := okBody(implContainerEncode(m.At(2))); in == nil || len(in[0].B0()) > 2000 {
					m = L(A("msg"), genHeader(rng), L(genPayload(rng, "nonce")))
				}
				script := rng.Bytes(32)
				op = fmt.Sprintf("(protect %s %s %s)", role, m, rndSX(script, nil))
				var wire []byte
				implLong, wire = implProtect(long, role, m, script, nil)
				implFresh, _ = implProtect(fresh(), role, m, script, nil)
				model, err = c.M.Ask(fmt.Sprintf("(protect long %s %s %s)", role, m, rndSX(script, nil)))
				if err != nil {
					return err
				}
				if wire != nil {
					// accepted by a fresh peer in the opposite role
					got := implUnprotect(fresh(), other(role), rx(wire), "nohdr")
					if !strings.HasPrefix(got, "((ok") {
						r.Add(Finding{Kind: "instance", What: "a message protected late in a history is not accepted by a fresh peer", Case: strings.Join(append(hist, op), " "), Expected: "((ok ...", Observed: got})
					}
					genuine, groles = append(genuine, wire), append(groles, role)
				}
			case 2: // unprotect a genuine message from a fresh peer
				role := []string{"i", "r"}[rng.Intn(2)]
				m := L(A("msg"), genHeader(rng), genPayloadList(rng))
				if in := okBody(implContainerEncode(m.At(2))); in == nil || len(in[0].B0()) > 2000 {
					m = L(A("msg"), genHeader(rng), L())
				}
				_, wire := implProtect(fresh(), role, m, rng.Bytes(32), nil)
				if wire == nil {
					continue
				}
				if len(accepted) > 0 && rng.Chance(1, 3) {
					// a retransmission: the very octets of a genuine message this object accepted earlier in the history
					// (IKE retransmits requests and responses unchanged) - still genuine, still accepted by a fresh peer
					j := len(accepted) - 1
					if rng.Chance(1, 3) {
						j = rng.Intn(len(accepted))
					}
					wire, role = accepted[j], other(acceptedRoles[j])
				}
				hdr := []string{"nohdr", "parsed"}[rng.Intn(2)]
				op = fmt.Sprintf("(unprotect %s %s %s)", other(role), hx(wire), hdr)
				implLong = implUnprotect(long, other(role), rx(wire), hdr)
				implFresh = implUnprotect(fresh(), other(role), rx(wire), hdr)
				model, err = c.M.Ask(fmt.Sprintf("(unprotect long %s %s %s)", other(role), hx(wire), hdr))
				if err != nil {
					return err
				}
				if !strings.HasPrefix(implLong, "((ok") {
					r.Add(Finding{Kind: "instance", What: "a genuine message from a fresh peer is rejected late in a history", Case: strings.Join(append(hist, op), " "), Expected: "((ok ...", Observed: implLong})
				} else {
					justAccepted, justRole = wire, other(role)
					accepted, acceptedRoles = append(accepted, wire), append(acceptedRoles, other(role))
				}
			case 3: // tampered / truncated / garbage
				var raw []byte
				role := []string{"i", "r"}[rng.Intn(2)]
				if len(genuine) > 0 && rng.Chance(3, 4) {
					j := rng.Intn(len(genuine))
					raw = mutate(rng, genuine[j])
					role = other(groles[j])
					if bytes.Equal(raw, genuine[j]) {
						raw = raw[:len(raw)-1]
					}
				} else {
					raw = rng.Bytes(rng.Intn(80))
				}
				if len(genuine) > 0 && rng.Chance(1, 3) {
					// well-framed datagrams (both length fields consistent) that each of the receiver's refusal paths must
					// turn down: an Encrypted payload shorter than the checksum, one that is not a whole number of cipher
					// blocks, one with a foreign checksum of the right size - the history goes on after every one of them
					j := rng.Intn(len(genuine))
					role = other(groles[j])
					var body []byte
					switch rng.Intn(3) {
					case 0:
						body = rng.Bytes(rng.Intn(21))
					case 1:
						body = rng.Bytes(16 + 16*rng.Intn(4) + rng.Range(1, 15) + 12)
					default:
						body = rng.Bytes(16 + 16*rng.Range(1, 4) + rng.Pick([]int{12, 16}))
					}
					raw = append([]byte(nil), genuine[j][:28]...)
					raw[16] = 46
					raw = append(raw, byte(rng.Pick([]int{0, 33, 41})), 0, byte((4+len(body))>>8), byte(4+len(body)))
					raw = append(raw, body...)
					binary.BigEndian.PutUint32(raw[24:], uint32(len(raw)))
				}
				op = fmt.Sprintf("(unprotect %s %s nohdr)", role, hx(raw))
				implLong = implUnprotect(long, role, rx(raw), "nohdr")
				implFresh = implUnprotect(fresh(), role, rx(raw), "nohdr")
				model, err = c.M.Ask(fmt.Sprintf("(unprotect long %s %s nohdr)", role, hx(raw)))
				if err != nil {
					return err
				}
				if strings.HasPrefix(implLong, "((ok") && len(raw) >= 28 && raw[16] == 46 {
					r.Add(Finding{Kind: "instance", What: "a forged message is accepted late in a history", Case: strings.Join(append(hist, op), " "), Expected: "(err (calls))", Observed: implLong})
				}
			default: // derive a Child SA
				e, i, nonce := encrIDs[rng.Intn(3)], integs[rng.Intn(4)], rng.Bytes(rng.Pick([]int{0, 16, 32, 64}))
				if lastChild != nil && rng.Chance(1, 2) {
					// the shape of the previous derivation (transforms, nonce size) with other nonce octets: whatever an
					// object remembers about the previous call is nearly - but not - applicable
					e, i, nonce = lastChild[0], lastChild[1], rng.Bytes(len(lastChild[2]))
					if rng.Chance(1, 3) && len(nonce) > 0 { // ... or differing in one octet only
						nonce = append([]byte(nil), lastChild[2]...)
						nonce[rng.Intn(len(nonce))] ^= 1 << uint(rng.Intn(8))
					}
				}
				lastChild = []string{e, i, string(nonce)}
				op = fmt.Sprintf("(child %s %s %s)", e, i, hx(nonce))
				implLong = implChild(long, e, i, nonce)
				implFresh = implChild(fresh(), e, i, nonce)
				model, err = c.M.Ask(fmt.Sprintf("(child long %s %s %s)", e, i, hx(nonce)))
				if err != nil {
					return err
				}
			}
			r.ImplRuns += 2
			hist = append(hist, op)
			cs := fmt.Sprintf("(history %s (%s) %s)", s, ks.sx(), strings.Join(hist, " "))
			r.Count(fmt.Sprintf("%d|%d|%s", h, step, op), step > 0, "op:"+op[1:strings.IndexByte(op, ' ')])
			if implLong != model {
				r.Add(Finding{Kind: "correspondence", What: "operation on a long-lived IKESAKey differs from the Impl state machine", Case: cs, Expected: model, Observed: implLong})
			}
			if implLong != implFresh {
				r.Add(Finding{Kind: "instance", What: fmt.Sprintf("operation #%d of a history differs from the same operation on a fresh SA object with the same keys", step+1),
					Case: cs, Expected: implFresh, Observed: implLong})
			}
			if step == n-1 {
				r.Sample(cs)
			}
		}
		_ = k
		atCtx("")
	}
	return nil
}
