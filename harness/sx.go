package main

import (
	"encoding/hex"
	"fmt"
	"strconv"
	"strings"
)

// SX is an s-expression: an atom or a list.  Case strings, corpus files and replays use it.
type SX struct {
	Atom string
	List []*SX
	IsL  bool
}

func A(s string) *SX           { return &SX{Atom: s} }
func Nn(n uint64) *SX          { return &SX{Atom: strconv.FormatUint(n, 10)} }
func Hx(b []byte) *SX          { return &SX{Atom: "x" + hex.EncodeToString(b)} }
func L(items ...*SX) *SX       { return &SX{List: items, IsL: true} }
func (s *SX) Add(items ...*SX) { s.List = append(s.List, items...) }

func (s *SX) String() string {
	var b strings.Builder
	s.write(&b)
	return b.String()
}
func (s *SX) write(b *strings.Builder) {
	if !s.IsL {
		b.WriteString(s.Atom)
		return
	}
	b.WriteByte('(')
	for i, x := range s.List {
		if i > 0 {
			b.WriteByte(' ')
		}
		x.write(b)
	}
	b.WriteByte(')')
}

func ParseSX(s string) (*SX, error) {
	pos := 0
	var item func() (*SX, error)
	skip := func() {
		for pos < len(s) && (s[pos] == ' ' || s[pos] == '\t' || s[pos] == '\n' || s[pos] == '\r') {
			pos++
		}
	}
	item = func() (*SX, error) {
		skip()
		if pos >= len(s) {
			return nil, fmt.Errorf("unexpected end")
		}
		if s[pos] == '(' {
			pos++
			l := L()
			for {
				skip()
				if pos >= len(s) {
					return nil, fmt.Errorf("unclosed list")
				}
				if s[pos] == ')' {
					pos++
					return l, nil
				}
				x, err := item()
				if err != nil {
					return nil, err
				}
				l.Add(x)
			}
		}
		st := pos
		for pos < len(s) && s[pos] != ' ' && s[pos] != '(' && s[pos] != ')' && s[pos] != '\n' {
			pos++
		}
		return A(s[st:pos]), nil
	}
	return item()
}

func (s *SX) Head() string {
	if s.IsL && len(s.List) > 0 && !s.List[0].IsL {
		return s.List[0].Atom
	}
	return ""
}
func (s *SX) U(i int) uint64 {
	if i >= len(s.List) {
		panic("sx: index")
	}
	v, err := strconv.ParseUint(s.List[i].Atom, 10, 64)
	if err != nil {
		panic("sx: number expected: " + s.List[i].Atom)
	}
	return v
}
func (s *SX) B(i int) []byte {
	if i >= len(s.List) {
		panic("sx: index")
	}
	a := s.List[i].Atom
	if len(a) == 0 || a[0] != 'x' {
		panic("sx: hex expected: " + a)
	}
	b, err := hex.DecodeString(a[1:])
	if err != nil {
		panic("sx: bad hex")
	}
	return b
}
func (s *SX) At(i int) *SX { return s.List[i] }
func (s *SX) Tail(i int) []*SX {
	if i > len(s.List) {
		return nil
	}
	return s.List[i:]
}
