package main

import (
	"fmt"
	"os"
	"runtime"
	"sync/atomic"
	"time"
)

// Watchdog.  "Never loops forever / work bounded by the input length" cannot be observed by a runner that waits for the
// call to return.  Every implementation call (run), every model request and every counted case bumps a progress
// counter; when nothing moves for the limit while the runner is NOT waiting for the model, the call in flight is
// reported as a failing input (the input last handed to an implementation entry point, noted by wdNote), the report is
// written and the process ends - the goroutine stuck inside the library cannot be stopped any other way.
var (
	wdProgress  int64
	wdModelWait int32
	wdLast      atomic.Value // *wdInput
)

type wdInput struct {
	op   string
	arg  int
	data []byte
	sx   *SX
	text string
}

func tick() { atomic.AddInt64(&wdProgress, 1) }

func wdNote(op string, arg int, data []byte, sx *SX) {
	wdLast.Store(&wdInput{op: op, arg: arg, data: data, sx: sx})
}
func at(cs string) { wdLast.Store(&wdInput{text: cs}) }

// atCtx records what led up to the next call (the history so far); the hang report shows it in front of the input
var wdCtx atomic.Value

func atCtx(s string) { wdCtx.Store(s) }

func (w *wdInput) String() string {
	if w == nil {
		return "(unlabelled)"
	}
	if w.text != "" {
		return w.text
	}
	switch w.op {
	case "decode", "parse_header", "eap_unmarshal":
		return fmt.Sprintf("(%s %s)", w.op, hx(w.data))
	case "decode_payloads", "payload_unmarshal", "eapdata_unmarshal":
		return fmt.Sprintf("(%s %d %s)", w.op, w.arg, hx(w.data))
	}
	s := "(" + w.op
	if w.sx != nil {
		s += " " + w.sx.String()
	}
	if w.data != nil {
		s += " " + hx(w.data)
	}
	return s + ")"
}

func startWatchdog(ctx *Ctx, out string, limit time.Duration) {
	go func() {
		last, since := atomic.LoadInt64(&wdProgress), time.Now()
		for {
			time.Sleep(500 * time.Millisecond)
			cur := atomic.LoadInt64(&wdProgress)
			if cur != last || atomic.LoadInt32(&wdModelWait) != 0 {
				last, since = cur, time.Now()
				continue
			}
			if time.Since(since) < limit {
				continue
			}
			buf := make([]byte, 1<<17)
			n := runtime.Stack(buf, true)
			st := string(buf[:n])
			if len(st) > 6000 {
				st = st[:6000]
			}
			w, _ := wdLast.Load().(*wdInput)
			ctx.R.Add(Finding{Kind: "instance",
				What:     fmt.Sprintf("an implementation call does not return (no progress for %v: the work is not bounded by the input length)", limit),
				Case:     wdCase(w),
				Expected: "a value or an error after work bounded by the input length",
				Observed: "still running; goroutines:\n" + st})
			ctx.R.Notes = append(ctx.R.Notes, "the runner was ended by its watchdog: the remaining cases were not evaluated")
			ctx.R.ModelReqs = ctx.M.Requests
			ctx.R.OracleCalls = ctx.M.OracleCalls
			_ = ctx.R.Write(out)
			fmt.Printf("harness %s: watchdog: an implementation call did not return within %v on %.200s\n", ctx.R.Property, limit, w.String())
			os.Exit(0)
		}
	}()
}

// solo is true while the runner is single-threaded.  The harness's own conveniences that keep state between cases (key
// pools, the re-used scratch array, the alternating receive-buffer layouts) are switched off during the concurrent phase
// of C18: there, every goroutine must own everything it touches, or the race detector reports the HARNESS.
var soloOff int32

func solo() bool      { return atomic.LoadInt32(&soloOff) == 0 }
func setSolo(on bool) { v := int32(1); if on { v = 0 }; atomic.StoreInt32(&soloOff, v) }

func wdCase(w *wdInput) string {
	if ctx, _ := wdCtx.Load().(string); ctx != "" {
		return "(after " + ctx + " the call " + w.String() + ")"
	}
	return w.String()
}
