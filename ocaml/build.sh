#!/bin/sh
# Extract the Coq model to OCaml and build the model driver.  Usage: build.sh  (cwd irrelevant)
set -e
here=$(cd "$(dirname "$0")" && pwd)
mkdir -p "$here/gen" "$here/_build"
cd "$here/gen"
coqc -Q "$here/../coq/theories" IKE "$here/../coq/extract/Extract.v" >/dev/null
cd "$here/_build"
cp ../gen/model.ml ../gen/model.mli ../dlib.ml ../h_*.ml ../main.ml .
ocamlfind ocamlopt -w -a -package str model.mli model.ml dlib.ml h_crypto.ml h_codec.ml h_sec.ml h_misc.ml h_spec.ml main.ml -o ../modeldriver
