(* Line-protocol driver around the extracted Coq model (model.ml).
   stdin : one request per line, an s-expression  (op arg ...)
   stdout: zero or more oracle queries "?<alg> <hex>..." (each answered by one line on stdin),
           then exactly one result line.
   Atoms: decimal numbers, hex octet strings written x<hex> (x alone = empty), symbols. *)
open Model
type bytes = byte list

(* ---------- conversions between OCaml values and extracted Coq datatypes ---------- *)
let byte_of_int (i : int) : byte = Obj.magic i
let int_of_byte (b : byte) : int = Obj.magic b

let rec pos_of_int (i : int) : positive =
  if i = 1 then XH else if i land 1 = 0 then XO (pos_of_int (i lsr 1)) else XI (pos_of_int (i lsr 1))
let n_of_int (i : int) : n = if i = 0 then N0 else Npos (pos_of_int i)
let rec int_of_pos = function XH -> 1 | XO p -> 2 * int_of_pos p | XI p -> 2 * int_of_pos p + 1
let int_of_n = function N0 -> 0 | Npos p -> int_of_pos p
let rec nat_of_int (i : int) : nat = if i = 0 then O else S (nat_of_int (i - 1))
let rec int_of_nat_acc acc = function O -> acc | S m -> int_of_nat_acc (acc + 1) m
let int_of_nat n = int_of_nat_acc 0 n

let hexdig = "0123456789abcdef"
let hex_of_bytes (l : bytes) : string =
  let b = Buffer.create 64 in
  Buffer.add_char b 'x';
  List.iter (fun x -> let i = int_of_byte x in
    Buffer.add_char b hexdig.[i lsr 4]; Buffer.add_char b hexdig.[i land 15]) l;
  Buffer.contents b
let hv c = match c with
  | '0'..'9' -> Char.code c - 48 | 'a'..'f' -> Char.code c - 87 | 'A'..'F' -> Char.code c - 55
  | _ -> failwith "bad hex"
(* s without the leading x *)
let bytes_of_hex_raw (s : string) : bytes =
  let n = String.length s / 2 in
  let rec go i acc = if i < 0 then acc else go (i - 1) (byte_of_int (hv s.[2*i] * 16 + hv s.[2*i+1]) :: acc) in
  go (n - 1) []
let bytes_of_hex (s : string) : bytes =
  if String.length s = 0 || s.[0] <> 'x' then failwith ("not a hex atom: " ^ s)
  else bytes_of_hex_raw (String.sub s 1 (String.length s - 1))

(* big numbers travel as big-endian octet strings *)
let n_of_be (l : bytes) : n = be_val l

(* ---------- s-expressions ---------- *)
type sx = A of string | L of sx list

let parse (s : string) : sx =
  let n = String.length s in
  let pos = ref 0 in
  let rec skip () = if !pos < n && (s.[!pos] = ' ' || s.[!pos] = '\t' || s.[!pos] = '\r') then (incr pos; skip ()) in
  let rec item () =
    skip ();
    if !pos >= n then failwith "unexpected end";
    if s.[!pos] = '(' then begin
      incr pos;
      let rec items acc = skip ();
        if !pos >= n then failwith "unclosed";
        if s.[!pos] = ')' then (incr pos; List.rev acc) else items (item () :: acc) in
      L (items [])
    end else begin
      let st = !pos in
      while !pos < n && s.[!pos] <> ' ' && s.[!pos] <> '(' && s.[!pos] <> ')' do incr pos done;
      A (String.sub s st (!pos - st))
    end in
  item ()

let rec show = function
  | A s -> s
  | L l -> "(" ^ String.concat " " (List.map show l) ^ ")"

let int_atom = function A s -> int_of_string s | _ -> failwith "int expected"
let hex_atom = function A s -> bytes_of_hex s | _ -> failwith "hex expected"
let n_atom x = n_of_int (int_atom x)
let sx_n (v : n) = A (string_of_int (int_of_n v))
let sx_hex (b : bytes) = A (hex_of_bytes b)

(* ---------- oracle: raw primitives answered by the Go harness (Go's standard library) ---------- *)
let oracle_calls = ref 0
let ask (q : string) : string =
  incr oracle_calls;
  print_string q; print_char '\n'; flush stdout;
  input_line stdin
let digest (alg : string) (m : bytes) : bytes =
  bytes_of_hex_raw (ask ("?" ^ alg ^ " " ^ String.sub (hex_of_bytes m) 1 (2 * List.length m)))
let sha256 = digest "sha256"
let sha1 = digest "sha1"
let md5 = digest "md5"

(* ---------- results ---------- *)
let res_sx (f : 'a -> sx list) (r : 'a res) : sx =
  match r with
  | Ok v -> L (A "ok" :: f v)
  | Err -> A "err"
  | Fault -> A "fault"
  | OutOfFuel -> A "outoffuel"

(* ---------- dispatch ---------- *)
let handlers : (string, sx list -> sx) Hashtbl.t = Hashtbl.create 64
let reg name f = Hashtbl.replace handlers name f

