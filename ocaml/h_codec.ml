(* message values <-> s-expressions, and the codec operations of the model *)
open Model
open Dlib

let list_of = function L l -> l | A _ -> failwith "list expected"
let be8 (x : sx) : n = n_of_be (hex_atom x)           (* 64-bit values travel as 8 octets *)
let sx_be8 (v : n) : sx = sx_hex (be64 v)

(* ---- transforms / proposals ---- *)
let tr_of_sx = function
  | L [A "tr"; ty; id; pres; fmt; at; av; var] ->
    { t_type = n_atom ty; t_id = n_atom id; t_present = (int_atom pres <> 0); t_format = n_atom fmt;
      t_atype = n_atom at; t_aval = n_atom av; t_var = hex_atom var }
  | x -> failwith ("bad transform " ^ show x)
let sx_of_tr t =
  L [A "tr"; sx_n t.t_type; sx_n t.t_id; A (if t.t_present then "1" else "0"); sx_n t.t_format;
     sx_n t.t_atype; sx_n t.t_aval; sx_hex t.t_var]
let trs_of_sx tag = function
  | L (A t :: l) when t = tag -> List.map tr_of_sx l
  | x -> failwith ("bad transform list " ^ show x)
let prop_of_sx = function
  | L [A "prop"; num; proto; spi; e; p; i; d; s] ->
    { p_num = n_atom num; p_proto = n_atom proto; p_spi = hex_atom spi;
      p_encr = trs_of_sx "encr" e; p_prf = trs_of_sx "prf" p; p_integ = trs_of_sx "integ" i;
      p_dh = trs_of_sx "dh" d; p_esn = trs_of_sx "esn" s }
  | x -> failwith ("bad proposal " ^ show x)
let sx_of_prop p =
  let g tag l = L (A tag :: List.map sx_of_tr l) in
  L [A "prop"; sx_n p.p_num; sx_n p.p_proto; sx_hex p.p_spi; g "encr" p.p_encr; g "prf" p.p_prf;
     g "integ" p.p_integ; g "dh" p.p_dh; g "esn" p.p_esn]

let sel_of_sx = function
  | L [A "sel"; ty; proto; sp; ep; sa; ea] ->
    { ts_type = n_atom ty; ts_proto = n_atom proto; ts_sport = n_atom sp; ts_eport = n_atom ep;
      ts_saddr = hex_atom sa; ts_eaddr = hex_atom ea }
  | x -> failwith ("bad selector " ^ show x)
let sx_of_sel s =
  L [A "sel"; sx_n s.ts_type; sx_n s.ts_proto; sx_n s.ts_sport; sx_n s.ts_eport; sx_hex s.ts_saddr; sx_hex s.ts_eaddr]

(* ---- EAP ---- *)
(* input form of an EAP-AKA' packet: built through SetAttr from an empty attribute map,
   (aka subtype (at type xvalue)...) ; a refused SetAttr makes the whole construction fail *)
exception Setter_refused
let aka_of_sx subtype ats =
  let attrs = List.fold_left (fun acc a -> match a with
      | L [A "at"; ty; v] ->
        (match aka_set_attr acc (n_atom ty) (hex_atom v) with Ok l -> l | _ -> raise Setter_refused)
      | x -> failwith ("bad aka attribute " ^ show x)) [] ats in
  EDAka (n_atom subtype, N0, attrs)
(* raw form (decoder-produced states): (akaraw subtype reserved (atr type len res xvalue)...) *)
let akaraw_of_sx subtype reserved ats =
  EDAka (n_atom subtype, n_atom reserved, List.map (function
      | L [A "atr"; ty; l; r; v] -> { at_type = n_atom ty; at_len = n_atom l; at_res = n_atom r; at_val = hex_atom v }
      | x -> failwith ("bad raw aka attribute " ^ show x)) ats)
let ed_of_sx = function
  | A "none" -> EDNone
  | L [A "identity"; d] -> EDIdentity (hex_atom d)
  | L [A "notification"; d] -> EDNotification (hex_atom d)
  | L [A "nak"; d] -> EDNak (hex_atom d)
  | L [A "expanded"; vid; vt; d] -> EDExpanded (n_atom vid, n_atom vt, hex_atom d)
  | L (A "aka" :: st :: ats) -> aka_of_sx st ats
  | L (A "akaraw" :: st :: rs :: ats) -> akaraw_of_sx st rs ats
  | x -> failwith ("bad eap data " ^ show x)
(* full = true: internal fields too (observable through the verif hook) *)
let full_aka = ref true
let sx_of_ed = function
  | EDNone -> A "none"
  | EDIdentity d -> L [A "identity"; sx_hex d]
  | EDNotification d -> L [A "notification"; sx_hex d]
  | EDNak d -> L [A "nak"; sx_hex d]
  | EDExpanded (vid, vt, d) -> L [A "expanded"; sx_n vid; sx_n vt; sx_hex d]
  | EDAka (st, rs, attrs) ->
    if !full_aka then
      L (A "akaraw" :: sx_n st :: sx_n rs :: List.map (fun a ->
          L [A "atr"; sx_n a.at_type; sx_n a.at_len; sx_n a.at_res; sx_hex a.at_val]) (aka_sort attrs))
    else
      L (A "aka" :: sx_n st :: List.map (fun a -> L [A "at"; sx_n a.at_type; sx_hex a.at_val]) (aka_sort attrs))
let eap_of_sx = function
  | L [A "eap"; code; id; ed] -> { e_code = n_atom code; e_id = n_atom id; e_data = ed_of_sx ed }
  | x -> failwith ("bad eap " ^ show x)
let sx_of_eap e = L [A "eap"; sx_n e.e_code; sx_n e.e_id; sx_of_ed e.e_data]

(* ---- payloads ---- *)
let payload_of_sx = function
  | L (A "sa" :: ps) -> PSA (List.map prop_of_sx ps)
  | L [A "ke"; g; d] -> PKE (n_atom g, hex_atom d)
  | L [A "idi"; t; d] -> PIDi (n_atom t, hex_atom d)
  | L [A "idr"; t; d] -> PIDr (n_atom t, hex_atom d)
  | L [A "cert"; t; d] -> PCERT (n_atom t, hex_atom d)
  | L [A "certreq"; t; d] -> PCERTREQ (n_atom t, hex_atom d)
  | L [A "auth"; t; d] -> PAUTH (n_atom t, hex_atom d)
  | L [A "nonce"; d] -> PNonce (hex_atom d)
  | L [A "n"; proto; ty; spi; d] -> PNotify (n_atom proto, n_atom ty, hex_atom spi, hex_atom d)
  | L [A "d"; proto; sz; num; L spis] -> PDelete (n_atom proto, n_atom sz, n_atom num, List.map n_atom spis)
  | L [A "v"; d] -> PVendor (hex_atom d)
  | L (A "tsi" :: ss) -> PTSi (List.map sel_of_sx ss)
  | L (A "tsr" :: ss) -> PTSr (List.map sel_of_sx ss)
  | L [A "sk"; nx; d] -> PSK (n_atom nx, hex_atom d)
  | L (A "cp" :: ct :: ats) -> PCP (n_atom ct, List.map (function
      | L [A "a"; ty; v] -> { ca_type = n_atom ty; ca_value = hex_atom v }
      | x -> failwith ("bad cp attribute " ^ show x)) ats)
  | L [A "eap"; _; _; _] as e -> PEAP (eap_of_sx e)
  | x -> failwith ("bad payload " ^ show x)
let sx_of_payload = function
  | PSA ps -> L (A "sa" :: List.map sx_of_prop ps)
  | PKE (g, d) -> L [A "ke"; sx_n g; sx_hex d]
  | PIDi (t, d) -> L [A "idi"; sx_n t; sx_hex d]
  | PIDr (t, d) -> L [A "idr"; sx_n t; sx_hex d]
  | PCERT (t, d) -> L [A "cert"; sx_n t; sx_hex d]
  | PCERTREQ (t, d) -> L [A "certreq"; sx_n t; sx_hex d]
  | PAUTH (t, d) -> L [A "auth"; sx_n t; sx_hex d]
  | PNonce d -> L [A "nonce"; sx_hex d]
  | PNotify (proto, ty, spi, d) -> L [A "n"; sx_n proto; sx_n ty; sx_hex spi; sx_hex d]
  | PDelete (proto, sz, num, spis) -> L [A "d"; sx_n proto; sx_n sz; sx_n num; L (List.map sx_n spis)]
  | PVendor d -> L [A "v"; sx_hex d]
  | PTSi ss -> L (A "tsi" :: List.map sx_of_sel ss)
  | PTSr ss -> L (A "tsr" :: List.map sx_of_sel ss)
  | PSK (nx, d) -> L [A "sk"; sx_n nx; sx_hex d]
  | PCP (ct, ats) -> L (A "cp" :: sx_n ct :: List.map (fun a -> L [A "a"; sx_n a.ca_type; sx_hex a.ca_value]) ats)
  | PEAP e -> sx_of_eap e

let hdr_of_sx = function
  | [ispi; rspi; maj; min; ex; fl; mid; nx] ->
    { h_ispi = be8 ispi; h_rspi = be8 rspi; h_major = n_atom maj; h_minor = n_atom min; h_exch = n_atom ex;
      h_flags = n_atom fl; h_mid = n_atom mid; h_next = n_atom nx }
  | _ -> failwith "bad header"
let sx_of_hdr h =
  [sx_be8 h.h_ispi; sx_be8 h.h_rspi; sx_n h.h_major; sx_n h.h_minor; sx_n h.h_exch; sx_n h.h_flags; sx_n h.h_mid; sx_n h.h_next]
let msg_of_sx = function
  | L [A "msg"; L hdr; L ps] -> { m_hdr = hdr_of_sx hdr; m_payloads = List.map payload_of_sx ps }
  | x -> failwith ("bad msg " ^ show x)
let sx_of_msg m = L [A "msg"; L (sx_of_hdr m.m_hdr); L (List.map sx_of_payload m.m_payloads)]

let guard_setter f = try f () with Setter_refused -> A "setter-refused"

let () =
  reg "aka_full" (function [x] -> full_aka := (int_atom x <> 0); A "ok" | _ -> failwith "args");
  reg "encode" (function [m] -> guard_setter (fun () -> res_sx (fun b -> [sx_hex b]) (encode (msg_of_sx m))) | _ -> failwith "args");
  reg "decode" (function [b] -> res_sx (fun m -> [sx_of_msg m]) (decode (hex_atom b)) | _ -> failwith "args");
  reg "container_encode" (function [L ps] -> guard_setter (fun () ->
      res_sx (fun b -> [sx_hex b]) (container_encode (List.map payload_of_sx ps))) | _ -> failwith "args");
  reg "decode_payloads" (function [nx; b] ->
      res_sx (fun ps -> [L (List.map sx_of_payload ps)]) (decode_payloads (n_atom nx) (hex_atom b)) | _ -> failwith "args");
  reg "parse_header" (function [b] ->
      res_sx (fun (h, pb) -> [L (sx_of_hdr h); sx_hex pb]) (parse_header (hex_atom b)) | _ -> failwith "args");
  reg "payload_marshal" (function [p] -> guard_setter (fun () ->
      res_sx (fun b -> [sx_hex b]) (payload_marshal (payload_of_sx p))) | _ -> failwith "args");
  reg "payload_unmarshal" (function [ty; b] ->
      res_sx (fun p -> [sx_of_payload p]) (payload_unmarshal (n_atom ty) N0 (hex_atom b)) | _ -> failwith "args");
  reg "eap_marshal" (function [e] -> guard_setter (fun () ->
      res_sx (fun b -> [sx_hex b]) (eap_marshal (eap_of_sx e))) | _ -> failwith "args");
  reg "eap_unmarshal" (function [b] -> res_sx (fun e -> [sx_of_eap e]) (eap_unmarshal (hex_atom b)) | _ -> failwith "args");
  (* method-body decoders called directly: ty = 1, 2, 3 (simple), 50 (AKA'), 254 (expanded) *)
  reg "eapdata_unmarshal" (function [ty; b] ->
      let t = int_atom ty and b = hex_atom b in
      let r = match t with
        | 1 -> res_map (fun d -> EDIdentity d) (simple_unmarshal (n_of_int 1) b)
        | 2 -> res_map (fun d -> EDNotification d) (simple_unmarshal (n_of_int 2) b)
        | 3 -> res_map (fun d -> EDNak d) (simple_unmarshal (n_of_int 3) b)
        | 50 -> aka_unmarshal b
        | 254 -> expanded_unmarshal b
        | _ -> failwith "eapdata_unmarshal: type" in
      res_sx (fun d -> [sx_of_ed d]) r | _ -> failwith "args");
  (* SetAttr on an attribute map given in input form, then GetAttr of the same type *)
  reg "aka_set_get" (function [L (A "aka" :: st :: ats); ty; v] ->
      guard_setter (fun () ->
        match aka_of_sx st ats with
        | EDAka (_, _, attrs) ->
          (match aka_set_attr attrs (n_atom ty) (hex_atom v) with
           | Ok l -> (match aka_get l (n_atom ty) with
               | Ok a -> L [A "ok"; sx_hex a.at_val; sx_of_ed (EDAka (n_atom st, N0, l))]
               | _ -> A "get-failed")
           | _ -> A "err")
        | _ -> failwith "impossible") | _ -> failwith "args")

(* decode then encode inside the model (C12) *)
let () =
  reg "decode_encode" (function [b] ->
      (match decode (hex_atom b) with
       | Ok m -> L [A "decoded"; res_sx (fun o -> [sx_hex o]) (encode m)]
       | Err -> A "err" | Fault -> A "fault" | OutOfFuel -> A "outoffuel") | _ -> failwith "args");
  reg "eap_decode_encode" (function [b] ->
      (match eap_unmarshal (hex_atom b) with
       | Ok e -> L [A "decoded"; res_sx (fun o -> [sx_hex o]) (eap_marshal e)]
       | Err -> A "err" | Fault -> A "fault" | OutOfFuel -> A "outoffuel") | _ -> failwith "args")
