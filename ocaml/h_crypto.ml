open Model
open Dlib

let () =
  reg "ping" (fun _ -> A "pong");
  reg "hmac" (fun a -> match a with
    | [A alg; k; m] -> sx_hex (hmac (digest alg) (nat_of_int 64) (hex_atom k) (hex_atom m))
    | _ -> failwith "hmac args");
  reg "aka_prf" (fun a -> match a with
    | [ik; ck; id] ->
      res_sx (fun ((((a, b), c), d), e) -> [sx_hex a; sx_hex b; sx_hex c; sx_hex d; sx_hex e])
        (eap_aka_prime_prf sha256 (hex_atom ik) (hex_atom ck) (hex_atom id))
    | _ -> failwith "aka_prf args");
  (* the RFC-side reference: slices of PRF'(IK'|CK', "EAP-AKA'"|id) *)
  reg "spec_aka_prf" (fun a -> match a with
    | [ik; ck; id] ->
      let mk = stream (hmac sha256 (nat_of_int 64)) (hex_atom ik @ hex_atom ck) (eap_aka_label @ hex_atom id) (nat_of_int 7) in
      let sl i j = sx_hex (slice (nat_of_int i) (nat_of_int j) mk) in
      L [A "ok"; sl 0 16; sl 16 48; sl 48 80; sl 80 144; sl 144 208]
    | _ -> failwith "spec_aka_prf args")

