(* DH, registry / transform mapping, builders, AT_MAC *)
open Model
open Dlib
open H_codec
open H_sec

let z_of_n (v : n) : z = match v with N0 -> Z0 | Npos p -> Zpos p
let z_of_be (b : bytes) : z = z_of_n (be_val b)
let dh_of = function A "2" -> DH_1024_BIT_MODP | A "14" -> DH_2048_BIT_MODP | x -> failwith ("dh " ^ show x)
let sx_n_be (v : n) = sx_hex (be_min v)

let sx_of_algs a =
  L [A (match a.ia_dh with DH_1024_BIT_MODP -> "2" | DH_2048_BIT_MODP -> "14");
     A (match a.ia_encr with AES_CBC_128 -> "128" | AES_CBC_192 -> "192" | AES_CBC_256 -> "256");
     A (match a.ia_integ with AUTH_HMAC_MD5_96 -> "md5" | AUTH_HMAC_SHA1_96 -> "sha1" | AUTH_HMAC_SHA2_256_128 -> "sha256");
     A (match a.ia_prf with PRF_HMAC_MD5 -> "md5" | PRF_HMAC_SHA1 -> "sha1" | PRF_HMAC_SHA2_256 -> "sha256")]
let encr_name = function AES_CBC_128 -> "128" | AES_CBC_192 -> "192" | AES_CBC_256 -> "256"
let integ_name = function AUTH_HMAC_MD5_96 -> "md5" | AUTH_HMAC_SHA1_96 -> "sha1" | AUTH_HMAC_SHA2_256_128 -> "sha256"
let prf_name = function PRF_HMAC_MD5 -> "md5" | PRF_HMAC_SHA1 -> "sha1" | PRF_HMAC_SHA2_256 -> "sha256"
let dh_name = function DH_1024_BIT_MODP -> "2" | DH_2048_BIT_MODP -> "14"
let opt f = function None -> A "none" | Some x -> A (f x)

let bool_of x = int_atom x <> 0
let optn = function A "none" -> None | x -> Some (n_atom x)

let () =
  (* exponent and peer value travel as big-endian octet strings *)
  reg "dh_public" (function [g; x] -> res_sx (fun b -> [sx_hex b]) (dh_public (dh_of g) (z_of_be (hex_atom x))) | _ -> failwith "args");
  reg "dh_shared" (function [g; x; y] -> res_sx (fun b -> [sx_hex b]) (dh_shared (dh_of g) (z_of_be (hex_atom x)) (hex_atom y)) | _ -> failwith "args");
  reg "dh_prime" (function [g] -> (match dh_prime (dh_of g) with Zpos p -> sx_hex (be_min (Npos p)) | _ -> failwith "prime") | _ -> failwith "args");
  reg "gen_random" (function [r] ->
      let s = rnd_of r in
      let (res, s') = generate_random_number (nat_of_int (List.length s / 256 + 1)) s in
      L [res_sx (fun v -> [sx_n_be v]) res; rnd_left s'] | _ -> failwith "args");
  reg "dh_materials" (function [g; peer; r] ->
      let (res, s') = dh_materials (dh_of g) (hex_atom peer) (rnd_of r) in
      L [res_sx (fun (a, b) -> [sx_hex a; sx_hex b]) res; rnd_left s'] | _ -> failwith "args");
  (* registry: (decode kind <tr>) -> algorithm name or none *)
  reg "tr_decode" (function [A kind; t] ->
      let t = tr_of_sx t in
      (match kind with
       | "encr" | "encrk" -> opt encr_name (encr_decode t)
       | "integ" | "integk" -> opt integ_name (integ_decode t)
       | "prf" -> opt prf_name (prf_decode t)
       | "dh" -> opt dh_name (dh_decode t)
       | "esn" -> (match esn_decode t with None -> A "none" | Some b -> A (if b then "esn1" else "esn0"))
       | _ -> failwith "kind") | _ -> failwith "args");
  reg "to_transform" (function [A kind; A name] ->
      sx_of_tr (match kind with
          | "encr" | "encrk" -> encr_to_transform (encr_of (A name))
          | "integ" | "integk" -> integ_to_transform (integ_of (A name))
          | "prf" -> prf_to_transform (prf_of (A name))
          | "dh" -> dh_to_transform (dh_of (A name))
          | "esn" -> esn_to_transform (name = "esn1")
          | _ -> failwith "kind") | _ -> failwith "args");
  reg "alg_lengths" (function [A kind; A name] ->
      (match kind with
       | "encr" -> L [A (string_of_int (int_of_nat (encr_keylen (encr_of (A name)))))]
       | "integ" -> L [A (string_of_int (int_of_nat (integ_keylen (integ_of (A name))))); A (string_of_int (int_of_nat (integ_outlen (integ_of (A name)))))]
       | "prf" -> L [A (string_of_int (int_of_nat (prf_keylen (prf_of (A name))))); A (string_of_int (int_of_nat (prf_keylen (prf_of (A name)))))]
       | _ -> failwith "kind") | _ -> failwith "args");
  reg "ike_to_proposal" (function [d; e; i; p] ->
      sx_of_prop (ike_to_proposal { ia_dh = dh_of d; ia_encr = encr_of e; ia_integ = integ_of i; ia_prf = prf_of p }) | _ -> failwith "args");
  reg "ike_of_proposal" (function [p] -> res_sx (fun a -> [sx_of_algs a]) (ike_of_proposal (prop_of_sx p)) | _ -> failwith "args");
  reg "child_to_proposal" (function [d; e; i; s] ->
      sx_of_prop (child_to_proposal { ca_dh = (match d with A "none" -> None | x -> Some (dh_of x)); ca_encr = encr_of e;
                                      ca_integ = (match i with A "none" -> None | x -> Some (integ_of x)); ca_esn = bool_of s }) | _ -> failwith "args");
  reg "child_of_proposal" (function [p] ->
      res_sx (fun a -> [L [opt dh_name a.ca_dh; A (encr_name a.ca_encr); opt integ_name a.ca_integ; A (if a.ca_esn then "1" else "0")]])
        (child_of_proposal (prop_of_sx p)) | _ -> failwith "args");
  (* AT_MAC *)
  reg "at_mac" (function [e; key] ->
      guard_setter (fun () ->
        res_sx (fun (mac, e') -> [sx_hex mac; sx_of_eap e']) (calc_at_mac sha256 (eap_of_sx e) (hex_atom key))) | _ -> failwith "args");
  (* the RFC definition over the octets (Spec/AkaMac.v) *)
  reg "spec_at_mac" (function [w; key] -> L [sx_hex (zero_mac (hex_atom w)); sx_hex (at_mac_spec sha256 (hex_atom key) (hex_atom w))] | _ -> failwith "args");
  (* builders: (build <container payloads> (<builder> args...)) -> resulting container *)
  reg "new_message" (function [ispi; rspi; ex; resp; init; mid; L ps] ->
      let m = new_message (be8 ispi) (be8 rspi) (n_atom ex) (bool_of resp) (bool_of init) (n_atom mid) (List.map payload_of_sx ps) in
      L [sx_of_msg m; A (if is_response m.m_hdr then "1" else "0"); A (if is_initiator m.m_hdr then "1" else "0")] | _ -> failwith "args");
  reg "build" (function [L ps; L (A b :: args)] ->
      let c = List.map payload_of_sx ps in
      let out l = L [A "ok"; L (List.map sx_of_payload l)] in
      let outr = function Ok l -> out l | Err -> A "err" | Fault -> A "fault" | OutOfFuel -> A "outoffuel" in
      (match b, args with
       | "notification", [p; t; spi; d] -> out (build_notification c (n_atom p) (n_atom t) (hex_atom spi) (hex_atom d))
       | "certificate", [e; d] -> out (build_certificate c (n_atom e) (hex_atom d))
       | "encrypted", [nx; d] -> out (build_encrypted c (n_atom nx) (hex_atom d))
       | "keyexchange", [g; d] -> out (build_key_exchange c (n_atom g) (hex_atom d))
       | "idi", [t; d] -> out (build_idi c (n_atom t) (hex_atom d))
       | "idr", [t; d] -> out (build_idr c (n_atom t) (hex_atom d))
       | "auth", [t; d] -> out (build_auth c (n_atom t) (hex_atom d))
       | "configuration", [t] -> out (build_configuration c (n_atom t))
       | "nonce", [d] -> out (build_nonce c (hex_atom d))
       | "tsi", [] -> out (build_tsi c)
       | "tsr", [] -> out (build_tsr c)
       | "sa", [] -> out (build_sa c)
       | "delete", [p; sz; num; L spis] -> out (build_delete c (n_atom p) (n_atom sz) (n_atom num) (List.map n_atom spis))
       | "eap", [code; id] -> out (build_eap c (n_atom code) (n_atom id))
       | "eapsuccess", [id] -> out (build_eap_success c (n_atom id))
       | "eapfailure", [id] -> out (build_eap_failure c (n_atom id))
       | "eap5gstart", [id] -> out (build_eap5g_start c (n_atom id))
       | "eap5gnas", [id; nas] -> outr (build_eap5g_nas c (n_atom id) (hex_atom nas))
       | "qosinfo", [pdu; qfis; d; s; dscp] -> outr (build_notify_5g_qos_info c (n_atom pdu) (hex_atom qfis) (bool_of d) (bool_of s) (n_atom dscp))
       | "nasip4", [a] -> out (build_notify_nas_ip4 c (match a with A "none" -> None | x -> Some (hex_atom x)))
       | "upip4", [a] -> out (build_notify_up_ip4 c (match a with A "none" -> None | x -> Some (hex_atom x)))
       | "nastcpport", [p] -> out (build_notify_nas_tcp_port c (n_atom p))
       | _ -> failwith ("unknown builder " ^ b)) | _ -> failwith "args");
  (* sub-element builders *)
  reg "build_cp_attr" (function [L ats; t; v] ->
      let c = List.map (function L [A "a"; ty; vv] -> { ca_type = n_atom ty; ca_value = hex_atom vv } | _ -> failwith "a") ats in
      L (List.map (fun a -> L [A "a"; sx_n a.ca_type; sx_hex a.ca_value]) (build_cp_attr c (n_atom t) (hex_atom v))) | _ -> failwith "args");
  reg "build_selector" (function [L ss; ty; p; sp; ep; sa; ea] ->
      L (List.map sx_of_sel (build_selector (List.map sel_of_sx ss) (n_atom ty) (n_atom p) (n_atom sp) (n_atom ep) (hex_atom sa) (hex_atom ea))) | _ -> failwith "args");
  reg "build_proposal" (function [L ps; num; proto; spi] ->
      L (List.map sx_of_prop (build_proposal (List.map prop_of_sx ps) (n_atom num) (n_atom proto) (hex_atom spi))) | _ -> failwith "args");
  reg "build_transform" (function [L ts; ty; id; at; av; var] ->
      L (List.map sx_of_tr (build_transform (List.map tr_of_sx ts) (n_atom ty) (n_atom id) (optn at) (optn av) (hex_atom var))) | _ -> failwith "args")
