(* security/ and ike.go operations of the model; SA objects live in a table so that histories of
   operations act on one long-lived object, as in the implementation *)
open Model
open Dlib
open H_codec

let halg_digest (a : halg) (m : bytes) : bytes =
  match a with MD5 -> md5 m | SHA1 -> sha1 m | SHA256 -> sha256 m
let aes_block (dir : string) (key : bytes) (blk : bytes) : bytes =
  let h b = String.sub (hex_of_bytes b) 1 (2 * List.length b) in
  bytes_of_hex_raw (ask ("?" ^ dir ^ " " ^ h key ^ " " ^ h blk))
let aes_enc = aes_block "aesenc"
let aes_dec = aes_block "aesdec"

let encr_of = function A "128" -> AES_CBC_128 | A "192" -> AES_CBC_192 | A "256" -> AES_CBC_256 | x -> failwith ("encr " ^ show x)
let integ_of = function A "md5" -> AUTH_HMAC_MD5_96 | A "sha1" -> AUTH_HMAC_SHA1_96 | A "sha256" -> AUTH_HMAC_SHA2_256_128 | x -> failwith ("integ " ^ show x)
let prf_of = function A "md5" -> PRF_HMAC_MD5 | A "sha1" -> PRF_HMAC_SHA1 | A "sha256" -> PRF_HMAC_SHA2_256 | x -> failwith ("prf " ^ show x)
let role_of = function A "i" -> true | A "r" -> false | x -> failwith ("role " ^ show x)

(* (rnd xoctets failpos...) : positions (0-based, in the octet string) at which the read fails *)
let rnd_of = function
  | L (A "rnd" :: b :: fails) ->
    let fs = List.map int_atom fails in
    List.mapi (fun i x -> if List.mem i fs then None else Some x) (hex_atom b)
  | x -> failwith ("rnd " ^ show x)

let sas : (string, ikesa) Hashtbl.t = Hashtbl.create 16
let sa_get id = match Hashtbl.find_opt sas id with Some s -> s | None -> failwith ("no sa " ^ id)
let sa_opt = function A "nil" -> None | A id -> Some (sa_get id) | _ -> failwith "sa id"
let sa_put id = function Some s -> Hashtbl.replace sas id s | None -> ()

let keys_sx (s : ikesa) =
  [sx_hex s.sk_d; sx_hex s.sk_ai; sx_hex s.sk_ar; sx_hex s.sk_ei; sx_hex s.sk_er; sx_hex s.sk_pi; sx_hex s.sk_pr]
let calls_sx cs = L (A "calls" :: List.map (function CEnc i -> A (if i then "enc-i" else "enc-r") | CDec i -> A (if i then "dec-i" else "dec-r")) cs)
let rnd_left r = A (string_of_int (List.length r))

let () =
  reg "sa_keys" (function [A id; e; i; p; d; ai; ar; ei; er; pi; pr] ->
      Hashtbl.replace sas id (sa_of_keys (encr_of e) (integ_of i) (prf_of p) (hex_atom d) (hex_atom ai) (hex_atom ar)
                                (hex_atom ei) (hex_atom er) (hex_atom pi) (hex_atom pr)); A "ok"
                       | _ -> failwith "args");
  reg "gen_ikesa" (function [A id; e; i; p; nonce; secret; si; sr] ->
      let r = generate_key_for_ikesa halg_digest (encr_of e) (integ_of i) (prf_of p) (hex_atom nonce) (hex_atom secret) (be8 si) (be8 sr) in
      (match r with Ok s -> Hashtbl.replace sas id s | _ -> ());
      res_sx keys_sx r | _ -> failwith "args");
  (* outputs of the SA's ready-to-use objects on a probe input: prf_d, integ_i, integ_r, prf_i, prf_r, cipher key sizes *)
  reg "sa_probe" (function [A id; d] ->
      let s = sa_get id and d = hex_atom d in
      let pr o = sx_hex (ho_sum halg_digest (ho_write (ho_reset o) d) []) in
      L [A "ok"; pr s.sa_prf_d; pr s.sa_integ_i; pr s.sa_integ_r; pr s.sa_prf_i; pr s.sa_prf_r; sx_hex s.sa_encr_i; sx_hex s.sa_encr_r]
                        | _ -> failwith "args");
  reg "child" (function [A id; e; i; nonce] ->
      let io = (match i with A "none" -> None | x -> Some (integ_of x)) in
      let (r, s') = generate_key_for_childsa halg_digest (sa_get id) (encr_of e) io (hex_atom nonce) in
      Hashtbl.replace sas id s';
      res_sx (fun (((a, b), c), d) -> [sx_hex a; sx_hex b; sx_hex c; sx_hex d]) r | _ -> failwith "args");
  reg "prf_plus" (function [p; key; seed; n] ->
      let (r, _) = prf_plus_obj halg_digest (ho_new (prf_hash (prf_of p)) (hex_atom key)) (hex_atom seed) (nat_of_int (int_atom n)) in
      res_sx (fun b -> [sx_hex b]) r | _ -> failwith "args");
  (* RFC 7296 2.13 prf+: the first n octets of T1 | T2 | ... ; the block count comes from the PRF output size *)
  reg "spec_prf_plus" (function [p; key; seed; n] ->
      let a = prf_hash (prf_of p) in
      let hl = int_of_nat (hlen a) and n = int_atom n in
      let nb = (n + hl - 1) / hl in
      sx_hex (prf_plus (hmac (halg_digest a) (nat_of_int 64)) (hex_atom key) (hex_atom seed) (nat_of_int nb) (nat_of_int n))
                              | _ -> failwith "args");
  reg "new_crypto" (function [e; key] -> res_sx (fun k -> [sx_hex k]) (new_crypto (encr_of e) (hex_atom key)) | _ -> failwith "args");
  reg "aes_encrypt" (function [key; plain; r] ->
      let (res, r') = aes_encrypt aes_enc (hex_atom key) (hex_atom plain) (rnd_of r) in
      L [res_sx (fun b -> [sx_hex b]) res; rnd_left r'] | _ -> failwith "args");
  reg "aes_decrypt" (function [key; ct] -> res_sx (fun b -> [sx_hex b]) (aes_decrypt aes_dec (hex_atom key) (hex_atom ct)) | _ -> failwith "args");
  (* textbook CBC, for the independent-decryption instance of C10 / C06 *)
  reg "cbc_dec" (function [key; iv; body] ->
      let b = hex_atom body in sx_hex (cbc_dec (aes_dec (hex_atom key)) (nat_of_int (List.length b / 16)) (hex_atom iv) b) | _ -> failwith "args");
  reg "cbc_enc" (function [key; iv; body] ->
      let b = hex_atom body in sx_hex (cbc_enc (aes_enc (hex_atom key)) (nat_of_int (List.length b / 16)) (hex_atom iv) b) | _ -> failwith "args");
  reg "integrity" (function [A id; role; data] ->
      let (r, s') = calculate_integrity halg_digest (sa_get id) (role_of role) (hex_atom data) in
      Hashtbl.replace sas id s'; res_sx (fun b -> [sx_hex b]) r | _ -> failwith "args");
  reg "protect" (function [sa; role; m; r] ->
      guard_setter (fun () ->
        let ((res, k'), r') = encode_encrypt halg_digest aes_enc (msg_of_sx m) (sa_opt sa) (role_of role) (rnd_of r) in
        (match sa with A id when id <> "nil" -> sa_put id k' | _ -> ());
        L [res_sx (fun b -> [sx_hex b]) res; rnd_left r']) | _ -> failwith "args");
  (* (unprotect sa role xraw hdr) hdr: nohdr | parsed (header parsed from the same octets) | (hdr fields...) *)
  reg "unprotect" (function [sa; role; raw; hdr] ->
      let raw = hex_atom raw in
      let h = (match hdr with
          | A "nohdr" -> Ok None
          | A "parsed" -> (match parse_header raw with Ok (h, _) -> Ok (Some h) | Err -> Err | Fault -> Fault | OutOfFuel -> OutOfFuel)
          | L hf -> Ok (Some (hdr_of_sx hf))
          | _ -> failwith "hdr") in
      (match h with
       | Ok ho ->
         let ((res, k'), calls) = decode_decrypt halg_digest aes_dec raw ho (sa_opt sa) (role_of role) in
         (match sa with A id when id <> "nil" -> sa_put id k' | _ -> ());
         L [res_sx (fun m -> [sx_of_msg m]) res; calls_sx calls]
       | Err -> L [A "hdr-err"; calls_sx []] | _ -> L [A "hdr-fault"; calls_sx []]) | _ -> failwith "args")
