(* the independent RFC 7296 codec of Spec/Wire.v and Spec/WireParse.v *)
open Model
open Dlib
open H_codec

(* a small deterministic generator for the sender's liberties (input generation, not model code) *)
let lstate = ref 1
let lnext () = lstate := (!lstate * 1103515245 + 12345) land 0x3fffffff; (!lstate lsr 8)
let lint n = if n <= 0 then 0 else lnext () mod n
let lbyte zero = if zero then 0 else (if lint 3 = 0 then 0 else lint 256)
let lbytes zero n = List.init n (fun _ -> byte_of_int (lbyte zero))

let eap_of pkt = match eap_unmarshal pkt with Ok e -> Some e | _ -> None

(* random merge of the five transform groups, keeping the order inside each group *)
let merge_groups zero (gs : transform list list) : transform list =
  if zero then List.concat gs else begin
    let gs = ref (List.filter (fun g -> g <> []) gs) and out = ref [] in
    while !gs <> [] do
      let i = lint (List.length !gs) in
      let g = List.nth !gs i in
      out := List.hd g :: !out;
      gs := List.filter (fun g -> g <> []) (List.mapi (fun j g -> if j = i then List.tl g else g) !gs)
    done;
    List.rev !out
  end

exception Not_encodable of string

let decorate_transform zero (t : transform) : wtransform =
  let attrs =
    if not t.t_present then []
    else if int_of_n t.t_format = 0 then [WTLV (t.t_atype, t.t_var)] else [WTV (t.t_atype, t.t_aval)] in
  { wt_res1 = n_of_int (lbyte zero); wt_type = t.t_type; wt_res2 = n_of_int (lbyte zero); wt_id = t.t_id; wt_attrs = attrs }
let decorate_proposal zero (p : proposal) : wproposal =
  { wp_res = n_of_int (lbyte zero); wp_num = p.p_num; wp_proto = p.p_proto; wp_spi = p.p_spi;
    wp_transforms = List.map (decorate_transform zero) (merge_groups zero [p.p_encr; p.p_prf; p.p_integ; p.p_dh; p.p_esn]) }

let decorate_body zero (p : payload) : wbody =
  match p with
  | PSA ps -> WSA (List.map (decorate_proposal zero) ps)
  | PKE (g, d) -> WKE (g, lbytes zero 2, d)
  | PIDi (t, d) -> WID (true, t, lbytes zero 3, d)
  | PIDr (t, d) -> WID (false, t, lbytes zero 3, d)
  | PCERT (e, d) -> WCERT (e, d)
  | PCERTREQ (e, d) -> WCERTREQ (e, d)
  | PAUTH (m, d) -> WAUTH (m, lbytes zero 3, d)
  | PNonce d -> WNonce d
  | PNotify (a, b, c, d) -> WNotify (a, b, c, d)
  | PDelete (proto, sz, _, spis) ->
    WDelete (proto, sz, List.map (fun v -> if int_of_n sz = 0 then [] else be32 v) spis)
  | PVendor d -> WVendor d
  | PTSi s -> WTS (true, lbytes zero 3, s)
  | PTSr s -> WTS (false, lbytes zero 3, s)
  | PSK (_, d) -> WSK d
  | PCP (ct, ats) -> WCP (ct, lbytes zero 3, List.map (fun a -> { wca_r = n_of_int (if zero then 0 else lint 2); wca_type = a.ca_type; wca_value = a.ca_value }) ats)
  | PEAP e -> (match eap_marshal e with Ok b -> WEAP b | _ -> raise (Not_encodable "eap"))
let decorate_payload zero (p : payload) : wpayload =
  { wpl_critical = (not zero) && lint 3 = 0; wpl_res = n_of_int (if zero then 0 else (if lint 2 = 0 then 0 else lint 128)); wpl_body = decorate_body zero p }

let whdr (h : header) : wheader =
  { wh_ispi = h.h_ispi; wh_rspi = h.h_rspi; wh_major = h.h_major; wh_minor = h.h_minor; wh_exch = h.h_exch; wh_flags = h.h_flags; wh_mid = h.h_mid }

let () =
  (* (spec_encode <msg> seed zero) : octets an independent sender emits for the message; zero=1: all reserved fields zero *)
  reg "spec_encode" (function [m; seed; zero] ->
      guard_setter (fun () ->
        lstate := int_atom seed + 1;
        let m = msg_of_sx m and zero = int_atom zero <> 0 in
        try
          let ps = List.map (decorate_payload zero) m.m_payloads in
          let sk_next = (match List.rev m.m_payloads with PSK (nx, _) :: _ -> nx | _ -> N0) in
          L [A "ok"; sx_hex (wenc { wm_hdr = whdr m.m_hdr; wm_payloads = ps; wm_sk_next = sk_next })]
        with Not_encodable _ -> A "err") | _ -> failwith "args");
  (* membership in the domain the round-trip theorems quantify over (Thm/DomainB.dom_msgb, proved sound) *)
  reg "in_domain" (function [m] -> guard_setter (fun () -> A (if dom_msgb (msg_of_sx m) then "1" else "0")) | _ -> failwith "args");
  (* (spec_parse xoctets) : strict parse; (ok canonical <msg>) | reject *)
  reg "spec_parse" (function [b] ->
      (match wparse (hex_atom b) with
       | None -> A "reject"
       | Some w ->
         (match erase_chain eap_of w.wm_sk_next w.wm_payloads with
          | None -> A "reject-eap"
          | Some ps ->
            let h = w.wm_hdr in
            let first = (match w.wm_payloads with p :: _ -> wtype p.wpl_body | [] -> N0) in
            let m = { m_hdr = { h_ispi = h.wh_ispi; h_rspi = h.wh_rspi; h_major = h.wh_major; h_minor = h.wh_minor; h_exch = h.wh_exch;
                                h_flags = h.wh_flags; h_mid = h.wh_mid; h_next = first }; m_payloads = ps } in
            L [A "ok"; A (if List.for_all canonical_payload w.wm_payloads then "canonical" else "liberties"); sx_of_msg m])) | _ -> failwith "args")
