open Model
open Dlib

let () =
  (* self-check of the Obj.magic octet conversion *)
  for i = 0 to 255 do
    if int_of_n (b2n (byte_of_int i)) <> i then (prerr_endline "byte conversion self-check failed"; exit 3)
  done;
  try
    while true do
      let line = input_line stdin in
      if String.length line > 0 then begin
        let out =
          try
            match parse line with
            | L (A op :: args) ->
              (match Hashtbl.find_opt handlers op with
               | Some f -> show (f args)
               | None -> "!unknown-op " ^ op)
            | _ -> "!bad-request"
          with
          | Failure m -> "!failure " ^ m
          | Stack_overflow -> "!stack-overflow"
          | Not_found -> "!not-found" in
        print_string out; print_char '\n'; flush stdout
      end
    done
  with End_of_file -> ()
