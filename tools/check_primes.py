#!/usr/bin/env python3
"""Independent derivation of the MODP primes of RFC 2409 (group 2) and RFC 3526 (group 14) from the
formula the RFCs give,  p = 2^n - 2^(n-64) - 1 + 2^64 * (floor(2^(n-130) * pi) + c),
compared with the constants of coq/theories/Spec/Modp.v.  Needs mpmath (tooling venv: python3-vt)."""
import re, sys, os
from mpmath import mp, floor, pi, mpf
mp.prec = 4000
def p(n, c): return 2**n - 2**(n-64) - 1 + 2**64 * (int(floor(mpf(2)**(n-130) * pi)) + c)
src = open(os.path.join(os.path.dirname(__file__), "..", "coq", "theories", "Spec", "Modp.v")).read()
ok = True
for name, n, c in (("rfc2409_group2_p", 1024, 129093), ("rfc3526_group14_p", 2048, 124476)):
    m = re.search(r"Definition %s : Z :=\s*0x([0-9A-Fa-f]+)" % name, src)
    good = m is not None and int(m.group(1), 16) == p(n, c)
    print(name, "matches the RFC formula" if good else "DIFFERS from the RFC formula")
    ok = ok and good
for name, k in (("pi_floor_894", 894), ("pi_floor_1918", 1918)):
    m = re.search(r"Definition %s : Z :=\s*0x([0-9A-Fa-f]+)" % name, src)
    good = m is not None and int(m.group(1), 16) == int(floor(mpf(2)**k * pi))
    print(name, "is floor(2^%d pi)" % k if good else "is NOT floor(2^%d pi)" % k)
    ok = ok and good
sys.exit(0 if ok else 1)
