#!/bin/sh
# tools/confirm_seed.sh <ID> : in the scratch worktree /tmp/mut/<ID> confirm that (1) the suite passes with the change,
# (2) the demo fails with the change, (3) the demo passes without it; then store the artefacts under seeded/<ID>/.
set -u
id=$1; wt=/tmp/mut/$id; low=$(echo $id | tr 'A-Z' 'a-z')
export GOFLAGS=-mod=mod GOPROXY=off GOSUMDB=off GOTOOLCHAIN=local
cd $wt || exit 2
demo=$(git status --short | grep '^??' | awk '{print $2}' | grep -i "demo_${low}" | head -1)
[ -z "$demo" ] && { echo "$id: no demo found"; exit 2; }
pkgdir=$(dirname $demo)
git stash -q -u 2>/dev/null; git checkout -q -- . ; git stash pop -q 2>/dev/null
git checkout -q -- . 2>/dev/null
git apply /tmp/mut/$id.patch.diff || { echo "$id: patch does not apply"; exit 2; }
mv $demo /tmp/mut/$id.demo.keep
suite=$(go build ./... 2>&1 && go test -count=1 ./... 2>&1 | grep -c "^FAIL\|^---")
mv /tmp/mut/$id.demo.keep $demo
with=$(go test -count=1 ./$pkgdir 2>&1 | grep -c "^--- FAIL\|^FAIL")
git apply -R /tmp/mut/$id.patch.diff
without=$(go test -count=1 ./$pkgdir 2>&1 | grep -c "^--- FAIL\|^FAIL")
echo "$id: suite-failures-with-change=$suite demo-fail-lines-with=$with demo-fail-lines-without=$without demo=$demo"
if [ "$suite" = "0" ] && [ "$with" != "0" ] && [ "$without" = "0" ]; then
  mkdir -p /verif/seeded/$id && cp /tmp/mut/$id.patch.diff /verif/seeded/$id/patch.diff && cp $demo /verif/seeded/$id/$(basename $demo) && echo "$demo" > /verif/seeded/$id/demo_path.txt && echo "  stored"
fi
