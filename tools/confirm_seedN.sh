#!/bin/sh
# tools/confirm_seedN.sh <round> <ID> : round-N seeded change in the scratch worktree /tmp/mut$rnd/<ID>: confirm that (1) the suite
# passes with the change, (2) the demo fails with the change, (3) the demo passes without it; store under seeded/R2-<ID>/.
set -u
rnd=$1; shift; id=$1; wt=/tmp/mut$rnd/$id; low=$(echo $id | tr 'A-Z' 'a-z')
export GOFLAGS=-mod=mod GOPROXY=off GOSUMDB=off GOTOOLCHAIN=local
cd $wt || exit 2
demo=$(git status --short | grep '^??' | awk '{print $2}' | grep -i "demo_${low}" | head -1)
[ -z "$demo" ] && { echo "$id: no demo found"; exit 2; }
pkgdir=$(dirname $demo)
git checkout -q -- . 2>/dev/null
git apply /tmp/mut$rnd/$id.patch.diff || { echo "$id: patch does not apply"; exit 2; }
mv $demo /tmp/mut$rnd/$id.demo.keep
suite=$(go build ./... 2>&1 && go test -count=1 ./... 2>&1 | grep -c "^FAIL\|^---")
mv /tmp/mut$rnd/$id.demo.keep $demo
with=$(go test -count=1 ./$pkgdir 2>&1 | grep -c "^--- FAIL\|^FAIL")
git apply -R /tmp/mut$rnd/$id.patch.diff
without=$(go test -count=1 ./$pkgdir 2>&1 | grep -c "^--- FAIL\|^FAIL")
echo "$id: suite-failures-with-change=$suite demo-fail-lines-with=$with demo-fail-lines-without=$without demo=$demo"
if [ "$suite" = "0" ] && [ "$with" != "0" ] && [ "$without" = "0" ]; then
  d=/verif/seeded/R$rnd-$id
  mkdir -p $d && cp /tmp/mut$rnd/$id.patch.diff $d/patch.diff && cp $demo $d/$(basename $demo) && echo "$demo" > $d/demo_path.txt && echo "  stored in $d"
fi
