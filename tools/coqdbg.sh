#!/bin/sh
# tools/coqdbg.sh <file.v relative to coq/> <line> : show the goals just before <line> (debug helper)
cd /verif/coq || exit 2
f=$1; n=$2; d=$(dirname $f); b=$(basename $f .v)
awk -v n=$n 'NR==n{print "Show."} {print}' $f > $d/${b}_dbg.v
coqc -Q theories IKE -Q gen IKEGen $d/${b}_dbg.v 2>&1 | grep -v "^Warning\|Closed under" | head -${3:-60}
rm -f $d/${b}_dbg.* $d/.${b}_dbg.aux
