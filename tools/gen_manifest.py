#!/usr/bin/env python3
"""Regenerates MANIFEST.json from the table below; a property is claimed when coq/theories/Props/<ID>.v exists."""
import json, os
ROOT = os.path.dirname(os.path.dirname(os.path.abspath(__file__)))
T = {
 "C01": ("Coq theorem: protect then unprotect in the opposite role returns the message, for all D-messages, suites (generic), keys, roles, IV/padding scripts; no-key path = plain codec", "Coq proof (CBC inverse + codec round trip + MAC determinism) + differential correspondence with scripted randomness"),
 "C02": ("Coq theorems for every byte string: every outcome of an unprotection (refused | handled as a non-SK datagram | cipher reached only with a valid tag under the peer-direction key), wrong or short checksum refused before the cipher, reflection / cross-key acceptance only on HMAC coincidence, no crash; rejection of modified covered octets reduces to HMAC forgery (not provable)", "Coq proof (reduction, verify-before-decrypt, no-Fault) + tampering correspondence with a spy cipher"),
 "C03": ("Coq theorem: decode (encode m) = m on the encodable domain (via Impl = Spec on canonical trees and the liberty-general decoder lemma)", "Coq proof by induction over payload chain and nested lists + differential correspondence"),
 "C04": ("Coq theorems: every decoder and unprotection is neither Fault nor OutOfFuel for every byte string", "Coq proof (symbolic execution of each decoder, induction on fuel) + exhaustive boundary sweeps with exact/spare capacity"),
 "C05": ("Coq theorems against the independent RFC 7296 codec of Spec/: encode m = wenc (canon m); decode (wenc w) = erase w for every liberty", "Coq proof (refinement to an independent spec codec) + both directions run through the extracted Spec"),
 "C06": ("Coq theorem: protected octets = RFC 7296 3.14 construction; reference-built messages with any legal padding accepted", "Coq proof + octet-exact comparison with a reference construction (Go crypto/hmac, textbook CBC)"),
 "C07": ("Coq theorem: the seven keys are the slices of prf+(SKEYSEED, Ni|Nr|SPIi|SPIr) for all 27 suites (generic), objects keyed with them; DH agreement", "Coq proof (stateful PrfPlus = RFC prf+) + differential correspondence"),
 "C08": ("Coq theorems: Child SA keys are slices of prf+(SK_d, Ni|Nr); identical after any history of derivations", "Coq proof (invariant over operation histories) + histories on one Go object"),
 "C09": ("Coq theorems: primes = RFC formula, g^x mod p with fixed length for all x, agreement, exponent range and provenance", "Coq proof + source constants regenerated into Coq + correspondence with scripted random source"),
 "C10": ("Coq theorems: decrypt . encrypt = id, size law, textbook CBC layout, IV = next source octets, failing source => error, total decryption, key size, call sequences on one object (successive disjoint source windows, earlier ciphertexts stay valid)", "Coq proof over an abstract block cipher + differential correspondence incl. all 256 pad octets"),
 "C11": ("Coq theorems: to/decode transform inverse, soundness for all 2^16 identifiers and attribute shapes, RFC lengths, proposals", "Coq proof by case analysis + exhaustive identifier sweep against the implementation"),
 "C12": ("Coq theorem for every octet string: decode b = Ok m and encode m = Ok b' imply decode b' = Ok (norm m) and encode (norm m) = Ok b' (image lemma: the decoder's output, when re-encodable, lies in the round-trip domain; then the general round trip); canonical datagrams re-encode byte-identically", "Coq proof (image lemma over every payload decoder + general round trip) + accepted mutations / sweeps, domain decision evaluated on every accepted input as a cross-check"),
 "C13": ("Coq theorem: chains with unsupported payloads decode as without them iff none is critical, at any positions", "Coq proof by induction over the chain + exhaustive type-code sweep"),
 "C14": ("Coq theorems: EAP round trip, framing, get . set, setter size rules for all sizes, map-order independence of Marshal", "Coq proof + differential correspondence with full observation of EAP-AKA' state"),
 "C15": ("Coq theorems: code = trunc16 HMAC over the wire form with AT_MAC zeroed, independent of the old value; receiver agreement for canonical packets (partial: non-canonical packets are a known finding)", "Coq proof + correspondence; known finding for re-serialised non-canonical packets"),
 "C16": ("Coq theorem for all keys and identities over the Impl model of EapAkaPrimePRF, parametric in SHA-256", "Coq proof (unrolled PRF' loop = RFC stream) + differential correspondence"),
 "C17": ("Coq theorem: after any operation history every operation of the SA state machine gives the result of a fresh SA with the same keys", "Coq proof (key-equivalence invariant over histories) + histories on one Go object vs model vs fresh object"),
 "C18": ("partial: Coq frame theorem (disjoint footprints => every interleaving equals solo runs) + source footprint regenerated from /repo; data races themselves are exhibited only by the race-detector stress run", "Coq frame theorem over interleavings + srcfacts footprint + race-detector stress (supporting)"),
 "C19": ("Coq theorems: header constructor and every builder append exactly the specified payload; TS 24.502 layouts; oversize => error", "Coq proof (computation on the builder model) + differential correspondence against argument-derived expectations"),
 "C20": ("partial: Coq theorem that fresh-provenance fields are invariant under writes to the input; copy/view facts regenerated from the source; exact alias observation in the harness", "Coq provenance theorem + srcfacts ownership facts + address-range alias observation"),
}
checks, na = [], []
for pid in sorted(T):
    text, tech = T[pid]
    if os.path.exists(os.path.join(ROOT, "coq", "theories", "Props", pid + ".v")):
        checks.append({"property_id": pid, "quick_cmd": "bin/check %s quick" % pid, "thorough_cmd": "bin/check %s thorough" % pid,
                       "evidence_file": "evidence/%s.json" % pid, "replay_cmd_template": "bin/check %s quick --replay {path}" % pid,
                       "engine": "coq", "level_claimed": {"category": "proof", "text": text, "design_ref": "DESIGN.md section 6, " + pid},
                       "level_note": "trusted: Coq 8.16.1 kernel; primitives (digests, AES block) as parameters with the stated hypotheses; Impl is a hand transcription tied by the correspondence check (extraction with ExtrOcamlBasic only) and by source facts regenerated from /repo; see DESIGN.md section 8",
                       "technique": tech})
    else:
        na.append({"property_id": pid, "reason": "not yet claimed: the correspondence runner exists (harness/), the theorems of Props/%s.v are still being proved in this session" % pid})
claimed = [c["property_id"] for c in checks]
m = {"version": 1, "setup_cmd": "bin/setup",
     "hooks": {"guard": "verif", "enable": "go build -tags verif (the harness module /verif/harness replaces github.com/free5gc/ike by /repo; hook file eap/verif_hooks.go)",
               "baseline_off_cmd": "cd /repo && GOFLAGS=-mod=mod GOPROXY=off GOSUMDB=off GOTOOLCHAIN=local go test -vet=off -count=1 ./...",
               "source_commits": ["22de5e4"], "add_only": True},
     "engines": [{"name": "coq", "path": "coq/", "serves_properties": claimed, "kind_free_text": "Coq 8.16.1 development: Lib, Prim, Impl (model of the Go code), Spec (RFC-written), Thm, Props (one file per property)"},
                 {"name": "correspondence", "path": "harness/", "serves_properties": claimed, "kind_free_text": "Go harness linking /repo's working tree, compared with the OCaml extraction of the Coq model (ocaml/), primitives answered by Go's standard library"},
                 {"name": "srcfacts", "path": "tools/srcfacts/", "serves_properties": [p for p in claimed if p in ("C03", "C05", "C07", "C08", "C09", "C11", "C12", "C13", "C14", "C15", "C18", "C19", "C20")], "kind_free_text": "go/ast + go/types translator regenerating constants, primes, registry tables, global-write footprint and ownership facts into coq/gen/SrcFacts.v on every run; coq/gen/Agree*.v prove them equal to the model's / sufficient for the frame and ownership theorems"}],
     "checks": checks, "not_applicable": na,
     "notes": "bin/check <ID> quick|thorough; VERIF_SEED honoured; replays under replays/; known findings in known_findings.txt"}
json.dump(m, open(os.path.join(ROOT, "MANIFEST.json"), "w"), indent=1)
print("claimed:", " ".join(claimed))
