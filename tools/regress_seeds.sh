#!/bin/sh
# tools/regress_seeds.sh : every stored seeded change (seeded/*/patch.diff) against the quick check of its property.
# Applies each patch to /repo temporarily (git apply ... git checkout -- .); /repo must be clean; takes about 45 minutes.
# Prints one line per seed: DETECTED (failing input), NOINPUT (VIOLATION ... no-failing-input-found) or MISSED.
# Afterwards re-run the quick checks on the clean tree before committing evidence/*.json.
cd /verif || exit 2
for d in seeded/*/; do
  n=$(basename $d); id=$(echo $n | sed 's/^R[0-9]-//')
  out=$(tools/try_seed.sh $id /verif/$d/patch.diff $id 2>&1 | tail -1)
  case "$out" in
    *no-failing-input-found*) echo "$n NOINPUT";;
    *VIOLATION*) echo "$n DETECTED";;
    *) echo "$n MISSED: $out";;
  esac
done
echo finished
