#!/bin/sh
# tools/regress_seeds.sh : every stored seeded change (seeded/*/patch.diff) against the quick check of its property.
# Applies each patch to /repo temporarily (git apply ... git checkout -- .); /repo must be clean; takes about 45 minutes.
# Prints one line per seed: DETECTED (failing input), NOINPUT (VIOLATION ... no-failing-input-found) or MISSED.
# Afterwards re-run the quick checks on the clean tree before committing evidence/*.json.
cd /verif || exit 2
for d in seeded/*/; do
  n=$(basename $d); id=$(echo $n | sed 's/^R[0-9]-//')
  case "$n" in harmless-*)
    # behaviour-preserving rewrites: every check named in meta.json "observed" must stay quiet
    ids=$(python3 -c "import json,re;print(' '.join(re.findall(r'C\d\d',json.load(open('$d/meta.json'))['observed'])))")
    out=$(tools/try_seed.sh C01 /verif/$d/patch.diff $ids 2>&1 | grep -c VIOLATION)
    [ "$out" = "0" ] && echo "$n QUIET ($ids)" || echo "$n FALSE-ALARM: $out check(s) of ($ids) report a violation"
    continue;;
  esac
  out=$(tools/try_seed.sh $id /verif/$d/patch.diff $id 2>&1 | tail -1)
  case "$out" in
    *no-failing-input-found*) echo "$n NOINPUT";;
    *VIOLATION*) echo "$n DETECTED";;
    *) echo "$n MISSED: $out";;
  esac
done
echo finished
