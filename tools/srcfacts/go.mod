module srcfacts

go 1.21
