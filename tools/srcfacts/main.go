// srcfacts: reads free5gc/ike's non-test source (go/parser + go/types, source importer, offline) and writes the facts
// the Coq development is tied to as Gallina definitions (coq/gen/SrcFacts.v).  coq/gen/SrcAgree.v then proves that
// these facts equal the model's tables / satisfy the footprint and ownership conditions the theorems of C09, C11,
// C18 and C20 start from.  Run with the repository as working directory:  srcfacts <repo> <out.v>
//
// Facts:
//
//	src_consts         every package-level integer constant                              (name, value)
//	src_strconsts      every package-level string constant up to 64 octets               (name, value)
//	src_hexconsts      every longer string constant that is a hexadecimal numeral        (name, value as Z)
//	src_registry       stores  m[k] = &T{f: c, ...} / T{...} / funcname  in init()       (map, key, type-or-func, fields)
//	src_global_uses    every use of a package-level variable that is not a plain read    (var, func, kind, detail)
//	                   kind: write | addr | method | arg | range-write
//	src_field_writes   assignments through a receiver / pointer parameter                (func, path, how)
//	src_slice_flows    where octets of a []byte parameter can end up                     (func, target, kind)
//	                   kind: view (a field / returned value aliases the parameter) | param-write (writes through it)
//	                         | copy (field receives a copy: append(field, p...) or make+copy)
package main

import (
	"bytes"
	"crypto/sha256"
	"encoding/json"
	"fmt"
	"go/ast"
	"go/constant"
	"go/importer"
	"go/parser"
	"go/printer"
	"go/token"
	"go/types"
	"math/big"
	"os"
	"path/filepath"
	"sort"
	"strconv"
	"strings"
)

type rec []string

var (
	fset        = token.NewFileSet()
	consts      []rec
	strconsts   []rec
	hexconsts   []rec
	registry    []rec
	globalUses  []rec
	fieldWrites []rec
	sliceFlows  []rec
	dispatch    []rec
	ourPkgs     = map[*types.Package]bool{}
)

func fatal(f string, a ...interface{}) {
	fmt.Fprintf(os.Stderr, "srcfacts: "+f+"\n", a...)
	os.Exit(2)
}

func hasVerifTag(f *ast.File) bool {
	for _, cg := range f.Comments {
		if cg.Pos() > f.Package {
			break
		}
		for _, c := range cg.List {
			if strings.HasPrefix(c.Text, "//go:build") && strings.Contains(c.Text, "verif") {
				return true
			}
		}
	}
	return false
}

type pkgInfo struct {
	dir   string
	name  string
	files []*ast.File
	pkg   *types.Package
	info  *types.Info
}

func main() {
	if len(os.Args) != 3 && len(os.Args) != 4 {
		fatal("usage: srcfacts <repo> <out.v> [dict.json]")
	}
	root, _ := filepath.Abs(os.Args[1])
	dirs := map[string]*pkgInfo{}
	err := filepath.Walk(root, func(p string, fi os.FileInfo, err error) error {
		if err != nil {
			return err
		}
		if fi.IsDir() {
			if strings.HasPrefix(fi.Name(), ".") && p != root {
				return filepath.SkipDir
			}
			return nil
		}
		if !strings.HasSuffix(p, ".go") || strings.HasSuffix(p, "_test.go") {
			return nil
		}
		f, err := parser.ParseFile(fset, p, nil, parser.ParseComments)
		if err != nil {
			return err
		}
		if hasVerifTag(f) { // instrumentation behind the verif tag is not part of the library
			return nil
		}
		d := filepath.Dir(p)
		if dirs[d] == nil {
			dirs[d] = &pkgInfo{dir: d}
		}
		dirs[d].files = append(dirs[d].files, f)
		return nil
	})
	if err != nil {
		fatal("parse: %v", err)
	}
	imp := importer.ForCompiler(fset, "source", nil)
	var pis []*pkgInfo
	for _, pi := range dirs {
		pis = append(pis, pi)
	}
	sort.Slice(pis, func(i, j int) bool { return pis[i].dir < pis[j].dir })
	for _, pi := range pis {
		conf := types.Config{Importer: imp}
		pi.info = &types.Info{Uses: map[*ast.Ident]types.Object{}, Defs: map[*ast.Ident]types.Object{},
			Types: map[ast.Expr]types.TypeAndValue{}, Selections: map[*ast.SelectorExpr]*types.Selection{}}
		rel, _ := filepath.Rel(root, pi.dir)
		path := "github.com/free5gc/ike"
		if rel != "." {
			path += "/" + filepath.ToSlash(rel)
		}
		pkg, err := conf.Check(path, fset, pi.files, pi.info)
		if err != nil {
			fatal("type check %s: %v", pi.dir, err)
		}
		pi.pkg = pkg
		pi.name = pkg.Name()
		if rel != "." {
			pi.name = filepath.ToSlash(rel)
		}
		ourPkgs[pkg] = true
	}
	for _, pi := range pis {
		collectConsts(pi)
		for _, f := range pi.files {
			for _, d := range f.Decls {
				if fd, ok := d.(*ast.FuncDecl); ok && fd.Body != nil {
					fn := funcName(pi, fd)
					if fd.Name.Name == "init" && fd.Recv == nil {
						collectRegistry(pi, fd)
					}
					collectGlobalUses(pi, fd, fn)
					collectFieldWrites(pi, fd, fn)
					collectDict(pi, fd, fn)
					collectDispatch(pi, fd, fn)
				}
			}
		}
	}
	collectSliceFlows(pis)
	write(os.Args[2])
	if len(os.Args) == 4 {
		writeDict(os.Args[3])
	}
}

// ---------------------------------------------------------------- dispatch tables
// (a) every method named Type whose body is `return <constant>`: (receiver type, "type-code", value)
// (b) every switch whose case labels are constants and whose clause instantiates a type (new(T), &T{}, NewT()):
//
//	(function, constant value, instantiated type / constructor)
func collectDispatch(pi *pkgInfo, fd *ast.FuncDecl, fn string) {
	if fd.Name.Name == "Type" && fd.Recv != nil && len(fd.Body.List) == 1 {
		if rs, ok := fd.Body.List[0].(*ast.ReturnStmt); ok && len(rs.Results) == 1 {
			if tv, ok := pi.info.Types[rs.Results[0]]; ok && tv.Value != nil && tv.Value.Kind() == constant.Int {
				dispatch = append(dispatch, rec{strings.TrimSuffix(fn, ".Type"), "type-code", tv.Value.ExactString()})
			}
		}
	}
	ast.Inspect(fd.Body, func(n ast.Node) bool {
		sw, ok := n.(*ast.SwitchStmt)
		if !ok {
			return true
		}
		for _, st := range sw.Body.List {
			cc := st.(*ast.CaseClause)
			var made string
			for _, bs := range cc.Body {
				ast.Inspect(bs, func(m ast.Node) bool {
					if made != "" {
						return false
					}
					switch x := m.(type) {
					case *ast.CallExpr:
						if id, ok := x.Fun.(*ast.Ident); ok {
							if id.Name == "new" && len(x.Args) == 1 {
								made = exprText(x.Args[0])
							} else if strings.HasPrefix(id.Name, "New") {
								made = id.Name + "()"
							}
						}
					case *ast.UnaryExpr:
						if cl, ok := x.X.(*ast.CompositeLit); ok && x.Op == token.AND && cl.Type != nil {
							made = exprText(cl.Type)
						}
					}
					return true
				})
			}
			if made == "" {
				continue
			}
			for _, e := range cc.List {
				if tv, ok := pi.info.Types[e]; ok && tv.Value != nil && tv.Value.Kind() == constant.Int {
					dispatch = append(dispatch, rec{fn, tv.Value.ExactString(), made})
				}
			}
		}
		return true
	})
}

// ---------------------------------------------------------------- per-function fingerprints and literals
// Not facts about the model: material for the SEARCH.  The harness compares the fingerprints with those recorded for
// the tree the model was transcribed from (tools/srcfacts/baseline.json); the literals of functions that changed since
// then are used as a dictionary by the input generators (sizes, identifiers, strings), like a fuzzer's dictionary.
type fnDict struct {
	Fingerprint string   `json:"fingerprint"`
	Strings     []string `json:"strings"`
	Ints        []int64  `json:"ints"`
}

var dict = map[string]*fnDict{}

func collectDict(pi *pkgInfo, fd *ast.FuncDecl, fn string) {
	var buf bytes.Buffer
	_ = printer.Fprint(&buf, token.NewFileSet(), fd) // positions dropped: formatting / comments do not matter
	sum := sha256.Sum256(buf.Bytes())
	d := &fnDict{Fingerprint: fmt.Sprintf("%x", sum[:8])}
	seenS, seenI := map[string]bool{}, map[int64]bool{}
	ast.Inspect(fd, func(n ast.Node) bool {
		e, ok := n.(ast.Expr)
		if !ok {
			return true
		}
		tv, ok := pi.info.Types[e]
		if !ok || tv.Value == nil {
			return true
		}
		switch tv.Value.Kind() {
		case constant.String:
			v := constant.StringVal(tv.Value)
			if len(v) > 0 && len(v) <= 40 && !seenS[v] {
				seenS[v] = true
				d.Strings = append(d.Strings, v)
			}
		case constant.Int:
			if v, exact := constant.Int64Val(tv.Value); exact && !seenI[v] && v >= 0 && v <= 1<<32 {
				seenI[v] = true
				d.Ints = append(d.Ints, v)
			}
		}
		return true
	})
	sort.Strings(d.Strings)
	sort.Slice(d.Ints, func(i, j int) bool { return d.Ints[i] < d.Ints[j] })
	dict[fn] = d
}

func writeDict(path string) {
	b, _ := json.MarshalIndent(dict, "", " ")
	if err := os.WriteFile(path, b, 0o644); err != nil {
		fatal("%v", err)
	}
	_ = strconv.Itoa
}

func funcName(pi *pkgInfo, fd *ast.FuncDecl) string {
	n := fd.Name.Name
	if fd.Recv != nil && len(fd.Recv.List) > 0 {
		t := fd.Recv.List[0].Type
		if s, ok := t.(*ast.StarExpr); ok {
			t = s.X
		}
		if id, ok := t.(*ast.Ident); ok {
			n = id.Name + "." + n
		}
	}
	return pi.name + "." + n
}

// ---------------------------------------------------------------- constants
func collectConsts(pi *pkgInfo) {
	sc := pi.pkg.Scope()
	for _, n := range sc.Names() {
		c, ok := sc.Lookup(n).(*types.Const)
		if !ok {
			continue
		}
		name := pi.name + "." + n
		v := c.Val()
		switch v.Kind() {
		case constant.Int:
			consts = append(consts, rec{name, v.ExactString()})
		case constant.String:
			s := constant.StringVal(v)
			if len(s) <= 64 {
				strconsts = append(strconsts, rec{name, s})
			} else if z, ok := new(big.Int).SetString(s, 16); ok {
				hexconsts = append(hexconsts, rec{name, z.String()})
			}
		}
	}
}

// ---------------------------------------------------------------- registries
func constText(pi *pkgInfo, e ast.Expr) string {
	if tv, ok := pi.info.Types[e]; ok && tv.Value != nil {
		if tv.Value.Kind() == constant.String {
			return constant.StringVal(tv.Value)
		}
		return tv.Value.ExactString()
	}
	return exprText(e)
}

func exprText(e ast.Expr) string {
	switch x := e.(type) {
	case *ast.Ident:
		return x.Name
	case *ast.SelectorExpr:
		return exprText(x.X) + "." + x.Sel.Name
	case *ast.CallExpr:
		var as []string
		for _, a := range x.Args {
			as = append(as, exprText(a))
		}
		return exprText(x.Fun) + "(" + strings.Join(as, ",") + ")"
	case *ast.BasicLit:
		return x.Value
	case *ast.StarExpr:
		return "*" + exprText(x.X)
	case *ast.UnaryExpr:
		return x.Op.String() + exprText(x.X)
	case *ast.IndexExpr:
		return exprText(x.X) + "[" + exprText(x.Index) + "]"
	case *ast.SliceExpr:
		s := exprText(x.X) + "["
		if x.Low != nil {
			s += exprText(x.Low)
		}
		s += ":"
		if x.High != nil {
			s += exprText(x.High)
		}
		return s + "]"
	case *ast.ParenExpr:
		return "(" + exprText(x.X) + ")"
	case *ast.CompositeLit:
		if x.Type != nil {
			return exprText(x.Type) + "{..}"
		}
		return "{..}"
	case *ast.ArrayType:
		return "[]" + exprText(x.Elt)
	case *ast.BinaryExpr:
		return exprText(x.X) + x.Op.String() + exprText(x.Y)
	case *ast.TypeAssertExpr:
		return exprText(x.X) + ".(T)"
	}
	return fmt.Sprintf("<%T>", e)
}

func collectRegistry(pi *pkgInfo, fd *ast.FuncDecl) {
	ast.Inspect(fd.Body, func(n ast.Node) bool {
		as, ok := n.(*ast.AssignStmt)
		if !ok || len(as.Lhs) != 1 || len(as.Rhs) != 1 {
			return true
		}
		ix, ok := as.Lhs[0].(*ast.IndexExpr)
		if !ok {
			return true
		}
		m, ok := ix.X.(*ast.Ident)
		if !ok || !isGlobalVar(pi.info.Uses[m]) {
			return true
		}
		key := constText(pi, ix.Index)
		rhs := as.Rhs[0]
		if u, ok := rhs.(*ast.UnaryExpr); ok && u.Op == token.AND {
			rhs = u.X
		}
		var ty string
		var fields []string
		switch r := rhs.(type) {
		case *ast.CompositeLit:
			ty = exprText(r.Type)
			for _, el := range r.Elts {
				if kv, ok := el.(*ast.KeyValueExpr); ok {
					fields = append(fields, exprText(kv.Key)+"="+constText(pi, kv.Value))
				}
			}
		default:
			ty = exprText(rhs)
		}
		registry = append(registry, rec{pi.name + "." + m.Name, key, ty, strings.Join(fields, ";")})
		return true
	})
}

// ---------------------------------------------------------------- uses of package-level variables
func isGlobalVar(o types.Object) bool {
	v, ok := o.(*types.Var)
	if !ok || v.Pkg() == nil || !ourPkgs[v.Pkg()] || v.IsField() {
		return false
	}
	return v.Parent() == v.Pkg().Scope()
}

func refLike(t types.Type) bool {
	switch t.Underlying().(type) {
	case *types.Pointer, *types.Map, *types.Slice, *types.Chan, *types.Signature, *types.Interface:
		return true
	}
	return false
}

func calleeName(pi *pkgInfo, c *ast.CallExpr) string {
	switch f := c.Fun.(type) {
	case *ast.Ident:
		return f.Name
	case *ast.SelectorExpr:
		if id, ok := f.X.(*ast.Ident); ok {
			if _, isPkg := pi.info.Uses[id].(*types.PkgName); isPkg {
				return id.Name + "." + f.Sel.Name
			}
		}
		return "." + f.Sel.Name
	}
	return "?"
}

// classify the use of the expression rooted at id: climbs through field selections, indexing, slicing, derefs
func classify(pi *pkgInfo, stack []ast.Node, id *ast.Ident) (kind, detail string) {
	var cur ast.Node = id
	indexed := false
	i := len(stack) - 2 // stack[len-1] == id
	for ; i >= 0; i-- {
		p := stack[i]
		switch x := p.(type) {
		case *ast.SelectorExpr:
			if x.X == cur {
				if sel, ok := pi.info.Selections[x]; ok && sel.Kind() == types.MethodVal {
					return "method", x.Sel.Name
				}
				cur = p
				continue
			}
			if x.Sel == cur { // pkg.Var: the selector stands for the variable
				cur = p
				continue
			}
		case *ast.IndexExpr:
			if x.X == cur {
				cur = p
				indexed = true
				continue
			}
			return "read", ""
		case *ast.SliceExpr:
			if x.X == cur {
				cur = p
				continue
			}
			return "read", ""
		case *ast.StarExpr, *ast.ParenExpr:
			cur = p
			continue
		}
		break
	}
	if i < 0 {
		return "read", ""
	}
	top := cur
	// the variable itself (not an element looked up in it) handed on as a value: stored in a field or a literal, returned,
	// assigned to something else - a reference to package-level state escapes into objects the caller owns
	escapes := func() bool {
		if indexed {
			return false
		}
		e, ok := top.(ast.Expr)
		if !ok {
			return false
		}
		tv, ok := pi.info.Types[e]
		return ok && tv.Type != nil && refLike(tv.Type)
	}
	switch p := stack[i].(type) {
	case *ast.KeyValueExpr:
		if p.Value == top && escapes() {
			return "escape", "literal"
		}
	case *ast.CompositeLit:
		if escapes() {
			return "escape", "literal"
		}
	case *ast.ReturnStmt:
		if escapes() {
			return "escape", "return"
		}
	case *ast.AssignStmt:
		for _, l := range p.Lhs {
			if l == top {
				return "write", ""
			}
		}
		for _, rv := range p.Rhs {
			if rv == top && escapes() {
				return "escape", "assign"
			}
		}
	case *ast.IncDecStmt:
		return "write", ""
	case *ast.UnaryExpr:
		if p.Op == token.AND {
			// &V passed on: what happens to the address
			if i > 0 {
				if c, ok := stack[i-1].(*ast.CallExpr); ok {
					return "addr", calleeName(pi, c)
				}
			}
			return "addr", ""
		}
	case *ast.RangeStmt:
		if p.Key == top || p.Value == top {
			return "range-write", ""
		}
	case *ast.CallExpr:
		for k, a := range p.Args {
			if a == top {
				cn := calleeName(pi, p)
				switch cn {
				case "len", "cap":
					return "read", ""
				case "delete":
					return "write", "delete"
				case "copy":
					if k == 0 {
						return "write", "copy"
					}
					return "read", ""
				}
				if e, ok := top.(ast.Expr); ok {
					if tv, ok := pi.info.Types[e]; ok && tv.Type != nil && !refLike(tv.Type) {
						return "read", ""
					}
				}
				return "arg", cn
			}
		}
	}
	return "read", ""
}

func collectGlobalUses(pi *pkgInfo, fd *ast.FuncDecl, fn string) {
	var stack []ast.Node
	ast.Inspect(fd.Body, func(n ast.Node) bool {
		if n == nil {
			stack = stack[:len(stack)-1]
			return true
		}
		stack = append(stack, n)
		id, ok := n.(*ast.Ident)
		if !ok {
			return true
		}
		o := pi.info.Uses[id]
		if !isGlobalVar(o) {
			return true
		}
		kind, detail := classify(pi, stack, id)
		if kind != "read" {
			v := o.(*types.Var)
			vp := v.Pkg().Name()
			for _, q := range []*pkgInfo{pi} {
				if q.pkg == v.Pkg() {
					vp = q.name
				}
			}
			globalUses = append(globalUses, rec{vp + "." + v.Name(), fn, kind, detail})
		}
		return true
	})
}

// ---------------------------------------------------------------- writes through receivers and pointer parameters
func paramObjs(pi *pkgInfo, fd *ast.FuncDecl) map[types.Object]string {
	m := map[types.Object]string{}
	add := func(fl *ast.FieldList, what string) {
		if fl == nil {
			return
		}
		for _, f := range fl.List {
			for _, n := range f.Names {
				if o := pi.info.Defs[n]; o != nil {
					m[o] = what
				}
			}
		}
	}
	add(fd.Recv, "recv")
	add(fd.Type.Params, "param")
	return m
}

func rootIdent(e ast.Expr) (*ast.Ident, string) {
	path := ""
	for {
		switch x := e.(type) {
		case *ast.Ident:
			return x, path
		case *ast.SelectorExpr:
			path = "." + x.Sel.Name + path
			e = x.X
		case *ast.IndexExpr:
			path = "[]" + path
			e = x.X
		case *ast.SliceExpr:
			path = "[:]" + path
			e = x.X
		case *ast.StarExpr:
			e = x.X
		case *ast.ParenExpr:
			e = x.X
		default:
			return nil, ""
		}
	}
}

func collectFieldWrites(pi *pkgInfo, fd *ast.FuncDecl, fn string) {
	ps := paramObjs(pi, fd)
	// locals that point INTO an object reachable from the receiver / a pointer parameter: range variables over such
	// slices of pointers, and variables assigned from such paths (to a fixpoint: nested ranges)
	derived := map[types.Object]string{}
	rootPath := func(e ast.Expr) (string, bool) {
		id, path := rootIdent(e)
		if id == nil {
			return "", false
		}
		o := pi.info.Uses[id]
		if o == nil {
			o = pi.info.Defs[id]
		}
		if what, ok := ps[o]; ok && refLike(o.Type()) {
			return what + path, true
		}
		if dp, ok := derived[o]; ok {
			return dp + path, true
		}
		return "", false
	}
	for changed := true; changed; {
		changed = false
		ast.Inspect(fd.Body, func(n ast.Node) bool {
			switch x := n.(type) {
			case *ast.RangeStmt:
				if v, ok := x.Value.(*ast.Ident); ok && v.Name != "_" {
					if o := pi.info.Defs[v]; o != nil && refLike(o.Type()) {
						if rp, ok := rootPath(x.X); ok {
							if _, had := derived[o]; !had {
								derived[o] = rp + "[]"
								changed = true
							}
						}
					}
				}
			case *ast.AssignStmt:
				if len(x.Lhs) == len(x.Rhs) {
					for i, l := range x.Lhs {
						id, ok := l.(*ast.Ident)
						if !ok {
							continue
						}
						o := pi.info.Defs[id]
						if o == nil || !refLike(o.Type()) {
							continue
						}
						r := x.Rhs[i]
						if u, ok := r.(*ast.UnaryExpr); ok && u.Op == token.AND {
							r = u.X
						}
						if rp, ok := rootPath(r); ok && rp != "" {
							if _, isParam := ps[o]; !isParam {
								if _, had := derived[o]; !had {
									derived[o] = rp
									changed = true
								}
							}
						}
					}
				}
			}
			return true
		})
	}
	seen := map[string]bool{}
	emit := func(path, how string) {
		k := path + "|" + how
		if !seen[k] {
			seen[k] = true
			fieldWrites = append(fieldWrites, rec{fn, path, how})
		}
	}
	ast.Inspect(fd.Body, func(n ast.Node) bool {
		switch x := n.(type) {
		case *ast.AssignStmt:
			for _, l := range x.Lhs {
				if _, isId := l.(*ast.Ident); isId {
					continue
				}
				if rp, ok := rootPath(l); ok {
					emit(rp, "assign")
				}
			}
		case *ast.IncDecStmt:
			if _, isId := x.X.(*ast.Ident); !isId {
				if rp, ok := rootPath(x.X); ok {
					emit(rp, "assign")
				}
			}
		case *ast.CallExpr:
			// a pointer-receiver method called on (a field of) a receiver / pointer parameter
			if se, ok := x.Fun.(*ast.SelectorExpr); ok {
				if sel, ok := pi.info.Selections[se]; ok && sel.Kind() == types.MethodVal {
					if _, isId := se.X.(*ast.Ident); !isId {
						if rp, ok := rootPath(se.X); ok {
							if sig, ok := sel.Obj().Type().(*types.Signature); ok && sig.Recv() != nil {
								if _, ptr := sig.Recv().Type().(*types.Pointer); ptr {
									emit(rp, "call:"+se.Sel.Name)
								}
							}
						}
					}
				}
			}
		}
		return true
	})
}

// ---------------------------------------------------------------- where the octets of a []byte parameter go
func isByteSlice(t types.Type) bool {
	s, ok := t.Underlying().(*types.Slice)
	if !ok {
		return false
	}
	b, ok := s.Elem().Underlying().(*types.Basic)
	return ok && b.Kind() == types.Uint8
}

var viewReturning = map[types.Object]bool{} // functions that may return a view of a []byte argument

type flowCtx struct {
	pi      *pkgInfo
	tainted map[types.Object]bool
}

// does e alias (part of) a tainted slice?
func (c *flowCtx) alias(e ast.Expr) bool {
	switch x := e.(type) {
	case *ast.Ident:
		return c.tainted[c.pi.info.Uses[x]]
	case *ast.SliceExpr:
		return c.alias(x.X)
	case *ast.ParenExpr:
		return c.alias(x.X)
	case *ast.CallExpr:
		if id, ok := x.Fun.(*ast.Ident); ok && id.Name == "append" && len(x.Args) > 0 {
			if _, isBuiltin := c.pi.info.Uses[id].(*types.Builtin); isBuiltin {
				return c.alias(x.Args[0])
			}
		}
		if se, ok := x.Fun.(*ast.SelectorExpr); ok && strings.HasPrefix(se.Sel.Name, "Append") && len(x.Args) > 0 && c.alias(x.Args[0]) {
			return true // binary.BigEndian.AppendUint64(b, v), strconv.AppendInt(b, ...), ...: extends b in place when it has room
		}
		var fo types.Object
		switch f := x.Fun.(type) {
		case *ast.Ident:
			fo = c.pi.info.Uses[f]
		case *ast.SelectorExpr:
			fo = c.pi.info.Uses[f.Sel]
		}
		if fo != nil && viewReturning[fo] {
			for _, a := range x.Args {
				if c.alias(a) {
					return true
				}
			}
		}
		// a conversion []byte(x) of a slice is the same slice
		if tv, ok := c.pi.info.Types[x.Fun]; ok && tv.IsType() && len(x.Args) == 1 {
			return c.alias(x.Args[0])
		}
	}
	return false
}

func isAppendCopy(c *flowCtx, e ast.Expr) bool {
	x, ok := e.(*ast.CallExpr)
	if !ok {
		return false
	}
	id, ok := x.Fun.(*ast.Ident)
	if !ok || id.Name != "append" || len(x.Args) < 2 {
		return false
	}
	if c.alias(x.Args[0]) {
		return false
	}
	for _, a := range x.Args[1:] {
		if c.alias(a) {
			return true
		}
	}
	return false
}

var paramWriters = map[string]int{"binary.BigEndian.PutUint16": 0, "binary.BigEndian.PutUint32": 0, "binary.BigEndian.PutUint64": 0,
	".PutUint16": 0, ".PutUint32": 0, ".PutUint64": 0, "io.ReadFull": 1, "rand.Read": 0, ".Read": 0, ".XORKeyStream": 0, ".CryptBlocks": 0}

func collectSliceFlows(pis []*pkgInfo) {
	type job struct {
		pi *pkgInfo
		fd *ast.FuncDecl
		fn string
	}
	var jobs []job
	for _, pi := range pis {
		for _, f := range pi.files {
			for _, d := range f.Decls {
				if fd, ok := d.(*ast.FuncDecl); ok && fd.Body != nil {
					jobs = append(jobs, job{pi, fd, funcName(pi, fd)})
				}
			}
		}
	}
	// fixpoint over the "returns a view of an argument" summaries
	for changed := true; changed; {
		changed = false
		sliceFlows = nil
		for _, j := range jobs {
			if analyseFlows(j.pi, j.fd, j.fn) {
				changed = true
			}
		}
	}
}

func analyseFlows(pi *pkgInfo, fd *ast.FuncDecl, fn string) (summaryChanged bool) {
	c := &flowCtx{pi: pi, tainted: map[types.Object]bool{}}
	if fd.Type.Params != nil {
		for _, f := range fd.Type.Params.List {
			for _, n := range f.Names {
				if o := pi.info.Defs[n]; o != nil && isByteSlice(o.Type()) {
					c.tainted[o] = true
				}
			}
		}
	}
	if len(c.tainted) == 0 {
		return false
	}
	// propagate through local assignments to a fixpoint
	for ch := true; ch; {
		ch = false
		ast.Inspect(fd.Body, func(n ast.Node) bool {
			as, ok := n.(*ast.AssignStmt)
			if !ok || len(as.Lhs) != len(as.Rhs) {
				return true
			}
			for i, l := range as.Lhs {
				id, ok := l.(*ast.Ident)
				if !ok {
					continue
				}
				o := pi.info.Defs[id]
				if o == nil {
					o = pi.info.Uses[id]
				}
				if o != nil && !c.tainted[o] && c.alias(as.Rhs[i]) {
					c.tainted[o] = true
					ch = true
				}
			}
			return true
		})
	}
	seen := map[string]bool{}
	emit := func(target, kind string) {
		k := target + "|" + kind
		if !seen[k] {
			seen[k] = true
			sliceFlows = append(sliceFlows, rec{fn, target, kind})
		}
	}
	fo := pi.info.Defs[fd.Name]
	ast.Inspect(fd.Body, func(n ast.Node) bool {
		switch x := n.(type) {
		case *ast.AssignStmt:
			for i, l := range x.Lhs {
				if _, isId := l.(*ast.Ident); isId {
					continue
				}
				_, path := rootIdent(l)
				switch l.(type) {
				case *ast.IndexExpr:
					// p[i] = v : a write through the parameter
					if ix := l.(*ast.IndexExpr); c.alias(ix.X) {
						emit(exprText(ix.X), "param-write")
						continue
					}
				}
				if len(x.Lhs) == len(x.Rhs) {
					if c.alias(x.Rhs[i]) {
						emit(strings.TrimPrefix(path, "."), "view")
					} else if isAppendCopy(c, x.Rhs[i]) {
						emit(strings.TrimPrefix(path, "."), "copy")
					}
				}
			}
		case *ast.KeyValueExpr:
			if c.alias(x.Value) {
				emit(exprText(x.Key), "view")
			}
		case *ast.ReturnStmt:
			for _, r := range x.Results {
				if c.alias(r) {
					emit("return", "view")
					if fo != nil && !viewReturning[fo] {
						viewReturning[fo] = true
						summaryChanged = true
					}
				}
			}
		case *ast.CallExpr:
			cn := calleeName(pi, x)
			if se, ok := x.Fun.(*ast.SelectorExpr); ok {
				if inner, ok := se.X.(*ast.SelectorExpr); ok {
					cn = exprText(inner) + "." + se.Sel.Name
				}
			}
			if id, ok := x.Fun.(*ast.Ident); ok {
				if _, isBuiltin := pi.info.Uses[id].(*types.Builtin); isBuiltin {
					if id.Name == "copy" && len(x.Args) == 2 && c.alias(x.Args[0]) {
						emit(exprText(x.Args[0]), "param-write")
					}
					if id.Name == "append" && len(x.Args) > 0 && c.alias(x.Args[0]) {
						emit(exprText(x.Args[0]), "param-write") // may write into the parameter's spare capacity
					}
				}
			}
			if k, ok := paramWriters[cn]; ok && k < len(x.Args) && c.alias(x.Args[k]) {
				emit(exprText(x.Args[k]), "param-write")
			}
			if se, ok := x.Fun.(*ast.SelectorExpr); ok && strings.HasPrefix(se.Sel.Name, "Append") && len(x.Args) > 0 && c.alias(x.Args[0]) {
				emit(exprText(x.Args[0]), "param-write") // may write into the parameter's spare capacity
			}
		}
		return true
	})
	return summaryChanged
}

// ---------------------------------------------------------------- output
func q(s string) string {
	var b strings.Builder
	b.WriteByte('"')
	for _, r := range s {
		switch {
		case r == '"':
			b.WriteString(`""`)
		case r < 32 || r > 126:
			b.WriteString("?")
		default:
			b.WriteRune(r)
		}
	}
	b.WriteByte('"')
	return b.String()
}

func sorted(rs []rec) []rec {
	sort.Slice(rs, func(i, j int) bool { return strings.Join(rs[i], "\x00") < strings.Join(rs[j], "\x00") })
	var out []rec
	for i, r := range rs {
		if i == 0 || strings.Join(r, "\x00") != strings.Join(rs[i-1], "\x00") {
			out = append(out, r)
		}
	}
	return out
}

func write(path string) {
	var b strings.Builder
	b.WriteString("(* GENERATED by tools/srcfacts from the current source of free5gc/ike - do not edit.\n   Definitions only; coq/gen/SrcAgree.v states and proves what the development needs of them. *)\n")
	b.WriteString("From Coq Require Import List String ZArith.\nImport ListNotations.\nLocal Open Scope string_scope.\nLocal Open Scope Z_scope.\n\n")
	list := func(name, ty string, rs []rec, f func(rec) string) {
		rs = sorted(rs)
		fmt.Fprintf(&b, "Definition %s : list (%s) := [\n", name, ty)
		for i, r := range rs {
			sep := ";"
			if i == len(rs)-1 {
				sep = ""
			}
			fmt.Fprintf(&b, "  %s%s\n", f(r), sep)
		}
		b.WriteString("].\n\n")
	}
	list("src_consts", "string * Z", consts, func(r rec) string { return "(" + q(r[0]) + ", " + zlit(r[1]) + ")" })
	list("src_strconsts", "string * string", strconsts, func(r rec) string { return "(" + q(r[0]) + ", " + q(r[1]) + ")" })
	list("src_hexconsts", "string * Z", hexconsts, func(r rec) string { return "(" + q(r[0]) + ", " + zlit(r[1]) + ")" })
	four := func(r rec) string { return "(" + q(r[0]) + ", " + q(r[1]) + ", " + q(r[2]) + ", " + q(r[3]) + ")" }
	three := func(r rec) string { return "(" + q(r[0]) + ", " + q(r[1]) + ", " + q(r[2]) + ")" }
	list("src_registry", "string * string * string * string", registry, four)
	list("src_global_uses", "string * string * string * string", globalUses, four)
	list("src_field_writes", "string * string * string", fieldWrites, three)
	list("src_slice_flows", "string * string * string", sliceFlows, three)
	list("src_dispatch", "string * string * string", dispatch, three)
	if err := os.WriteFile(path, []byte(b.String()), 0o644); err != nil {
		fatal("%v", err)
	}
}

func zlit(s string) string {
	if strings.HasPrefix(s, "-") {
		return "(" + s + ")"
	}
	return s
}
