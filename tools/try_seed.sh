#!/bin/sh
# tools/try_seed.sh <ID> <patch.diff> [check-ids...] : apply a seeded change to /repo, confirm the suite still passes,
# run the checks (default: the property's own), undo the change.  Prints one line per check.
set -u
id=$1; patch=$2; shift 2
checks=${*:-$id}
export GOFLAGS=-mod=mod GOPROXY=off GOSUMDB=off GOTOOLCHAIN=local
cd /repo || exit 2
git diff --quiet || { echo "repo not clean"; exit 2; }
git apply "$patch" || { echo "patch does not apply"; exit 2; }
if go build ./... >/dev/null 2>&1 && go test -count=1 ./... >/tmp/seed_suite.log 2>&1; then echo "suite: pass"; else echo "suite: FAIL"; fi
for c in $checks; do
  out=$(cd /verif && VERIF_NO_CLEAN=1 bin/check "$c" quick 2>&1)
  echo "check $c: $(echo "$out" | grep -E '^VIOLATION|^check ' | tr '\n' ' ')"
done
git checkout -- . && git status --short | grep -v '^??' | head -3
