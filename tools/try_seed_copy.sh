#!/bin/sh
# tools/try_seed_copy.sh <ID> <worktree-with-the-change-applied> : run the property's quick check from a scratch COPY of
# /verif (under /tmp, removed afterwards) against a scratch worktree instead of /repo (VERIF_REPO + the harness's replace
# directive), so that seeded changes can be tried in parallel without touching /repo or /verif.  Prints the last lines.
set -u
id=$1; wt=$2; c=/tmp/vcopy-$id-$$
export GOFLAGS=-mod=mod GOPROXY=off GOSUMDB=off GOTOOLCHAIN=local
mkdir -p $c && rsync -a --exclude .git --exclude replays --exclude evidence /verif/ $c/ && mkdir -p $c/replays $c/evidence
sed -i "s#=> /repo#=> $wt#" $c/harness/go.mod
out=$(cd $c && VERIF_REPO=$wt VERIF_NO_CLEAN=1 bin/check "$id" quick 2>&1)
echo "$out" | grep -E '^VIOLATION|^check |^KNOWN' | cut -c1-220
f=$(echo "$out" | sed -n 's/^VIOLATION.*replay=\([^ ]*\).*/\1/p' | head -1)
[ -n "$f" ] && [ -f "$f" ] && python3 -c "
import json,sys
d=json.load(open('$f'))
for k in ('kind','rule','what','finding','summary'):
    if k in d: print('  ',k,':',str(d[k])[:300])
fs=d.get('findings') or []
for x in fs[:2]: print('   finding:', json.dumps(x)[:400])
"
rm -rf $c
