#!/bin/sh
# tools/try_seed_fast.sh <patch.diff> <prop-ids...> : apply a change to /repo, check the suite, run the harness runners directly, undo.
set -u
patch=$1; shift
export GOFLAGS=-mod=mod GOPROXY=off GOSUMDB=off GOTOOLCHAIN=local
cd /repo || exit 2
git diff --quiet || { echo "repo not clean"; exit 2; }
git apply "$patch" || { echo "patch does not apply"; exit 2; }
if go build ./... >/dev/null 2>&1 && go test -count=1 ./... >/tmp/seed_suite.log 2>&1; then echo "suite: pass"; else echo "suite: FAIL"; fi
cd /verif/harness && cp /repo/go.sum . && go build -tags verif -o /tmp/seed_harness . || echo "harness build failed"
for c in "$@"; do
  /tmp/seed_harness -prop "$c" -tier quick -seed ${VERIF_SEED:-1} -model /verif/ocaml/modeldriver -out /tmp/seed_r.json -corpus /verif/corpus | tail -1
  python3 - <<'PY'
import json
r=json.load(open('/tmp/seed_r.json'))
ks={}
for f in r['findings']:
    ks.setdefault((f['kind'],f['what'][:110]),0); ks[(f['kind'],f['what'][:110])]+=1
for k,v in list(ks.items())[:6]: print('   ',k[0],'|',k[1])
PY
done
cd /repo && git checkout -- . ; rm -f /tmp/seed_harness
